(* C04 — cast_to_integer_or_char with its decisive structure taken from the regenerated C04/Gen.v:
   the order in which the source object is classified, the `strict` flag of the final integer
   conversion, and the statement sequence after got_value: (normalisation of _Bool relative to the
   store).  What each branch computes is hand-written (as in C04/Model.v). *)
From Coq Require Import ZArith List Bool.
From Cffi Require Import C03.Mem C04.IR C04.Gen C04.Model.
Import ListNotations.
Open Scope Z_scope.

Definition branch_applies (b : cast_branch) (T : cty) (s : src) : bool :=
  match b with
  | CBPointer => match s with SPtr _ => true | _ => false end
  | CBUnicode => match s with SStr _ | SStrLen _ => true | _ => false end
  | CBBytes => match s with SBytes _ | SBytesLen _ => true | _ => false end
  | CBBool => match ckind T with KBool => true | _ => false end
  | CBNumber => true
  end.

(* _my_PyLong_AsUnsignedLongLong(ob, strict) on ints, floats and the rest *)
Definition as_ull (strict : bool) (s : src) : cres Z :=
  match s with
  | SInt v => if strict then (if (v <? 0) || (2 ^ 64 <=? v) then CErr COverflowError else COk v)
              else COk (to_u64 v)
  | SFloat m e => if strict then CErr CTypeError else COk (to_u64 (float_to_int m e))
  | SFloatInf => if strict then CErr CTypeError else CErr COverflowError
  | SFloatNan => if strict then CErr CTypeError else CErr CValueError
  | _ => CErr CTypeError
  end.

Definition branch_value (b : cast_branch) (T : cty) (s : src) : cres Z :=
  match b with
  | CBPointer => match s with SPtr a => COk (to_u64 a) | _ => CErr CTypeError end
  | CBUnicode =>
      match s with
      | SStr cp => match ckind T with
                   | KChar true => COk (to_u64 ((cp + 2 ^ 31) mod 2 ^ 32 - 2 ^ 31))
                   | _ => COk cp
                   end
      | _ => CErr CTypeError
      end
  | CBBytes => match s with SBytes b => COk (b mod 256) | _ => CErr CTypeError end
  | CBBool =>                                     (* _my_PyObject_AsBool *)
      match s with
      | SInt v => COk (nonzero v)
      | SFloat m _ => COk (nonzero m)
      | SFloatInf | SFloatNan => COk 1
      | SPtr a => COk (nonzero a)                 (* only reached if the chain is reordered: a cdata has nb_int *)
      | _ => CErr CTypeError
      end
  | CBNumber => as_ull cast_number_strict s
  end.

Fixpoint first_branch (bs : list cast_branch) (T : cty) (s : src) : cres Z :=
  match bs with
  | [] => CErr CTypeError
  | b :: r => if branch_applies b T s then branch_value b T s else first_branch r T s
  end.

Definition gen_cast_value (T : cty) (s : src) : cres Z := first_branch cast_branches T s.

(* the statements after got_value:  (value, the new cdata's bytes if allocated) *)
Definition is_bool (T : cty) : bool := match ckind T with KBool => true | _ => false end.

Fixpoint exec_tail (T : cty) (p : list tstmt) (value : Z) (cd : option (list Z)) : cres (list Z) :=
  match p with
  | [] => CErr CTypeError                           (* no return: not a cast *)
  | TNormalizeValue :: r => exec_tail T r (if is_bool T then nonzero value else value) cd
  | TAlloc :: r => exec_tail T r value (Some (repeat 0 (csize T)))
  | TWrite :: r => match cd with
                   | Some _ => exec_tail T r value (Some (write_raw (csize T) value))
                   | None => CErr CTypeError        (* write through an unallocated cdata *)
                   end
  | TNormalizeByte0 :: r =>
      match cd with
      | Some (b0 :: rest) => exec_tail T r value (Some ((if is_bool T then nonzero b0 else b0) :: rest))
      | _ => CErr CTypeError
      end
  | TReturn :: _ => match cd with Some bs => COk bs | None => CErr CTypeError end
  end.

Definition gen_cast_bytes (T : cty) (s : src) : cres (list Z) :=
  match gen_cast_value T s with
  | COk value => exec_tail T cast_tail value None
  | CErr e => CErr e
  end.

(* ---- do_cast, pointer branch with a Python int source (src/c/_cffi_backend.c, do_cast):
        value = _my_PyLong_AsUnsignedLongLong(ob, cast_ptr_strict);  [error -> NULL]
        return new_simple_cdata((char * )(Py_intptr_t)value, ct);
        The strict flag is the regenerated C04.Gen.cast_ptr_strict; pointers have psize bytes. *)
Definition gen_cast_int_to_ptr (psize : nat) (v : Z) : cres Z :=
  match as_ull cast_ptr_strict (SInt v) with
  | COk value => COk (value mod 2 ^ (8 * Z.of_nat psize))
  | CErr e => CErr e
  end.
