(* C04 — proofs about C04/Model.v against C04/Spec.v. *)
From Coq Require Import ZArith Znumtheory List Bool Lia ZifyBool.
From Cffi Require Import C03.Mem C03.MemProofs C04.Spec C04.Model.
Import ListNotations.
Open Scope Z_scope.

(* ---------------------------------------------------------------- the specification is canonical *)

Lemma pow2_split n : 0 < n -> 2 ^ n = 2 * 2 ^ (n - 1).
Proof. intros. replace n with (1 + (n - 1)) at 1 by lia. rewrite Z.pow_add_r by lia. reflexivity. Qed.

Lemma reduce_in_range sg bits z : 0 < bits -> in_range_bits sg bits (reduce sg bits z).
Proof.
  intros Hb. unfold in_range_bits, reduce. pose proof (pow2_split bits Hb) as E.
  assert (0 < 2 ^ (bits - 1)) by (apply Z.pow_pos_nonneg; lia).
  destruct sg.
  - pose proof (Z.mod_pos_bound (z + 2 ^ (bits - 1)) (2 ^ bits) ltac:(lia)). lia.
  - apply Z.mod_pos_bound. lia.
Qed.

Lemma reduce_congruent sg bits z : 0 < bits -> exists k, reduce sg bits z = z + k * 2 ^ bits.
Proof.
  intros Hb. unfold reduce. assert (0 < 2 ^ bits) by (apply Z.pow_pos_nonneg; lia).
  destruct sg.
  - exists (- ((z + 2 ^ (bits - 1)) / 2 ^ bits)).
    pose proof (Z.div_mod (z + 2 ^ (bits - 1)) (2 ^ bits) ltac:(lia)). lia.
  - exists (- (z / 2 ^ bits)). pose proof (Z.div_mod z (2 ^ bits) ltac:(lia)). lia.
Qed.

Lemma reduce_unique sg bits z r : 0 < bits -> in_range_bits sg bits r ->
  (exists k, r = z + k * 2 ^ bits) -> r = reduce sg bits z.
Proof.
  intros Hb Hr [k Hk].
  pose proof (reduce_in_range sg bits z Hb) as Hr'.
  destruct (reduce_congruent sg bits z Hb) as [k' Hk'].
  set (r' := reduce sg bits z) in *. clearbody r'.
  pose proof (pow2_split bits Hb) as E.
  assert (0 < 2 ^ (bits - 1)) by (apply Z.pow_pos_nonneg; lia).
  assert (r - r' = (k - k') * 2 ^ bits) as D by lia.
  assert (k - k' = 0) as K.
  { unfold in_range_bits in *. destruct sg; nia. }
  rewrite K in D. lia.
Qed.

Lemma reduce_id sg bits z : 0 < bits -> in_range_bits sg bits z -> reduce sg bits z = z.
Proof.
  intros Hb Hz. symmetry. apply reduce_unique; try assumption. exists 0. lia.
Qed.

(* ---------------------------------------------------------------- read of a truncating write *)

Lemma signed_wrap_equiv n z : 0 < n ->
  (let u := z mod 2 ^ n in if u <? 2 ^ (n - 1) then u else u - 2 ^ n) =
  (z + 2 ^ (n - 1)) mod 2 ^ n - 2 ^ (n - 1).
Proof.
  intros Hn. cbv zeta. pose proof (pow2_split n Hn) as E.
  assert (0 < 2 ^ (n - 1)) by (apply Z.pow_pos_nonneg; lia).
  pose proof (Z.mod_pos_bound z (2 ^ n) ltac:(lia)) as B.
  pose proof (Z.div_mod z (2 ^ n) ltac:(lia)) as D.
  destruct (Z.ltb_spec (z mod 2 ^ n) (2 ^ (n - 1))).
  - assert (z mod 2 ^ n + 2 ^ (n - 1) = (z + 2 ^ (n - 1)) mod 2 ^ n); [|lia].
    apply Z.mod_unique with (q := z / 2 ^ n); lia.
  - assert (z mod 2 ^ n - 2 ^ (n - 1) = (z + 2 ^ (n - 1)) mod 2 ^ n); [|lia].
    apply Z.mod_unique with (q := z / 2 ^ n + 1); lia.
Qed.

Lemma mod64_mod s z : (s <= 8)%nat -> (z mod 2 ^ 64) mod 2 ^ (8 * Z.of_nat s) = z mod 2 ^ (8 * Z.of_nat s).
Proof.
  intros Hs. symmetry. apply Zmod_div_mod; try (apply Z.pow_pos_nonneg; lia).
  exists (2 ^ (64 - 8 * Z.of_nat s)). rewrite <- Z.pow_add_r by lia. f_equal. lia.
Qed.

Lemma read_unsigned_write_any s z : (s <= 8)%nat ->
  read_raw_unsigned (write_raw s z) = reduce false (8 * Z.of_nat s) z.
Proof. intros. rewrite read_unsigned_write by assumption. reflexivity. Qed.

Lemma read_signed_write_any s z : (1 <= s <= 8)%nat ->
  read_raw_signed (write_raw s z) = reduce true (8 * Z.of_nat s) z.
Proof.
  intros. rewrite read_signed_write by lia. unfold reduce. apply signed_wrap_equiv. lia.
Qed.

Lemma reduce_mod64 sg s z : (1 <= s <= 8)%nat ->
  reduce sg (8 * Z.of_nat s) (z mod 2 ^ 64) = reduce sg (8 * Z.of_nat s) z.
Proof.
  intros Hs. apply reduce_unique; try lia.
  - apply reduce_in_range. lia.
  - destruct (reduce_congruent sg (8 * Z.of_nat s) (z mod 2 ^ 64) ltac:(lia)) as [k Hk].
    exists (k - (z / 2 ^ 64) * 2 ^ (64 - 8 * Z.of_nat s)).
    rewrite Hk. pose proof (Z.div_mod z (2 ^ 64) ltac:(lia)) as D.
    assert (2 ^ 64 = 2 ^ (64 - 8 * Z.of_nat s) * 2 ^ (8 * Z.of_nat s)) as E.
    { rewrite <- Z.pow_add_r by lia. f_equal. lia. }
    rewrite E in D at 1. nia.
Qed.

(* ---------------------------------------------------------------- the cast *)

Definition src_value (s : src) : Z :=
  match s with
  | SInt v => v
  | SFloat m e => trunc_float m e
  | SBytes b => b
  | SStr cp => cp
  | SPtr a => a
  | _ => 0
  end.

Definition src_nonzero (s : src) : bool :=
  match s with
  | SInt v => negb (v =? 0)
  | SFloat m e => negb (m =? 0)          (* the float itself, not its truncation *)
  | SBytes b => negb (b =? 0)
  | SStr cp => negb (cp =? 0)
  | SPtr a => negb (a =? 0)
  | _ => false
  end.

(* the source kinds the property lists *)
Definition valid_src (s : src) : Prop :=
  match s with
  | SInt _ | SFloat _ _ => True
  | SBytes b => 0 <= b < 256
  | SStr cp => 0 <= cp <= 1114111
  | SPtr a => 0 <= a < 2 ^ 64
  | _ => False
  end.

(* signedness of the integer that int() returns *)
Definition tsigned (T : cty) : bool :=
  match ckind T with
  | KSigned => true
  | KChar sw => sw
  | _ => false
  end.

Definition wf_cty (T : cty) : Prop :=
  (1 <= csize T <= 8)%nat /\
  (ckind T = KChar true -> csize T = 4%nat) /\
  (forall sw, ckind T = KChar sw -> (csize T <= 4)%nat).

Lemma cast_value_mod T s : valid_src s -> wf_cty T -> ckind T <> KBool ->
  exists z, cast_value T s = COk z /\
  reduce (tsigned T) (8 * Z.of_nat (csize T)) z =
  reduce (tsigned T) (8 * Z.of_nat (csize T)) (src_value s).
Proof.
  intros Hv [Hs [Hw _]] Hk. unfold cast_value, to_u64.
  destruct s; cbn [src_value valid_src] in *; try contradiction.
  - destruct (ckind T) eqn:K; try congruence; eexists; (split; [reflexivity|]); apply reduce_mod64; assumption.
  - unfold trunc_float, float_to_int.
    destruct (ckind T) eqn:K; try congruence; eexists; (split; [reflexivity|]); apply reduce_mod64; assumption.
  - eexists; split; [reflexivity|]. rewrite Z.mod_small by lia. reflexivity.
  - destruct (ckind T) eqn:K; try (eexists; split; reflexivity).
    destruct signed_wchar; try (eexists; split; reflexivity).
    eexists; split; [reflexivity|].
    rewrite reduce_mod64 by assumption. f_equal.
    rewrite Z.mod_small by lia. lia.
  - eexists; split; [reflexivity|]. apply reduce_mod64; assumption.
Qed.

Theorem cast_exact T s : valid_src s -> wf_cty T -> ckind T <> KBool ->
  int_of_cast T s = COk (reduce (tsigned T) (8 * Z.of_nat (csize T)) (src_value s)).
Proof.
  intros Hv Hwf Hk. destruct (cast_value_mod T s Hv Hwf Hk) as [z [Ez Er]].
  rewrite <- Er. destruct Hwf as [Hs [Hw _]].
  unfold int_of_cast, cast_bytes, cdata_int, tsigned. rewrite Ez.
  destruct (ckind T) eqn:K; try congruence; f_equal.
  - apply read_signed_write_any; assumption.
  - apply read_unsigned_write_any; lia.
  - destruct signed_wchar.
    + rewrite (Hw eq_refl). cbn [andb Nat.eqb]. apply read_signed_write_any; lia.
    + cbn [andb]. apply read_unsigned_write_any; lia.
Qed.

Lemma bool_value_nonzero T s : valid_src s -> ckind T = KBool ->
  exists z, cast_value T s = COk z /\ nonzero z = if src_nonzero s then 1 else 0.
Proof.
  intros Hv K. unfold cast_value, to_u64, nonzero. rewrite K.
  destruct s; cbn [src_nonzero valid_src] in *; try contradiction; eexists; (split; [reflexivity|]).
  - destruct (v =? 0); reflexivity.
  - destruct (m =? 0); reflexivity.
  - rewrite Z.mod_small by lia. destruct (b =? 0); reflexivity.
  - destruct (cp =? 0); reflexivity.
  - rewrite Z.mod_small by lia. destruct (addr =? 0); reflexivity.
Qed.

Theorem cast_bool T s : valid_src s -> (1 <= csize T <= 8)%nat -> ckind T = KBool ->
  int_of_cast T s = COk (if src_nonzero s then 1 else 0).
Proof.
  intros Hv Hs K. destruct (bool_value_nonzero T s Hv K) as [z [Ez En]].
  unfold int_of_cast, cast_bytes, cdata_int. rewrite Ez, K, En. f_equal.
  rewrite read_unsigned_write by lia.
  assert (1 < 2 ^ (8 * Z.of_nat (csize T))).
  { apply Z.lt_le_trans with (2 ^ 8); [reflexivity|apply Z.pow_le_mono_r; lia]. }
  destruct (src_nonzero s); apply Z.mod_small; lia.
Qed.

(* "ffi.cast(T, x) succeeds" for every listed source kind and every target *)
Theorem cast_succeeds T s : valid_src s -> wf_cty T -> exists z, int_of_cast T s = COk z.
Proof.
  intros Hv Hwf. destruct (ckind T) eqn:K.
  1,2,4: eexists; apply cast_exact; try assumption; congruence.
  eexists. apply cast_bool; try assumption. destruct Hwf; assumption.
Qed.

(* the sources outside the property's list: what the code does with them *)
Theorem cast_unlisted T :
  int_of_cast T SOther = CErr CTypeError /\
  (forall n, int_of_cast T (SBytesLen n) = CErr CTypeError) /\
  (forall n, int_of_cast T (SStrLen n) = CErr CTypeError) /\
  (ckind T <> KBool -> int_of_cast T SFloatInf = CErr COverflowError /\ int_of_cast T SFloatNan = CErr CValueError).
Proof.
  unfold int_of_cast, cast_bytes, cast_value. repeat split; try reflexivity;
    destruct (ckind T); try reflexivity; congruence.
Qed.

(* in-range sources are preserved *)
Corollary cast_in_range_id T s : valid_src s -> wf_cty T -> ckind T <> KBool ->
  in_range_bits (tsigned T) (8 * Z.of_nat (csize T)) (src_value s) ->
  int_of_cast T s = COk (src_value s).
Proof.
  intros Hv Hwf Hk Hr. rewrite cast_exact by assumption. f_equal.
  apply reduce_id; [destruct Hwf as [? _]; lia|assumption].
Qed.

(* pointer -> uintptr_t / intptr_t -> pointer gives the same address, for any pointer size
   (psize = 8 on this platform) *)
Theorem ptr_roundtrip (sg : bool) (psize : nat) a : (1 <= psize <= 8)%nat -> 0 <= a < 2 ^ (8 * Z.of_nat psize) ->
  exists z, int_of_cast (mk_cty (if sg then KSigned else KUnsigned) psize) (SPtr a) = COk z /\
            cast_int_to_ptr psize z = a.
Proof.
  intros Hp Ha.
  assert (2 ^ (8 * Z.of_nat psize) <= 2 ^ 64) by (apply Z.pow_le_mono_r; lia).
  assert (wf_cty (mk_cty (if sg then KSigned else KUnsigned) psize)) as W.
  { unfold wf_cty; cbn [csize ckind]. repeat split; try lia; destruct sg; try discriminate; intros; discriminate. }
  eexists. split.
  - apply cast_exact; [cbn; lia|exact W|destruct sg; discriminate].
  - cbn [src_value csize]. unfold cast_int_to_ptr, to_u64.
    rewrite mod64_mod by lia.
    destruct (reduce_congruent (tsigned (mk_cty (if sg then KSigned else KUnsigned) psize)) (8 * Z.of_nat psize) a ltac:(lia)) as [k ->].
    rewrite Z.mod_add by lia. apply Z.mod_small. exact Ha.
Qed.
