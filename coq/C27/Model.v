(* C27 — non-aggregate ctypes are canonical over any history.

   Model of the unique-type cache of src/c/_cffi_backend.c:
     unique_cache (:400)                     dict  key bytes -> weakref(ctype)
     get_or_insert_unique_type / get_unique_type (:4631/:4671)
     ctypedescr_dealloc (:460) -> remove_dead_unique_reference (:4706)
     ctypedescr_clear (:486)  (tp_clear: the cyclic GC drops the child references BEFORE dealloc)
   The key of a type is built from its shape (kind, primitive / length / ellipsis+abi) and the
   ADDRESSES of its child types (new_pointer_type :4924, new_array_type :4987, new_function_type
   :6025, keys at :6110-6116), so address reuse after a free is the danger.  Objects therefore have an identity (oid,
   never reused) and an address (reusable); the allocator is adversarial: [New] takes the address
   as an argument and only requires it to be unoccupied.

   Weak references: cache entries hold the oid; the weakref is alive iff that object is still in the
   heap and has not been "cleared" by the cyclic GC (zombie = weakrefs cleared + tp_clear done,
   dealloc still to come). *)
From Coq Require Import ZArith NArith List Bool Lia.
Import ListNotations.
From Cffi Require Export C27.Keys C27.Gen.

Definition shape := (N * Z)%type.      (* kind: 0 prim 1 void 2 pointer 3 array 4 function 5 aggregate;
                                          Z: primitive id / array length / ellipsis+abi / aggregate tag *)
Definition key := list Z.                  (* the words of the unique_key[] array handed to get_unique_type:
                                              addresses of child types / static objects, and numbers *)

Record tobj := { t_oid : N; t_addr : N; t_shape : shape; t_kids : list N (* oids *);
                 t_ukey : option key; t_zombie : bool }.

Record state := { heap : list tobj; cache : list (key * N); next_oid : N; handles : list (N * N) }.

Definition init : state := {| heap := []; cache := []; next_oid := 0; handles := [] |}.

Definition is_agg (sh : shape) : bool := N.eqb (fst sh) 5.

Definition shape_eqb (a b : shape) : bool := N.eqb (fst a) (fst b) && Z.eqb (snd a) (snd b).
Fixpoint nlist_eqb (a b : list N) : bool :=
  match a, b with
  | [], [] => true
  | x :: a', y :: b' => N.eqb x y && nlist_eqb a' b'
  | _, _ => false
  end.
Fixpoint zlist_eqb (a b : list Z) : bool :=
  match a, b with
  | [], [] => true
  | x :: a', y :: b' => Z.eqb x y && zlist_eqb a' b'
  | _, _ => false
  end.
Definition key_eqb (a b : key) : bool := zlist_eqb a b.

Fixpoint find_obj (i : N) (h : list tobj) : option tobj :=
  match h with
  | [] => None
  | o :: t => if N.eqb (t_oid o) i then Some o else find_obj i t
  end.

Definition alive_nz (h : list tobj) (i : N) : bool :=
  match find_obj i h with Some o => negb (t_zombie o) | None => false end.

Definition addr_of (h : list tobj) (i : N) : N :=
  match find_obj i h with Some o => t_addr o | None => 0%N end.

(* ---- the key words, BUILT from the regenerated recipes of C27/Gen.v (one recipe per constructor, in slot
   order).  A heap object's address is the word Z.of_N addr (>= 0); the static objects whose addresses
   serve as keys (the primitive's entry of the types table, the string literal "void") are modelled as
   pairwise different NEGATIVE words, i.e. static storage is assumed disjoint from the heap; number
   words (length, flags) are the value cast to a pointer: value mod 2^64, so the open array's -1 is 2^64-1. *)
Definition W64 : Z := 18446744073709551616.
Definition recipe_of (kind : N) : list ksrc :=
  if N.eqb kind 0 then primitive_key else if N.eqb kind 1 then void_key else
  if N.eqb kind 2 then pointer_key else if N.eqb kind 3 then array_key else
  if N.eqb kind 4 then function_key else [].
Definition static_word (sh : shape) : Z := if N.eqb (fst sh) 1 then (-1)%Z else (- snd sh - 2)%Z.
Definition aw (h : list tobj) (c : N) : Z := Z.of_N (addr_of h c).
Definition hd_word (h : list tobj) (kids : list N) : Z := match kids with [] => 0%Z | c :: _ => aw h c end.
Definition src_words (h : list tobj) (sh : shape) (kids : list N) (k : ksrc) : list Z :=
  match k with
  | KStatic => [static_word sh]
  | KItem | KPtr | KResult => [hd_word h kids]       (* the first (for pointer and array: only) child *)
  | KLen | KFlags => [(snd sh mod W64)%Z]
  | KNargs => [Z.of_nat (length (tl kids))]
  | KArgsStored | KArgsRaw => map (aw h) (tl kids)    (* which objects these are is decided by key_kids below *)
  | KOther => [0%Z]                                   (* an expression outside the vocabulary: no information *)
  end.
Definition key_of (h : list tobj) (sh : shape) (kids : list N) : key :=
  flat_map (src_words h sh kids) (recipe_of (fst sh)).

(* the argument checks of the constructors: a primitive id / no number for void and pointer / an array
   length that is -1 (open) or a Py_ssize_t >= 0 (new_array_type: "negative array length") / the flags word;
   and the number of children each kind takes.  [New] rejects anything else. *)
Definition wf_shape (sh : shape) (n : nat) : bool :=
  let k := fst sh in let z := snd sh in
  if N.eqb k 0 then (0 <=? z)%Z && Nat.eqb n 0 else
  if N.eqb k 1 then (z =? 0)%Z && Nat.eqb n 0 else
  if N.eqb k 2 then (z =? 0)%Z && Nat.eqb n 1 else
  if N.eqb k 3 then (-1 <=? z)%Z && (z <? 9223372036854775808)%Z && Nat.eqb n 1 else
  if N.eqb k 4 then (0 <=? z)%Z && (z <? W64)%Z && Nat.leb 1 n else
  N.eqb k 5.

Definition occupied (h : list tobj) (a : N) : bool := existsb (fun o => N.eqb (t_addr o) a) h.

Fixpoint cache_get (k : key) (c : list (key * N)) : option N :=
  match c with
  | [] => None
  | (k', i) :: t => if key_eqb k k' then Some i else cache_get k t
  end.
Fixpoint cache_del (k : key) (c : list (key * N)) : list (key * N) :=
  match c with
  | [] => []
  | (k', i) :: t => if key_eqb k k' then cache_del k t else (k', i) :: cache_del k t
  end.
Definition cache_set (k : key) (i : N) (c : list (key * N)) : list (key * N) := (k, i) :: cache_del k c.

Fixpoint heap_del (i : N) (h : list tobj) : list tobj :=
  match h with
  | [] => []
  | o :: t => if N.eqb (t_oid o) i then heap_del i t else o :: heap_del i t
  end.

Fixpoint hlookup (h : N) (l : list (N * N)) : option N :=
  match l with
  | [] => None
  | (h', i) :: t => if N.eqb h h' then Some i else hlookup h t
  end.
Fixpoint hremove (h : N) (l : list (N * N)) : list (N * N) :=
  match l with
  | [] => []
  | (h', i) :: t => if N.eqb h h' then hremove h t else (h', i) :: hremove h t
  end.

Definition nmem (x : N) (l : list N) : bool := existsb (N.eqb x) l.

(* reference count of object i: handles + non-zombie parents (a zombie has dropped its children) *)
Definition has_handle (s : state) (i : N) : bool := existsb (fun p => N.eqb (snd p) i) (handles s).
Definition has_parent (h : list tobj) (i : N) : bool :=
  existsb (fun o => negb (t_zombie o) && nmem i (t_kids o)) h.

(* array-to-pointer decay of a function argument: an array type's only child is its pointer type *)
Definition decay (h : list tobj) (i : N) : N :=
  match find_obj i h with
  | Some o => if N.eqb (fst (t_shape o)) 3 then hd i (t_kids o) else i
  | None => i
  end.

(* the children a new type REFERENCES (and so keeps alive), given what the caller passed:
   new_function_type stores the result and the decayed arguments in fct->ct_stuff; pointer and array
   types store exactly what they are given (ct_itemdescr / ct_stuff) *)
Definition ref_kids (h : list tobj) (sh : shape) (kids : list N) : list N :=
  if N.eqb (fst sh) 4
  then match kids with res :: args => res :: map (decay h) args | [] => [] end
  else kids.

(* the objects whose ADDRESSES enter the key — read from the regenerated key recipes (C27/Gen.v):
   the function key is built either from the stored (decayed) arguments or from the caller's tuple;
   pointer and array keys must be [item] and [pointer; length] (see keys_as_modelled) *)
Definition func_key_stored : bool :=
  existsb (ksrc_eqb KArgsStored) function_key && negb (existsb (ksrc_eqb KArgsRaw) function_key).
Definition keys_as_modelled : bool :=
  klist_eqb primitive_key [KStatic] && klist_eqb void_key [KStatic] &&
  klist_eqb pointer_key [KItem] && klist_eqb array_key [KPtr; KLen] &&
  (klist_eqb function_key [KResult; KFlags; KNargs; KArgsStored]
   || klist_eqb function_key [KResult; KFlags; KNargs; KArgsRaw]).
Definition key_kids (h : list tobj) (sh : shape) (kids : list N) : list N :=
  if N.eqb (fst sh) 4 && negb func_key_stored then kids else ref_kids h sh kids.

Inductive op :=
| New (h : N) (sh : shape) (kids : list N) (a : N)
      (* build a type of this shape over these child objects; the allocator puts the candidate at a *)
| Complete (i : N) (kids : list N)      (* complete_struct_or_union: the aggregate now references its field types *)
| Unhandle (h : N)                      (* a Python reference goes away *)
| Free (i : N)                          (* refcount 0: ctypedescr_dealloc *)
| GcClear (os : list N).                (* cyclic GC: weakrefs to this unreachable set cleared, tp_clear on each *)

Inductive out := ORet (i : N) | ODone | OBad.

(* ---- the cache protocol as the source has it NOW (C27/Gen.v, regenerated) *)
(* ctypedescr_dealloc clears the weak references (so the cache's weakref to ct is dead, and weakref callbacks
   have run) BEFORE it looks at the cache entry of ct's key *)
Definition weakrefs_cleared_first : bool := dbefore DClearWeakrefs DRemoveKey gen_dealloc_order.
(* ... and releases the children / the memory only after that *)
Definition dealloc_order_as_modelled : bool :=
  dlist_eqb gen_dealloc_order [DClearWeakrefs; DRemoveKey; DDecrefItem; DDecrefStuff; DFree].
(* tp_clear drops the children (ct_itemdescr, ct_stuff) and keeps ct_unique_key, which dealloc needs *)
Definition clear_drops_ukey : bool := existsb (cfield_eqb FUniqueKey) gen_clear_fields.
Definition clear_as_modelled : bool :=
  existsb (cfield_eqb FItem) gen_clear_fields && existsb (cfield_eqb FStuff) gen_clear_fields &&
  negb clear_drops_ukey && negb (existsb (cfield_eqb FOther) gen_clear_fields).

Definition set_zombie (os : list N) (o : tobj) : tobj :=
  if nmem (t_oid o) os
  then {| t_oid := t_oid o; t_addr := t_addr o; t_shape := t_shape o; t_kids := t_kids o;
          t_ukey := if clear_drops_ukey then None else t_ukey o; t_zombie := true |}
  else o.

(* remove_dead_unique_reference(key), called by the dealloc of object o; hchk is the heap in which the weak
   reference found under the key is tested: the one without o iff the weakrefs were cleared first *)
Definition free_cache (c : list (key * N)) (ukey : option key) (hchk : list tobj) : list (key * N) :=
  match ukey with
  | Some k => match cache_get k c with
              | Some j => if gen_remove_only_if_dead && alive_nz hchk j then c else cache_del k c
              | None => c
              end
  | None => c
  end.

(* New is rejected (OBad) when: the handle is taken / a given child is dead / (dead code, see
   C27_decayed_args_alive) / the address is occupied / the arguments are not a type description *)
Definition new_pre (s : state) (h : N) (sh : shape) (kids0 kids : list N) (a : N) : bool :=
  match hlookup h (handles s) with Some _ => true | None => false end
  || negb (forallb (alive_nz (heap s)) kids0) || negb (forallb (alive_nz (heap s)) kids)
  || occupied (heap s) a || negb (wf_shape sh (length kids0)).

Definition set_kids (i : N) (kids : list N) (o : tobj) : tobj :=
  if N.eqb (t_oid o) i
  then {| t_oid := t_oid o; t_addr := t_addr o; t_shape := t_shape o; t_kids := kids;
          t_ukey := t_ukey o; t_zombie := t_zombie o |}
  else o.

Definition step (s : state) (o : op) : state * out :=
  match o with
  | New h sh kids0 a =>
      (* kids0: what the caller passes; kids: what the new type references (arrays decayed for a function
         type).  The third test never fires on a reachable state (Proofs.ref_kids_alive). *)
      let kids := ref_kids (heap s) sh kids0 in
      if new_pre s h sh kids0 kids a
      then (s, OBad)
      else
        let n := next_oid s in
        if is_agg sh then
          (* struct/union/enum types are not uniqued: always a new object *)
          ({| heap := {| t_oid := n; t_addr := a; t_shape := sh; t_kids := kids; t_ukey := None;
                         t_zombie := false |} :: heap s;
              cache := cache s; next_oid := N.succ n; handles := (h, n) :: handles s |}, ORet n)
        else
          let k := key_of (heap s) sh (key_kids (heap s) sh kids0) in
          match cache_get k (cache s) with
          | Some i =>
              if gen_insert_after_live_check && alive_nz (heap s) i
              then (* get_or_insert_unique_type returns the live object BEFORE PyDict_SetItem:
                      the existing type is returned, the candidate x is freed at once
                      (x->ct_unique_key == NULL: its dealloc does not touch the cache) *)
                   ({| heap := heap s; cache := cache s; next_oid := N.succ n; handles := (h, i) :: handles s |},
                    ORet i)
              else (* dead weakref found (or: the insertion is not guarded by the live test): replaced by a weakref to x *)
                   ({| heap := {| t_oid := n; t_addr := a; t_shape := sh; t_kids := kids; t_ukey := Some k;
                                  t_zombie := false |} :: heap s;
                       cache := cache_set k n (cache s); next_oid := N.succ n;
                       handles := (h, n) :: handles s |}, ORet n)
          | None =>
              ({| heap := {| t_oid := n; t_addr := a; t_shape := sh; t_kids := kids; t_ukey := Some k;
                             t_zombie := false |} :: heap s;
                  cache := cache_set k n (cache s); next_oid := N.succ n;
                  handles := (h, n) :: handles s |}, ORet n)
          end
  | Complete i kids =>
      match find_obj i (heap s) with
      | Some o =>
          if is_agg (t_shape o) && negb (t_zombie o) && forallb (alive_nz (heap s)) kids
          then ({| heap := map (set_kids i kids) (heap s); cache := cache s; next_oid := next_oid s;
                   handles := handles s |}, ODone)
          else (s, OBad)
      | None => (s, OBad)
      end
  | Unhandle h =>
      ({| heap := heap s; cache := cache s; next_oid := next_oid s; handles := hremove h (handles s) |}, ODone)
  | Free i =>
      match find_obj i (heap s) with
      | Some o =>
          if has_handle s i || has_parent (heap s) i then (s, OBad)
          else
            (* PyObject_ClearWeakRefs(ct); remove_dead_unique_reference(key): delete the entry only if
               its weakref is dead (it may have been replaced by a live weakref to another object);
               then the children are released and the memory is freed *)
            let h' := heap_del i (heap s) in
            let c' := free_cache (cache s) (t_ukey o) (if weakrefs_cleared_first then h' else heap s) in
            ({| heap := h'; cache := c'; next_oid := next_oid s; handles := handles s |}, ODone)
      | None => (s, OBad)
      end
  | GcClear os =>
      (* the set must be unreachable: no handle into it, every live parent of a member is a member *)
      if forallb (fun i => alive_nz (heap s) i && negb (has_handle s i)
                           && forallb (fun p => negb (negb (t_zombie p) && nmem i (t_kids p))
                                                || nmem (t_oid p) os) (heap s)) os
      then ({| heap := map (set_zombie os) (heap s); cache := cache s; next_oid := next_oid s;
               handles := handles s |}, ODone)
      else (s, OBad)
  end.

Fixpoint run (s : state) (h : list op) : state * list out :=
  match h with
  | [] => (s, [])
  | o :: h' => let '(s1, r) := step s o in
               let '(s2, rs) := run s1 h' in (s2, r :: rs)
  end.

(* ======================================================================================
   High-level operations for the correspondence check, expressed with the steps above:
   the allocator always reuses the LOWEST free address (maximal reuse); dropping a handle frees,
   in cascade, everything whose reference count reaches zero; collect() clears and frees
   everything unreachable from the handles. *)
Inductive hop :=
| HNew (h : N) (sh : shape) (kid_handles : list N)
| HComplete (h : N) (kid_handles : list N)
| HDrop (h : N)
| HDropRebuild (h h2 : N)      (* drop the last reference to a type that has a weakref callback which
                                  rebuilds the same description (as handle h2) while the type is dying:
                                  PyObject_ClearWeakRefs runs the callback BEFORE remove_dead_unique_reference *)
| HCollect.

Fixpoint lowest_free (h : list tobj) (a : N) (fuel : nat) : N :=
  match fuel with
  | O => a
  | S f => if occupied h a then lowest_free h (N.succ a) f else a
  end.

(* free everything with reference count zero, repeatedly *)
Fixpoint cascade (s : state) (fuel : nat) : state :=
  match fuel with
  | O => s
  | S f =>
      match find (fun o => negb (has_handle s (t_oid o)) && negb (has_parent (heap s) (t_oid o))) (heap s) with
      | Some o => cascade (fst (step s (Free (t_oid o)))) f
      | None => s
      end
  end.

(* objects reachable from the handles through non-zombie parents *)
Fixpoint reach (h : list tobj) (frontier seen : list N) (fuel : nat) : list N :=
  match fuel with
  | O => seen
  | S f =>
      match frontier with
      | [] => seen
      | i :: rest =>
          if nmem i seen then reach h rest seen f
          else match find_obj i h with
               | Some o => reach h (t_kids o ++ rest) (i :: seen) f
               | None => reach h rest seen f
               end
      end
  end.

Definition opt_map_handles (s : state) (hs : list N) : option (list N) :=
  fold_right (fun h acc => match hlookup h (handles s), acc with
                           | Some i, Some l => Some (i :: l)
                           | _, _ => None
                           end) (Some []) hs.

(* which earlier handle (in creation order) already denotes the returned object: this is what
   the harness observes with `is` *)
Fixpoint first_handle_of (i : N) (except : N) (l : list (N * N)) : option N :=
  match l with
  | [] => None
  | (h, j) :: t =>
      match first_handle_of i except t with       (* handles are consed: oldest is last *)
      | Some h' => Some h'
      | None => if N.eqb j i && negb (N.eqb h except) then Some h else None
      end
  end.

Inductive hout := HSame (h : N) | HFresh | HOk | HBad.

Definition hstep (s : state) (o : hop) : state * hout :=
  match o with
  | HNew h sh khs =>
      match opt_map_handles s khs with
      | None => (s, HBad)
      | Some kids =>
          (* (the array-to-pointer decay of function arguments happens inside New: ref_kids) *)
          let a := lowest_free (heap s) 1 (S (length (heap s))) in
          match step s (New h sh kids a) with
          | (s1, ORet i) =>
              (s1, match first_handle_of i h (handles s1) with Some h' => HSame h' | None => HFresh end)
          | (s1, _) => (s1, HBad)
          end
      end
  | HComplete h khs =>
      match hlookup h (handles s), opt_map_handles s khs with
      | Some i, Some kids => match step s (Complete i kids) with (s1, ODone) => (s1, HOk) | (s1, _) => (s1, HBad) end
      | _, _ => (s, HBad)
      end
  | HDrop h =>
      let s1 := fst (step s (Unhandle h)) in
      (cascade s1 (length (heap s1)), HOk)
  | HDropRebuild h h2 =>
      match hlookup h (handles s) with
      | None => (s, HBad)
      | Some i =>
          let s1 := fst (step s (Unhandle h)) in
          match find_obj i (heap s1) with
          | None => (s, HBad)
          | Some o =>
              if has_handle s1 i || has_parent (heap s1) i then (s, HBad)   (* harness error: not the last reference *)
              else
                let s2 := fst (step s1 (GcClear [i])) in                    (* weakrefs cleared ... *)
                let a := lowest_free (heap s2) 1 (S (length (heap s2))) in
                match step s2 (New h2 (t_shape o) (t_kids o) a) with        (* ... callback rebuilds ... *)
                | (s3, ORet j) =>
                    let s4 := fst (step s3 (Free i)) in                     (* ... dealloc goes on *)
                    (cascade s4 (length (heap s4)),
                     match first_handle_of j h2 (handles s3) with Some h' => HSame h' | None => HFresh end)
                | (s3, _) => (s, HBad)
                end
          end
      end
  | HCollect =>
      let fuel := (length (heap s) * S (length (heap s)) + length (handles s) + 1)%nat in
      let live := reach (heap s) (map snd (handles s)) [] fuel in
      let garbage := filter (fun i => negb (nmem i live)) (map t_oid (filter (fun o => negb (t_zombie o)) (heap s))) in
      match garbage with
      | [] => (s, HOk)
      | _ =>
          let s1 := fst (step s (GcClear garbage)) in
          (* zombies have no children any more: each can be freed, in any order *)
          (fold_left (fun st i => fst (step st (Free i))) garbage s1, HOk)
      end
  end.

Fixpoint hrun (s : state) (h : list hop) : state * list hout :=
  match h with
  | [] => (s, [])
  | o :: h' => let '(s1, r) := hstep s o in
               let '(s2, rs) := hrun s1 h' in (s2, r :: rs)
  end.

Definition hout_eqb (a b : hout) : bool :=
  match a, b with
  | HSame x, HSame y => N.eqb x y
  | HFresh, HFresh | HOk, HOk | HBad, HBad => true
  | _, _ => false
  end.

(* outputs + number of type objects left in the heap at the end *)
Definition run_case (h : list hop) : list hout * N :=
  let '(s, rs) := hrun init h in (rs, N.of_nat (length (heap s))).
