(* C27 — vocabulary for the regenerated unique_key recipes (C27/Gen.v): which objects / numbers each
   constructor puts into the key it hands to get_unique_type, in order, truncated to the key length
   it passes. *)
From Coq Require Import List Bool.
Import ListNotations.

Inductive ksrc :=
| KStatic        (* address of a static object: the primitive's table entry / the string "void" *)
| KItem          (* ctitem: the pointed-to type, which the new pointer type stores in ct_itemdescr *)
| KPtr           (* ctptr: the pointer-to-item type, which the new array type stores in ct_stuff *)
| KLen           (* the array length *)
| KResult        (* fresult, stored in fct->ct_stuff[1] *)
| KFlags         (* (abi << 1) | ellipsis *)
| KNargs         (* number of arguments *)
| KArgsStored    (* PyTuple_GET_ITEM(fct->ct_stuff, 2 + i): the DECAYED arguments the function type stores *)
| KArgsRaw.      (* PyTuple_GET_ITEM(fargs, i): the caller's tuple, arrays not decayed, not kept alive *)

Definition ksrc_eqb (a b : ksrc) : bool :=
  match a, b with
  | KStatic, KStatic | KItem, KItem | KPtr, KPtr | KLen, KLen | KResult, KResult | KFlags, KFlags
  | KNargs, KNargs | KArgsStored, KArgsStored | KArgsRaw, KArgsRaw => true
  | _, _ => false
  end.
Fixpoint klist_eqb (a b : list ksrc) : bool :=
  match a, b with
  | [], [] => true
  | x :: a', y :: b' => ksrc_eqb x y && klist_eqb a' b'
  | _, _ => false
  end.
