(* C27 — vocabulary for the regenerated unique_key recipes (C27/Gen.v): which objects / numbers each
   constructor puts into the key it hands to get_unique_type, in order, truncated to the key length
   it passes. *)
From Coq Require Import List Bool.
Import ListNotations.

Inductive ksrc :=
| KStatic        (* address of a static object: the primitive's table entry / the string "void" *)
| KItem          (* ctitem: the pointed-to type, which the new pointer type stores in ct_itemdescr *)
| KPtr           (* ctptr: the pointer-to-item type, which the new array type stores in ct_stuff *)
| KLen           (* the array length *)
| KResult        (* fresult, stored in fct->ct_stuff[1] *)
| KFlags         (* (abi << 1) | ellipsis *)
| KNargs         (* number of arguments *)
| KArgsStored    (* PyTuple_GET_ITEM(fct->ct_stuff, 2 + i): the DECAYED arguments the function type stores *)
| KArgsRaw       (* PyTuple_GET_ITEM(fargs, i): the caller's tuple, arrays not decayed, not kept alive *)
| KOther.        (* any other expression (the regenerated file quotes it): a word the model knows nothing about *)

Definition ksrc_eqb (a b : ksrc) : bool :=
  match a, b with
  | KStatic, KStatic | KItem, KItem | KPtr, KPtr | KLen, KLen | KResult, KResult | KFlags, KFlags
  | KNargs, KNargs | KArgsStored, KArgsStored | KArgsRaw, KArgsRaw | KOther, KOther => true
  | _, _ => false
  end.
Fixpoint klist_eqb (a b : list ksrc) : bool :=
  match a, b with
  | [], [] => true
  | x :: a', y :: b' => ksrc_eqb x y && klist_eqb a' b'
  | _, _ => false
  end.

(* ---- vocabulary for the regenerated cache protocol (C27/Gen.v) *)

(* the steps of ctypedescr_dealloc, in source order *)
Inductive dstep :=
| DClearWeakrefs   (* PyObject_ClearWeakRefs(ct): weakref callbacks run here, the cache's weakref dies *)
| DRemoveKey       (* if (ct->ct_unique_key != NULL) remove_dead_unique_reference(ct->ct_unique_key) *)
| DDecrefItem      (* Py_XDECREF(ct->ct_itemdescr) *)
| DDecrefStuff     (* Py_XDECREF(ct->ct_stuff) *)
| DFree.           (* tp_free: the address becomes reusable *)
Definition dstep_eqb (a b : dstep) : bool :=
  match a, b with
  | DClearWeakrefs, DClearWeakrefs | DRemoveKey, DRemoveKey | DDecrefItem, DDecrefItem
  | DDecrefStuff, DDecrefStuff | DFree, DFree => true
  | _, _ => false
  end.
Fixpoint dlist_eqb (a b : list dstep) : bool :=
  match a, b with
  | [], [] => true
  | x :: a', y :: b' => dstep_eqb x y && dlist_eqb a' b'
  | _, _ => false
  end.
(* a occurs, and b does not occur before the first a *)
Fixpoint dbefore (a b : dstep) (l : list dstep) : bool :=
  match l with
  | [] => false
  | x :: t => if dstep_eqb x a then true else if dstep_eqb x b then false else dbefore a b t
  end.

(* the fields ctypedescr_clear (tp_clear) resets *)
Inductive cfield := FItem | FStuff | FUniqueKey | FOther.
Definition cfield_eqb (a b : cfield) : bool :=
  match a, b with
  | FItem, FItem | FStuff, FStuff | FUniqueKey, FUniqueKey | FOther, FOther => true
  | _, _ => false
  end.
