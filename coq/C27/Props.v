(* C27 — Non-aggregate ctypes are canonical over any history.  Statements only.
   [reachable s]: s is the state of the type heap + unique_cache after ANY history of
     New (with ANY unoccupied address chosen by the allocator — freed addresses may be reused),
     Complete, Unhandle, Free (refcount 0) and GcClear (cyclic GC: weakrefs cleared + tp_clear,
     dealloc later).  "zombie" = cleared by the GC, not yet deallocated (not reachable from Python). *)
From Coq Require Import ZArith NArith List Bool.
Import ListNotations.
From Cffi Require Import C27.Model C27.Proofs.

(* Scope: the model is the backend's single, process-global unique_cache; the clause "any number of
   FFI objects, type strings, generated modules" adds only front ends that all end in the same
   new_*_type calls (cffi/model.py global_cache, realize_c_type): that those front ends preserve
   canonicity is decided by the correspondence run only (ffi-level histories over several in-line
   and out-of-line FFI objects, partition of live handles by `is` vs by description).
   Threads / the free-threaded build are out of scope. *)

(* two live non-aggregate types are the same object iff they have the same description
   (same shape — kind, primitive / length / ellipsis+abi — and the same child objects);
   "only if" is trivial (an object has one description), "if" is this theorem *)
Theorem C27_canonical : forall s o1 o2,
  reachable s -> In o1 (heap s) -> In o2 (heap s) ->
  t_zombie o1 = false -> t_zombie o2 = false -> is_agg (t_shape o1) = false ->
  t_shape o1 = t_shape o2 -> t_kids o1 = t_kids o2 -> o1 = o2.
Proof. exact canonical. Qed.
Print Assumptions C27_canonical.

(* ---- which objects enter each unique_key, as the source says NOW (C27/Gen.v, regenerated on every run
   from the unique_key[...] assignments and the key length given to get_unique_type).  The model's key of
   a new type is DEFINED from these recipes (Model.v: key_kids / func_key_stored), so C27_entries_sound,
   C27_canonical and C27_new_returns are about the current text: a key built from objects the new type
   does not itself reference (e.g. the caller's undecayed argument tuple) breaks Proofs.v. *)
Theorem C27_gen_key_recipes :
  primitive_key = [KStatic] /\ void_key = [KStatic] /\
  pointer_key = [KItem] /\                                   (* the item type, stored in ct_itemdescr *)
  array_key = [KPtr; KLen] /\                                (* the pointer type, stored in ct_stuff, and the length *)
  function_key = [KResult; KFlags; KNargs; KArgsStored].     (* result, abi+ellipsis, count, the stored (decayed) args *)
Proof. repeat split; reflexivity. Qed.
Print Assumptions C27_gen_key_recipes.

(* the decayed arguments are alive whenever the given ones are (the extra test in New never fires) *)
Theorem C27_decayed_args_alive : forall s sh kids0,
  reachable s -> forallb (alive_nz (heap s)) kids0 = true ->
  forallb (alive_nz (heap s)) (ref_kids (heap s) sh kids0) = true.
Proof. exact ref_kids_alive. Qed.
Print Assumptions C27_decayed_args_alive.

(* Model fact tied by the raw-level correspondence (function types built from array-typed arguments,
   array types then freed and their addresses reused): the children of a type — hence its key — are the
   objects the type itself references and keeps alive; for a function type these are the result and the
   DECAYED arguments (array -> its pointer type), see Model.ref_kids.  That is what makes C27_entries_sound
   and C27_new_returns provable: a key never holds the address of an object the type does not keep alive. *)

(* building a type returns an object with EXACTLY the requested description — never another
   type that happens to sit behind a stale key or a reused address — namely the live one if there
   is one, else a brand-new object *)
Theorem C27_new_returns : forall s h sh kids0 a i,
  reachable s -> is_agg sh = false -> snd (step s (New h sh kids0 a)) = ORet i ->
  let s' := fst (step s (New h sh kids0 a)) in
  let kids := ref_kids (heap s) sh kids0 in      (* = kids0, except: array arguments of a function decayed *)
  exists o, find_obj i (heap s') = Some o /\ t_zombie o = false /\ t_shape o = sh /\ t_kids o = kids /\
            (In o (heap s) \/ (i = next_oid s /\
                               forall o0, In o0 (heap s) -> t_zombie o0 = false ->
                                          ~ (t_shape o0 = sh /\ t_kids o0 = kids))).
Proof. exact new_returns. Qed.
Print Assumptions C27_new_returns.

(* every cache entry whose weak reference is alive points to a type whose description is its key *)
Theorem C27_entries_sound : forall s k i o,
  reachable s -> cache_get k (cache s) = Some i -> find_obj i (heap s) = Some o -> t_zombie o = false ->
  is_agg (t_shape o) = false /\ k = desc_key (heap s) o.
Proof. exact entries_sound. Qed.
Print Assumptions C27_entries_sound.

(* a type rebuilt after its previous ctype was freed is a new object (and, the new state being
   reachable, C27_canonical says it is again the unique one) *)
Theorem C27_rebuild_after_free : forall s i o h sh kids a r,
  reachable s -> find_obj i (heap s) = Some o -> t_zombie o = false -> is_agg (t_shape o) = false ->
  snd (step s (Free i)) = ODone ->
  t_shape o = sh -> t_kids o = kids ->
  let s1 := fst (step s (Free i)) in
  ref_kids (heap s1) sh kids = kids ->
  snd (step s1 (New h sh kids a)) = ORet r -> r = next_oid s1.
Proof. exact rebuild_after_free. Qed.
Print Assumptions C27_rebuild_after_free.

Theorem C27_heap_wellformed : forall s,
  reachable s ->
  NoDup (map t_addr (heap s)) /\ NoDup (map t_oid (heap s)) /\
  (forall o, In o (heap s) -> t_zombie o = false -> forall c, In c (t_kids o) -> alive_nz (heap s) c = true).
Proof. exact heap_wellformed. Qed.
Print Assumptions C27_heap_wellformed.

(* non-vacuity 1 (low level, adversarial allocator): the "rebuild before dealloc" history.
   int at address 10; P = int* ; the GC clears P (zombie, entry dead); int is freed and `long`
   is allocated AT THE SAME ADDRESS 10; long* is built -> same key bytes as the dead entry ->
   replaced; only now the zombie P is deallocated: its key's entry is alive again and must stay;
   long* built once more must be the same object. *)
Example C27_example_rebuild_before_dealloc :
  snd (run init [New 1 (0, 7%Z) [] 10; New 2 (2, 0%Z) [0] 20; Unhandle 2; GcClear [1];
                 Unhandle 1; Free 0; New 3 (0, 9%Z) [] 10; New 4 (2, 0%Z) [2] 30;
                 Free 1; New 5 (2, 0%Z) [2] 40]%N)
  = [ORet 0; ORet 1; ODone; ODone; ODone; ODone; ORet 2; ORet 3; ODone; ORet 3]%N.
Proof. vm_compute. reflexivity. Qed.

(* non-vacuity 2 (high level, as driven by the harness): sharing, drop cascade, rebuild, a
   struct cycle collected by the GC *)
Example C27_example_high_level :
  run_case [HNew 1 (0, 7%Z) []; HNew 2 (2, 0%Z) [1]; HNew 3 (2, 0%Z) [1]; HNew 4 (3, 5%Z) [2];
            HDrop 2; HDrop 3; HNew 5 (2, 0%Z) [1]; HDrop 4; HDrop 5; HNew 6 (2, 0%Z) [1];
            HNew 7 (5, 1%Z) []; HNew 8 (2, 0%Z) [7]; HComplete 7 [8]; HDrop 7; HDrop 8; HCollect;
            HNew 9 (0, 7%Z) []; HDropRebuild 6 10; HNew 11 (2, 0%Z) [1];
            (* a function taking int[5], int[] or a pointer to int is one type; the arrays are not kept alive *)
            HNew 12 (3, 5%Z) [11]; HNew 13 (3, (-1)%Z) [11]; HNew 14 (4, 0%Z) [1; 12]; HNew 15 (4, 0%Z) [1; 13];
            HNew 16 (4, 0%Z) [1; 11]; HDrop 12; HDrop 13; HDrop 14; HDrop 15; HDrop 16; HDrop 10; HDrop 11]%N
  = ([HFresh; HFresh; HSame 2; HFresh; HOk; HOk; HFresh; HOk; HOk; HFresh;
      HFresh; HFresh; HOk; HOk; HOk; HOk; HSame 1; HFresh; HSame 10;
      HFresh; HFresh; HFresh; HSame 14; HSame 14; HOk; HOk; HOk; HOk; HOk; HOk; HOk]%N, 1%N).
Proof. vm_compute. reflexivity. Qed.
