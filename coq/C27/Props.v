(* C27 — Non-aggregate ctypes are canonical over any history.  Statements only.
   [reachable s]: s is the state of the type heap + unique_cache after ANY history of
     New (with ANY unoccupied address chosen by the allocator — freed addresses may be reused),
     Complete, Unhandle, Free (refcount 0) and GcClear (cyclic GC: weakrefs cleared + tp_clear,
     dealloc later).  "zombie" = cleared by the GC, not yet deallocated (not reachable from Python). *)
From Coq Require Import ZArith NArith List Bool.
Import ListNotations.
From Cffi Require Import C27.Model C27.Proofs C27.Deep.

(* Scope: the model is the backend's single, process-global unique_cache; the clause "any number of
   FFI objects, type strings, generated modules" adds only front ends that all end in the same
   new_*_type calls (cffi/model.py global_cache, realize_c_type): that those front ends preserve
   canonicity is decided by the correspondence run only (ffi-level histories over several in-line
   and out-of-line FFI objects, partition of live handles by `is` vs by description).
   Threads / the free-threaded build are out of scope. *)

(* two live non-aggregate types are the same object iff they have the same description
   (same shape — kind, primitive / length / ellipsis+abi — and the same child objects);
   "only if" is trivial (an object has one description), "if" is this theorem *)
Theorem C27_canonical : forall s o1 o2,
  reachable s -> In o1 (heap s) -> In o2 (heap s) ->
  t_zombie o1 = false -> t_zombie o2 = false -> is_agg (t_shape o1) = false ->
  t_shape o1 = t_shape o2 -> t_kids o1 = t_kids o2 -> o1 = o2.
Proof. exact canonical. Qed.
Print Assumptions C27_canonical.

(* the same over whole description TREES: [descr n h i] is the tree of shapes below object i, aggregates
   (not uniqued) being leaves identified by their object; two live types of a reachable state with the same
   tree — e.g. both "pointer to array of 5 pointers to struct #12" — are one object.  (The fuel n only
   bounds the depth: the statement holds for any fuels that suffice to produce the trees.) *)
Theorem C27_canonical_deep : forall s,
  reachable s -> forall n1 n2 o1 o2 d,
  In o1 (heap s) -> In o2 (heap s) -> t_zombie o1 = false -> t_zombie o2 = false ->
  descr n1 (heap s) (t_oid o1) = Some d -> descr n2 (heap s) (t_oid o2) = Some d -> o1 = o2.
Proof. exact canonical_deep. Qed.
Print Assumptions C27_canonical_deep.

(* non-vacuity: the trees of an array of 5 pointers to pointer to a struct, and of a function taking it *)
Example C27_example_descr :
  let s := fst (run init [New 1 (5, 0%Z) [] 10; New 2 (2, 0%Z) [0] 20; New 3 (2, 0%Z) [1] 30; New 4 (3, 5%Z) [2] 40;
                          New 5 (0, 7%Z) [] 50; New 6 (4, 1%Z) [4; 3] 60]%N) in
  descr 6 (heap s) 3 = Some (DNode (3%N, 5%Z) [DNode (2%N, 0%Z) [DNode (2%N, 0%Z) [DAgg 0%N]]]) /\
  descr 6 (heap s) 5 = Some (DNode (4%N, 1%Z) [DNode (0%N, 7%Z) []; DNode (2%N, 0%Z) [DNode (2%N, 0%Z) [DAgg 0%N]]]) /\
  descr 2 (heap s) 3 = None.
Proof. vm_compute. repeat split; reflexivity. Qed.

(* ---- which expression is stored in each unique_key slot, as the source says NOW (C27/Gen.v, regenerated on
   every run from the unique_key[i] = ... assignments and the key length given to get_unique_type; an
   expression outside the vocabulary becomes KOther).  The model's key of a new type is the WORD LIST built
   from these recipes (Model.v: key_of = flat_map src_words (recipe_of kind); key_kids / func_key_stored), so
   C27_entries_sound, C27_canonical, C27_new_returns and C27_key_words_injective are about the current text: a
   key built from objects the new type does not itself reference (the caller's undecayed argument tuple), or a
   second array word that is not the length (the byte size: 0 for every length when the item has size 0),
   breaks Proofs.v. *)
Theorem C27_gen_key_recipes :
  primitive_key = [KStatic] /\ void_key = [KStatic] /\
  pointer_key = [KItem] /\                                   (* the item type, stored in ct_itemdescr *)
  array_key = [KPtr; KLen] /\                                (* the pointer type, stored in ct_stuff, and the length *)
  function_key = [KResult; KFlags; KNargs; KArgsStored].     (* result, abi+ellipsis, count, the stored (decayed) args *)
Proof. repeat split; reflexivity. Qed.
Print Assumptions C27_gen_key_recipes.

(* The key is nothing but words (no kind tag): equal words imply equal descriptions.  One-word keys: static
   objects (primitives, void) against heap objects (pointers); two words: arrays, [pointer type; length mod
   2^64] with length in -1 .. 2^63-1; three or more words: functions.  First for ANY heap with pairwise
   different addresses and any two well-formed descriptions over live children, then for the live types of a
   reachable state.  (Static storage is modelled as words < 0, heap addresses as words >= 0.) *)
Theorem C27_key_words_determine_description : forall h sh1 k1 sh2 k2,
  NoDup (map t_addr h) ->
  wf_shape sh1 (length k1) = true -> wf_shape sh2 (length k2) = true ->
  is_agg sh1 = false -> is_agg sh2 = false ->
  (forall c, In c k1 -> alive_nz h c = true) -> (forall c, In c k2 -> alive_nz h c = true) ->
  key_of h sh1 k1 = key_of h sh2 k2 -> sh1 = sh2 /\ k1 = k2.
Proof. exact key_of_inj. Qed.
Print Assumptions C27_key_words_determine_description.

Theorem C27_key_words_injective : forall s o1 o2,
  reachable s -> In o1 (heap s) -> In o2 (heap s) -> t_zombie o1 = false -> t_zombie o2 = false ->
  is_agg (t_shape o1) = false -> is_agg (t_shape o2) = false ->
  key_of (heap s) (t_shape o1) (t_kids o1) = key_of (heap s) (t_shape o2) (t_kids o2) ->
  t_shape o1 = t_shape o2 /\ t_kids o1 = t_kids o2.
Proof. exact key_words_injective. Qed.
Print Assumptions C27_key_words_injective.

(* the open array's length word is 2^64-1, and arrays of the same pointer type with lengths 7 and 9 have
   different words whatever the item size is *)
Example C27_example_key_words :
  let h := [ {| t_oid := 1; t_addr := 40; t_shape := (2%N, 0%Z); t_kids := [0%N]; t_ukey := None; t_zombie := false |};
             {| t_oid := 0; t_addr := 24; t_shape := (0%N, 7%Z); t_kids := []; t_ukey := None; t_zombie := false |} ]%N in
  key_of h (0%N, 7%Z) [] = [(-9)%Z] /\ key_of h (1%N, 0%Z) [] = [(-1)%Z] /\ key_of h (2%N, 0%Z) [0%N] = [24%Z] /\
  key_of h (3%N, (-1)%Z) [1%N] = [40%Z; 18446744073709551615%Z] /\
  key_of h (3%N, 7%Z) [1%N] = [40%Z; 7%Z] /\ key_of h (3%N, 9%Z) [1%N] = [40%Z; 9%Z] /\
  key_of h (4%N, 1%Z) [0%N; 1%N; 1%N] = [24%Z; 1%Z; 2%Z; 40%Z; 40%Z].
Proof. vm_compute. repeat split; reflexivity. Qed.

(* ---- the cache protocol, as the source says NOW (C27/Gen.v, regenerated): remove_dead_unique_reference
   deletes only under the dead-weakref test; ctypedescr_dealloc clears the weak references, then removes the
   key, then releases the children and the memory; get_or_insert_unique_type returns a live hit before it
   inserts and sets ct_unique_key only on insertion; tp_clear resets the two child fields only.  [Free], [New]
   and [GcClear] of Model.v consult these (free_cache, weakrefs_cleared_first, gen_insert_after_live_check,
   clear_drops_ukey): with another protocol step_inv (hence every theorem here) is not proved. *)
Theorem C27_gen_cache_protocol :
  gen_remove_only_if_dead = true /\
  gen_dealloc_order = [DClearWeakrefs; DRemoveKey; DDecrefItem; DDecrefStuff; DFree] /\
  gen_insert_after_live_check = true /\
  gen_clear_fields = [FItem; FStuff].
Proof. repeat split; reflexivity. Qed.
Print Assumptions C27_gen_cache_protocol.

(* the decayed arguments are alive whenever the given ones are (the extra test in New never fires) *)
Theorem C27_decayed_args_alive : forall s sh kids0,
  reachable s -> forallb (alive_nz (heap s)) kids0 = true ->
  forallb (alive_nz (heap s)) (ref_kids (heap s) sh kids0) = true.
Proof. exact ref_kids_alive. Qed.
Print Assumptions C27_decayed_args_alive.

(* Model fact tied by the raw-level correspondence (function types built from array-typed arguments,
   array types then freed and their addresses reused): the children of a type — hence its key — are the
   objects the type itself references and keeps alive; for a function type these are the result and the
   DECAYED arguments (array -> its pointer type), see Model.ref_kids.  That is what makes C27_entries_sound
   and C27_new_returns provable: a key never holds the address of an object the type does not keep alive. *)

(* building a type returns an object with EXACTLY the requested description — never another
   type that happens to sit behind a stale key or a reused address — namely the live one if there
   is one, else a brand-new object *)
Theorem C27_new_returns : forall s h sh kids0 a i,
  reachable s -> is_agg sh = false -> snd (step s (New h sh kids0 a)) = ORet i ->
  let s' := fst (step s (New h sh kids0 a)) in
  let kids := ref_kids (heap s) sh kids0 in      (* = kids0, except: array arguments of a function decayed *)
  exists o, find_obj i (heap s') = Some o /\ t_zombie o = false /\ t_shape o = sh /\ t_kids o = kids /\
            (In o (heap s) \/ (i = next_oid s /\
                               forall o0, In o0 (heap s) -> t_zombie o0 = false ->
                                          ~ (t_shape o0 = sh /\ t_kids o0 = kids))).
Proof. exact new_returns. Qed.
Print Assumptions C27_new_returns.

(* every cache entry whose weak reference is alive points to a type whose description is its key *)
Theorem C27_entries_sound : forall s k i o,
  reachable s -> cache_get k (cache s) = Some i -> find_obj i (heap s) = Some o -> t_zombie o = false ->
  is_agg (t_shape o) = false /\ k = desc_key (heap s) o.
Proof. exact entries_sound. Qed.
Print Assumptions C27_entries_sound.

(* a type rebuilt after its previous ctype was freed is a new object (and, the new state being
   reachable, C27_canonical says it is again the unique one) *)
Theorem C27_rebuild_after_free : forall s i o h sh kids a r,
  reachable s -> find_obj i (heap s) = Some o -> t_zombie o = false -> is_agg (t_shape o) = false ->
  snd (step s (Free i)) = ODone ->
  t_shape o = sh -> t_kids o = kids ->
  let s1 := fst (step s (Free i)) in
  ref_kids (heap s1) sh kids = kids ->
  snd (step s1 (New h sh kids a)) = ORet r -> r = next_oid s1.
Proof. exact rebuild_after_free. Qed.
Print Assumptions C27_rebuild_after_free.

Theorem C27_heap_wellformed : forall s,
  reachable s ->
  NoDup (map t_addr (heap s)) /\ NoDup (map t_oid (heap s)) /\
  (forall o, In o (heap s) -> t_zombie o = false -> forall c, In c (t_kids o) -> alive_nz (heap s) c = true).
Proof. exact heap_wellformed. Qed.
Print Assumptions C27_heap_wellformed.

(* non-vacuity 1 (low level, adversarial allocator): the "rebuild before dealloc" history.
   int at address 10; P = int* ; the GC clears P (zombie, entry dead); int is freed and `long`
   is allocated AT THE SAME ADDRESS 10; long* is built -> same key bytes as the dead entry ->
   replaced; only now the zombie P is deallocated: its key's entry is alive again and must stay;
   long* built once more must be the same object. *)
Example C27_example_rebuild_before_dealloc :
  snd (run init [New 1 (0, 7%Z) [] 10; New 2 (2, 0%Z) [0] 20; Unhandle 2; GcClear [1];
                 Unhandle 1; Free 0; New 3 (0, 9%Z) [] 10; New 4 (2, 0%Z) [2] 30;
                 Free 1; New 5 (2, 0%Z) [2] 40]%N)
  = [ORet 0; ORet 1; ODone; ODone; ODone; ODone; ORet 2; ORet 3; ODone; ORet 3]%N.
Proof. vm_compute. reflexivity. Qed.

(* non-vacuity 2 (high level, as driven by the harness): sharing, drop cascade, rebuild, a
   struct cycle collected by the GC *)
Example C27_example_high_level :
  run_case [HNew 1 (0, 7%Z) []; HNew 2 (2, 0%Z) [1]; HNew 3 (2, 0%Z) [1]; HNew 4 (3, 5%Z) [2];
            HDrop 2; HDrop 3; HNew 5 (2, 0%Z) [1]; HDrop 4; HDrop 5; HNew 6 (2, 0%Z) [1];
            HNew 7 (5, 1%Z) []; HNew 8 (2, 0%Z) [7]; HComplete 7 [8]; HDrop 7; HDrop 8; HCollect;
            HNew 9 (0, 7%Z) []; HDropRebuild 6 10; HNew 11 (2, 0%Z) [1];
            (* a function taking int[5], int[] or a pointer to int is one type; the arrays are not kept alive *)
            HNew 12 (3, 5%Z) [11]; HNew 13 (3, (-1)%Z) [11]; HNew 14 (4, 0%Z) [1; 12]; HNew 15 (4, 0%Z) [1; 13];
            HNew 16 (4, 0%Z) [1; 11]; HDrop 12; HDrop 13; HDrop 14; HDrop 15; HDrop 16; HDrop 10; HDrop 11]%N
  = ([HFresh; HFresh; HSame 2; HFresh; HOk; HOk; HFresh; HOk; HOk; HFresh;
      HFresh; HFresh; HOk; HOk; HOk; HOk; HSame 1; HFresh; HSame 10;
      HFresh; HFresh; HFresh; HSame 14; HSame 14; HOk; HOk; HOk; HOk; HOk; HOk; HOk]%N, 1%N).
Proof. vm_compute. reflexivity. Qed.
