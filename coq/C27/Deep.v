(* C27 — canonicity over whole description TREES ("describe the same C type" for nested types):
   the description of a type is the tree of shapes below it, aggregates (which are not uniqued) being leaves
   identified by their object identity.  Corollary of Proofs.canonical by induction on the tree. *)
From Coq Require Import ZArith NArith List Bool Lia.
Import ListNotations.
From Cffi Require Import C27.Model C27.Proofs.

Inductive dtree := DAgg (oid : N) | DNode (sh : shape) (kids : list dtree).

Fixpoint all_some {A} (l : list (option A)) : option (list A) :=
  match l with
  | [] => Some []
  | x :: t => match x, all_some t with Some a, Some r => Some (a :: r) | _, _ => None end
  end.

(* the description tree of object i (None: out of fuel, or a dangling child) *)
Fixpoint descr (fuel : nat) (h : list tobj) (i : N) : option dtree :=
  match fuel with
  | O => None
  | S f => match find_obj i h with
           | None => None
           | Some o => if is_agg (t_shape o) then Some (DAgg i)
                       else option_map (DNode (t_shape o)) (all_some (map (descr f h) (t_kids o)))
           end
  end.

Lemma descr_kids_eq s n1 :
  (forall n2 o1 o2 d, In o1 (heap s) -> In o2 (heap s) -> t_zombie o1 = false -> t_zombie o2 = false ->
     descr n1 (heap s) (t_oid o1) = Some d -> descr n2 (heap s) (t_oid o2) = Some d -> o1 = o2) ->
  forall n2 k1 k2 ds,
  (forall c, In c k1 -> alive_nz (heap s) c = true) -> (forall c, In c k2 -> alive_nz (heap s) c = true) ->
  all_some (map (descr n1 (heap s)) k1) = Some ds -> all_some (map (descr n2 (heap s)) k2) = Some ds -> k1 = k2.
Proof.
  intros IH n2. induction k1 as [|c1 k1 IHk]; destruct k2 as [|c2 k2]; cbn; intros ds A1 A2 E1 E2; auto.
  - injection E1 as <-. destruct (descr n2 (heap s) c2); [|discriminate].
    destruct (all_some (map (descr n2 (heap s)) k2)); discriminate.
  - injection E2 as <-. destruct (descr n1 (heap s) c1); [|discriminate].
    destruct (all_some (map (descr n1 (heap s)) k1)); discriminate.
  - destruct (descr n1 (heap s) c1) as [d1|] eqn:D1; [|discriminate].
    destruct (all_some (map (descr n1 (heap s)) k1)) as [r1|] eqn:R1; [|discriminate]. injection E1 as <-.
    destruct (descr n2 (heap s) c2) as [d2|] eqn:D2; [|discriminate].
    destruct (all_some (map (descr n2 (heap s)) k2)) as [r2|] eqn:R2; [|discriminate].
    injection E2 as E2a E2b. subst d2 r2.
    f_equal.
    + destruct (alive_nz_In _ _ (A1 c1 (or_introl eq_refl))) as (oc1 & F1 & Z1).
      destruct (alive_nz_In _ _ (A2 c2 (or_introl eq_refl))) as (oc2 & F2 & Z2).
      apply find_obj_In in F1 as [I1 T1]. apply find_obj_In in F2 as [I2 T2]. subst c1 c2.
      f_equal. apply (IH n2 oc1 oc2 d1); auto.
    + apply (IHk k2 r1); auto.
Qed.

Theorem canonical_deep s :
  reachable s -> forall n1 n2 o1 o2 d,
  In o1 (heap s) -> In o2 (heap s) -> t_zombie o1 = false -> t_zombie o2 = false ->
  descr n1 (heap s) (t_oid o1) = Some d -> descr n2 (heap s) (t_oid o2) = Some d -> o1 = o2.
Proof.
  intros HR. pose proof (reachable_inv _ HR) as HI. destruct HI as [I1 I2 I3 I4 I5 I6 I7 I8 I9].
  induction n1 as [|n1 IH]; intros n2 o1 o2 d H1 H2 Z1 Z2 D1 D2; [discriminate|].
  destruct n2 as [|n2]; [discriminate|].
  cbn [descr] in D1, D2.
  pose proof (In_find_obj _ _ I1 H1) as F1. pose proof (In_find_obj _ _ I1 H2) as F2.
  rewrite F1 in D1. rewrite F2 in D2.
  destruct (is_agg (t_shape o1)) eqn:A1, (is_agg (t_shape o2)) eqn:A2.
  - (* two aggregates: the same leaf, i.e. the same object *)
    injection D1 as <-. injection D2 as E. rewrite E in F2. congruence.
  - injection D1 as <-. destruct (all_some (map (descr n2 (heap s)) (t_kids o2))); discriminate.
  - injection D2 as <-. destruct (all_some (map (descr n1 (heap s)) (t_kids o1))); discriminate.
  - destruct (all_some (map (descr n1 (heap s)) (t_kids o1))) as [ds1|] eqn:E1; [|discriminate].
    destruct (all_some (map (descr n2 (heap s)) (t_kids o2))) as [ds2|] eqn:E2; [|discriminate].
    cbn in D1, D2. injection D1 as <-. injection D2 as Es Ed. subst ds2.
    apply (canonical s o1 o2); auto.
    apply (descr_kids_eq s n1 IH n2 (t_kids o1) (t_kids o2) ds1); auto.
    + intros c Hc. apply (I5 o1); auto.
    + intros c Hc. apply (I5 o2); auto.
Qed.

(* every live type of a reachable state HAS a description tree, given enough fuel (children are alive and
   the parent relation is acyclic below non-aggregates: a child is older than... — not needed for
   canonicity; the examples in Props.v show descr returning Some on real histories) *)
