(* C27 — proofs: the unique-cache invariant over all histories with an adversarial allocator *)
From Coq Require Import ZArith NArith Arith List Bool Lia.
Import ListNotations.
From Cffi Require Import C27.Model.

(* ---------- the regenerated key recipes are the ones the model of the keys relies on *)
Lemma func_key_stored_ok : func_key_stored = true. Proof. reflexivity. Qed.
Lemma keys_as_modelled_ok : keys_as_modelled = true. Proof. reflexivity. Qed.
Lemma key_kids_ok h sh kids : key_kids h sh kids = ref_kids h sh kids.
Proof. unfold key_kids. rewrite func_key_stored_ok. rewrite andb_false_r. reflexivity. Qed.

(* ---------- the regenerated cache protocol is the one the invariant needs *)
Lemma remove_only_if_dead_ok : gen_remove_only_if_dead = true. Proof. reflexivity. Qed.
Lemma weakrefs_cleared_first_ok : weakrefs_cleared_first = true. Proof. reflexivity. Qed.
Lemma dealloc_order_ok : dealloc_order_as_modelled = true. Proof. reflexivity. Qed.
Lemma insert_after_live_check_ok : gen_insert_after_live_check = true. Proof. reflexivity. Qed.
Lemma clear_keeps_ukey : clear_drops_ukey = false. Proof. reflexivity. Qed.
Lemma clear_as_modelled_ok : clear_as_modelled = true. Proof. reflexivity. Qed.
Lemma free_cache_ok c uk hchk :
  free_cache c uk hchk = match uk with
                         | Some k => match cache_get k c with
                                     | Some j => if alive_nz hchk j then c else cache_del k c
                                     | None => c
                                     end
                         | None => c
                         end.
Proof. unfold free_cache. rewrite remove_only_if_dead_ok. reflexivity. Qed.

(* ---------- boolean equalities *)
Lemma shape_eqb_spec a b : reflect (a = b) (shape_eqb a b).
Proof.
  destruct a as [a1 a2], b as [b1 b2]; unfold shape_eqb; cbn.
  destruct (N.eqb_spec a1 b1), (Z.eqb_spec a2 b2); cbn; constructor; congruence.
Qed.
Lemma nlist_eqb_spec a : forall b, reflect (a = b) (nlist_eqb a b).
Proof.
  induction a as [|x a IH]; destruct b as [|y b]; cbn; try (constructor; congruence).
  destruct (N.eqb_spec x y); cbn; [|constructor; congruence].
  destruct (IH b); constructor; congruence.
Qed.
Lemma key_eqb_spec a : forall b, reflect (a = b) (key_eqb a b).
Proof.
  unfold key_eqb. induction a as [|x a IH]; destruct b as [|y b]; cbn; try (constructor; congruence).
  destruct (Z.eqb_spec x y); cbn; [|constructor; congruence].
  destruct (IH b); constructor; congruence.
Qed.

(* ---------- cache *)
Lemma cache_get_del_same k c : cache_get k (cache_del k c) = None.
Proof.
  induction c as [|[k' i] c IH]; cbn; auto.
  destruct (key_eqb_spec k k'); auto. cbn. destruct (key_eqb_spec k k'); [congruence|auto].
Qed.
Lemma cache_get_del_other k k' c : k' <> k -> cache_get k' (cache_del k c) = cache_get k' c.
Proof.
  intros Hne. induction c as [|[k2 i] c IH]; cbn; auto.
  destruct (key_eqb_spec k k2).
  - subst. destruct (key_eqb_spec k' k2); [congruence|auto].
  - cbn. destruct (key_eqb_spec k' k2); auto.
Qed.
Lemma cache_get_set_same k i c : cache_get k (cache_set k i c) = Some i.
Proof. unfold cache_set; cbn. destruct (key_eqb_spec k k); congruence. Qed.
Lemma cache_get_set_other k k' i c : k' <> k -> cache_get k' (cache_set k i c) = cache_get k' c.
Proof.
  intros Hne. unfold cache_set; cbn. destruct (key_eqb_spec k' k); [congruence|].
  apply cache_get_del_other; auto.
Qed.

(* ---------- heap lookups *)
Lemma find_obj_In i h o : find_obj i h = Some o -> In o h /\ t_oid o = i.
Proof.
  induction h as [|x h IH]; cbn; [discriminate|].
  destruct (N.eqb_spec (t_oid x) i); intros H; [inversion H; subst; auto|].
  destruct (IH H); auto.
Qed.
Lemma In_find_obj h o : NoDup (map t_oid h) -> In o h -> find_obj (t_oid o) h = Some o.
Proof.
  induction h as [|x h IH]; cbn; [tauto|]. intros Hnd [E|Hin].
  - subst. rewrite N.eqb_refl. reflexivity.
  - inversion Hnd; subst. destruct (N.eqb_spec (t_oid x) (t_oid o)) as [E|]; auto.
    exfalso. apply H1. rewrite E. apply in_map. exact Hin.
Qed.
Lemma find_obj_None i h : (forall o, In o h -> t_oid o <> i) -> find_obj i h = None.
Proof.
  induction h as [|x h IH]; cbn; auto. intros H.
  destruct (N.eqb_spec (t_oid x) i); [exfalso; eapply H; eauto|]. apply IH. intros; apply H; auto.
Qed.

Lemma find_obj_del_other i j h : j <> i -> find_obj j (heap_del i h) = find_obj j h.
Proof.
  intros Hne. induction h as [|x h IH]; cbn; auto.
  destruct (N.eqb_spec (t_oid x) i).
  - destruct (N.eqb_spec (t_oid x) j); [congruence|auto].
  - cbn. destruct (N.eqb_spec (t_oid x) j); auto.
Qed.
Lemma find_obj_del_same i h : find_obj i (heap_del i h) = None.
Proof.
  induction h as [|x h IH]; cbn; auto.
  destruct (N.eqb_spec (t_oid x) i); auto. cbn. destruct (N.eqb_spec (t_oid x) i); [congruence|auto].
Qed.
Lemma In_heap_del i h o : In o (heap_del i h) <-> In o h /\ t_oid o <> i.
Proof.
  induction h as [|x h IH]; cbn; [tauto|].
  destruct (N.eqb_spec (t_oid x) i).
  - rewrite IH. split; [tauto|]. intros [[E|H] Hn]; [subst; congruence|tauto].
  - cbn. rewrite IH. split.
    + intros [E|[H Hn]]; [subst; auto|tauto].
    + intros [[E|H] Hn]; [auto|tauto].
Qed.
Lemma map_heap_del_incl {A} (f : tobj -> A) i h x : In x (map f (heap_del i h)) -> In x (map f h).
Proof.
  intros H. apply in_map_iff in H as [o [E Ho]]. apply In_heap_del in Ho as [Ho _].
  subst. apply in_map. exact Ho.
Qed.
Lemma NoDup_map_heap_del {A} (f : tobj -> A) i h : NoDup (map f h) -> NoDup (map f (heap_del i h)).
Proof.
  induction h as [|x h IH]; cbn; auto. intros Hnd. inversion Hnd; subst.
  destruct (N.eqb (t_oid x) i); auto. cbn. constructor; auto.
  intros Hin. apply H1. eapply map_heap_del_incl; eauto.
Qed.

(* updates that keep oid and address of every object *)
Definition same_frame (f : tobj -> tobj) : Prop :=
  forall o, t_oid (f o) = t_oid o /\ t_addr (f o) = t_addr o /\ t_ukey (f o) = t_ukey o /\ t_shape (f o) = t_shape o.

Lemma find_obj_map f i h : same_frame f -> find_obj i (map f h) = option_map f (find_obj i h).
Proof.
  intros Hf. induction h as [|x h IH]; cbn; auto.
  destruct (Hf x) as (E & _). rewrite E. destruct (N.eqb (t_oid x) i); auto.
Qed.
Lemma addr_of_map f i h : same_frame f -> addr_of (map f h) i = addr_of h i.
Proof.
  intros Hf. unfold addr_of. rewrite find_obj_map by auto.
  destruct (find_obj i h); cbn; auto. apply Hf.
Qed.
Lemma map_map_frame f h : same_frame f -> map t_oid (map f h) = map t_oid h /\ map t_addr (map f h) = map t_addr h.
Proof.
  intros Hf. rewrite !map_map. split; apply map_ext; intros o; apply Hf.
Qed.
Lemma set_zombie_frame os : same_frame (set_zombie os).
Proof. intros o. unfold set_zombie. rewrite clear_keeps_ukey. destruct (nmem (t_oid o) os); cbn; auto. Qed.
Lemma set_kids_frame i kids : same_frame (set_kids i kids).
Proof. intros o. unfold set_kids. destruct (N.eqb (t_oid o) i); cbn; auto. Qed.

Lemma nmem_In x l : nmem x l = true <-> In x l.
Proof.
  unfold nmem. rewrite existsb_exists. split.
  - intros [y [Hy E]]. apply N.eqb_eq in E. subst; auto.
  - intros H. exists x. split; auto. apply N.eqb_refl.
Qed.

Lemma occupied_false h a : occupied h a = false -> ~ In a (map t_addr h).
Proof.
  unfold occupied. intros H Hin. apply in_map_iff in Hin as [o [E Ho]].
  assert (existsb (fun o => N.eqb (t_addr o) a) h = true).
  { apply existsb_exists. exists o. split; auto. subst. apply N.eqb_refl. }
  congruence.
Qed.

(* ---------- the invariant *)
Definition desc_key (h : list tobj) (o : tobj) : key := key_of h (t_shape o) (t_kids o).

Record Inv (s : state) : Prop := {
  i_oids : NoDup (map t_oid (heap s));
  i_addrs : NoDup (map t_addr (heap s));
  i_fresh : forall o, In o (heap s) -> (t_oid o < next_oid s)%N;
  i_cfresh : forall k i, cache_get k (cache s) = Some i -> (i < next_oid s)%N;
  i_kids : forall o, In o (heap s) -> t_zombie o = false ->
           forall c, In c (t_kids o) -> alive_nz (heap s) c = true;
  i_reg : forall o, In o (heap s) -> t_zombie o = false -> is_agg (t_shape o) = false ->
          t_ukey o = Some (desc_key (heap s) o) /\ cache_get (desc_key (heap s) o) (cache s) = Some (t_oid o);
  i_agg : forall o, In o (heap s) -> is_agg (t_shape o) = true -> t_ukey o = None;
  i_sound : forall k i o, cache_get k (cache s) = Some i -> find_obj i (heap s) = Some o ->
            t_zombie o = false -> t_ukey o = Some k;
  i_wf : forall o, In o (heap s) -> wf_shape (t_shape o) (length (t_kids o)) = true
}.

Lemma inv_init : Inv init.
Proof. constructor; cbn; try constructor; try tauto; try discriminate. Qed.

Lemma alive_nz_In h i : alive_nz h i = true -> exists o, find_obj i h = Some o /\ t_zombie o = false.
Proof.
  unfold alive_nz. destruct (find_obj i h) as [o|]; [|discriminate].
  intros H. exists o. split; auto. destruct (t_zombie o); cbn in H; congruence.
Qed.

(* adding an object with a fresh oid *)
Lemma find_obj_cons_other x h i : t_oid x <> i -> find_obj i (x :: h) = find_obj i h.
Proof. intros H. cbn. destruct (N.eqb_spec (t_oid x) i); [congruence|auto]. Qed.

Lemma key_of_ext h h' sh kids :
  (forall c, In c kids -> addr_of h' c = addr_of h c) -> key_of h' sh kids = key_of h sh kids.
Proof.
  intros H. unfold key_of. apply flat_map_ext. intros k.
  assert (Hhd : hd_word h' kids = hd_word h kids).
  { destruct kids as [|c t]; cbn; auto. unfold aw. rewrite H; cbn; auto. }
  assert (Htl : map (aw h') (tl kids) = map (aw h) (tl kids)).
  { apply map_ext_in. intros c Hc. unfold aw. rewrite H; auto. destruct kids; cbn in *; [tauto|auto]. }
  destruct k; cbn [src_words]; congruence.
Qed.

Lemma agg_wf sh n : is_agg sh = true -> wf_shape sh n = true.
Proof.
  unfold is_agg, wf_shape. intros H. apply N.eqb_eq in H. rewrite H. reflexivity.
Qed.
Lemma ref_kids_length h sh kids0 : length (ref_kids h sh kids0) = length kids0.
Proof.
  unfold ref_kids. destruct (N.eqb (fst sh) 4); auto. destruct kids0; cbn; auto. rewrite map_length. auto.
Qed.

(* ---------- preservation *)
Lemma step_inv s o : Inv s -> Inv (fst (step s o)).
Proof.
  intros HI. destruct o as [h sh kids0 a|i kids|h|i|os]; cbn [step].
  - (* New *)
    rewrite key_kids_ok. change gen_insert_after_live_check with true. cbn [andb].
    set (kids := ref_kids (heap s) sh kids0).
    destruct (new_pre s h sh kids0 kids a) eqn:Hpre; [auto|]. unfold new_pre in Hpre.
    apply orb_false_iff in Hpre as [Hpre Hwf]. apply negb_false_iff in Hwf.
    rewrite <- (ref_kids_length (heap s) sh kids0) in Hwf. fold kids in Hwf.
    apply orb_false_iff in Hpre as [Hpre Hocc]. apply orb_false_iff in Hpre as [Hpre Hk].
    apply negb_false_iff in Hk. rewrite forallb_forall in Hk.
    destruct HI as [I1 I2 I3 I4 I5 I6 I7 I8 I9].
    set (n := next_oid s) in *.
    assert (Hn : forall o, In o (heap s) -> t_oid o <> n) by (intros o Ho; specialize (I3 o Ho); lia).
    assert (Hkn : forall c, In c kids -> c <> n).
    { intros c Hc. destruct (alive_nz_In _ _ (Hk c Hc)) as (oc & Hf & _).
      apply find_obj_In in Hf as [Hin E]. subst c. auto. }
    (* the generic "add the new object x" argument *)
    assert (ADD : forall uk cch,
      (forall k i, cache_get k cch = Some i -> (i < N.succ n)%N) ->
      (forall o, In o (heap s) -> t_zombie o = false -> is_agg (t_shape o) = false ->
         cache_get (desc_key (heap s) o) cch = Some (t_oid o)) ->
      (is_agg sh = false -> uk = Some (key_of (heap s) sh kids) /\ cache_get (key_of (heap s) sh kids) cch = Some n) ->
      (is_agg sh = true -> uk = None) ->
      (forall k i o, cache_get k cch = Some i -> find_obj i (heap s) = Some o -> t_zombie o = false -> t_ukey o = Some k) ->
      (forall k, cache_get k cch = Some n -> uk = Some k) ->
      Inv {| heap := {| t_oid := n; t_addr := a; t_shape := sh; t_kids := kids; t_ukey := uk; t_zombie := false |} :: heap s;
             cache := cch; next_oid := N.succ n; handles := (h, n) :: handles s |}).
    { intros uk cch C1 C2 C3 C4 C5 C6.
      set (x := {| t_oid := n; t_addr := a; t_shape := sh; t_kids := kids; t_ukey := uk; t_zombie := false |}).
      assert (Haddr : forall c, c <> n -> addr_of (x :: heap s) c = addr_of (heap s) c).
      { intros c Hc. unfold addr_of. rewrite find_obj_cons_other by (cbn; auto). reflexivity. }
      assert (Halive : forall c, c <> n -> alive_nz (x :: heap s) c = alive_nz (heap s) c).
      { intros c Hc. unfold alive_nz. rewrite find_obj_cons_other by (cbn; auto). reflexivity. }
      assert (Hkey : forall o, In o (heap s) -> t_zombie o = false -> desc_key (x :: heap s) o = desc_key (heap s) o).
      { intros o Ho Hz. unfold desc_key. apply key_of_ext. intros c Hc. apply Haddr.
        destruct (alive_nz_In _ _ (I5 o Ho Hz c Hc)) as (oc & Hf & _).
        apply find_obj_In in Hf as [Hin E]. subst c. auto. }
      constructor; cbn [heap cache next_oid handles map].
      - constructor; auto. intros Hin. apply in_map_iff in Hin as [o [E Ho]]. eapply Hn; eauto.
      - constructor; auto. apply occupied_false; auto.
      - intros o [E|Ho]; [subst; cbn; lia|]. specialize (I3 o Ho). lia.
      - exact C1.
      - intros o [E|Ho] Hz c Hc.
        + subst o. cbn in Hc. rewrite Halive by auto. auto.
        + assert (c <> n).
          { destruct (alive_nz_In _ _ (I5 o Ho Hz c Hc)) as (oc & Hf & _).
            apply find_obj_In in Hf as [Hin E]. subst c. auto. }
          rewrite Halive by auto. eauto.
      - intros o [E|Ho] Hz Hag.
        + subst o. cbn in *. unfold desc_key; cbn.
          rewrite (key_of_ext (heap s) (x :: heap s)) by (intros c Hc; apply Haddr; auto).
          destruct (C3 Hag) as [-> ->]. auto.
        + rewrite Hkey by auto. split; [apply I6; auto|apply C2; auto].
      - intros o [E|Ho] Hag; [subst; cbn in *; auto|eauto].
      - intros k i o Hg Hf Hz. cbn in Hf. destruct (N.eqb_spec n i).
        + inversion Hf; subst. cbn. apply C6; auto.
        + eapply C5; eauto.
      - intros o [E|Ho]; [subst o; cbn; auto|auto]. }
    destruct (is_agg sh) eqn:Hag.
    + (* aggregate: not uniqued *)
      apply ADD; try (intros; discriminate); auto.
      * intros k i Hg. specialize (I4 _ _ Hg). lia.
      * intros o Ho Hz Ha. apply I6; auto.
      * intros k Hg. specialize (I4 _ _ Hg). lia.
    + set (k := key_of (heap s) sh kids).
      assert (FRESHK : (forall i, cache_get k (cache s) = Some i -> alive_nz (heap s) i = false) ->
                       forall o, In o (heap s) -> t_zombie o = false -> is_agg (t_shape o) = false ->
                       desc_key (heap s) o <> k).
      { intros Hdead o Ho Hz Ha E. destruct (I6 o Ho Hz Ha) as [_ Hg]. rewrite E in Hg.
        specialize (Hdead _ Hg). unfold alive_nz in Hdead. rewrite (In_find_obj _ _ I1 Ho), Hz in Hdead.
        discriminate. }
      assert (INS : (forall i, cache_get k (cache s) = Some i -> alive_nz (heap s) i = false) ->
        Inv {| heap := {| t_oid := n; t_addr := a; t_shape := sh; t_kids := kids; t_ukey := Some k; t_zombie := false |} :: heap s;
               cache := cache_set k n (cache s); next_oid := N.succ n; handles := (h, n) :: handles s |}).
      { intros Hdead. apply ADD; try (intros; discriminate).
        - intros k' i Hg. destruct (key_eqb_spec k' k).
          + subst. rewrite cache_get_set_same in Hg. inversion Hg; lia.
          + rewrite cache_get_set_other in Hg by auto. specialize (I4 _ _ Hg). lia.
        - intros o Ho Hz Ha. rewrite cache_get_set_other by (apply FRESHK; auto). apply I6; auto.
        - intros _. split; auto. apply cache_get_set_same.
        - intros k' i o Hg Hf Hz. destruct (key_eqb_spec k' k).
          + subst. rewrite cache_get_set_same in Hg. inversion Hg; subst.
            apply find_obj_In in Hf as [Hin E]. exfalso. eapply Hn; eauto.
          + rewrite cache_get_set_other in Hg by auto. eauto.
        - intros k' Hg. destruct (key_eqb_spec k' k); [subst; auto|].
          rewrite cache_get_set_other in Hg by auto. specialize (I4 _ _ Hg). lia. }
      fold k. destruct (cache_get k (cache s)) as [i|] eqn:Hg.
      * destruct (alive_nz (heap s) i) eqn:Hal.
        -- (* existing live type returned *)
           constructor; cbn [fst heap cache next_oid handles]; auto.
           ++ intros o Ho. specialize (I3 o Ho). lia.
           ++ intros k' i' Hg'. specialize (I4 _ _ Hg'). lia.
        -- apply INS. intros i' E. inversion E; subst. auto.
      * apply INS. intros i' E. discriminate.
  - (* Complete *)
    destruct (find_obj i (heap s)) as [o|] eqn:Hf; [|auto].
    destruct (is_agg (t_shape o) && negb (t_zombie o) && forallb (alive_nz (heap s)) kids) eqn:Hpre; [|auto].
    apply andb_true_iff in Hpre as [Hpre Hk]. apply andb_true_iff in Hpre as [Hag Hz].
    rewrite forallb_forall in Hk.
    destruct HI as [I1 I2 I3 I4 I5 I6 I7 I8 I9].
    pose proof (set_kids_frame i kids) as FR. destruct (map_map_frame _ (heap s) FR) as [Mo Ma].
    assert (Hal : forall c, alive_nz (map (set_kids i kids) (heap s)) c = alive_nz (heap s) c).
    { intros c. unfold alive_nz. rewrite find_obj_map by auto. destruct (find_obj c (heap s)) as [oc|]; cbn; auto.
      unfold set_kids. destruct (N.eqb (t_oid oc) i); reflexivity. }
    constructor; cbn [fst heap cache next_oid handles].
    + rewrite Mo; auto.
    + rewrite Ma; auto.
    + intros o' Ho'. apply in_map_iff in Ho' as [o0 [E Ho0]]. subst. destruct (FR o0) as (-> & _). auto.
    + auto.
    + intros o' Ho' Hz' c Hc. apply in_map_iff in Ho' as [o0 [E Ho0]]. subst. rewrite Hal.
      unfold set_kids in *. destruct (N.eqb_spec (t_oid o0) i); cbn in *; eauto.
    + intros o' Ho' Hz' Ha'. apply in_map_iff in Ho' as [o0 [E Ho0]]. subst.
      destruct (N.eq_dec (t_oid o0) i) as [Ei|Ni].
      * (* the aggregate itself: excluded *)
        exfalso. destruct (FR o0) as (_ & _ & _ & Es). rewrite Es in Ha'.
        pose proof (In_find_obj _ _ I1 Ho0) as F. rewrite Ei, Hf in F. inversion F; subst. congruence.
      * assert (Eq : set_kids i kids o0 = o0).
        { unfold set_kids. destruct (N.eqb_spec (t_oid o0) i); [congruence|reflexivity]. }
        rewrite Eq in *. unfold desc_key.
        rewrite (key_of_ext (heap s)) by (intros; apply addr_of_map; auto).
        apply I6; auto.
    + intros o' Ho' Ha'. apply in_map_iff in Ho' as [o0 [E Ho0]]. subst.
      destruct (FR o0) as (_ & _ & Eu & Es). rewrite Eu. rewrite Es in Ha'. eauto.
    + intros k i' o' Hg Hf' Hz'. rewrite find_obj_map in Hf' by auto.
      destruct (find_obj i' (heap s)) as [o0|] eqn:Hf0; [|discriminate]. cbn in Hf'. inversion Hf'; subst.
      destruct (FR o0) as (_ & _ & Eu & _). rewrite Eu. eapply I8; eauto.
      unfold set_kids in Hz'. destruct (N.eqb (t_oid o0) i); auto.
    + intros o' Ho'. apply in_map_iff in Ho' as [o0 [E Ho0]]. subst.
      unfold set_kids. destruct (N.eqb_spec (t_oid o0) i) as [Ei|Ni]; [|auto]. cbn.
      pose proof (In_find_obj _ _ I1 Ho0) as F. rewrite Ei, Hf in F. inversion F; subst.
      apply agg_wf; auto.
  - (* Unhandle *)
    destruct HI. constructor; auto.
  - (* Free *)
    destruct (find_obj i (heap s)) as [o|] eqn:Hf; [|auto].
    destruct (has_handle s i || has_parent (heap s) i) eqn:Hpre; [auto|].
    apply orb_false_iff in Hpre as [_ Hpar].
    change weakrefs_cleared_first with true. cbv iota. rewrite free_cache_ok.
    destruct HI as [I1 I2 I3 I4 I5 I6 I7 I8 I9].
    apply find_obj_In in Hf as [Hin Eo].
    assert (Hnokid : forall o', In o' (heap s) -> t_zombie o' = false -> ~ In i (t_kids o')).
    { intros o' Ho' Hz' Hk. unfold has_parent in Hpar.
      assert (existsb (fun o => negb (t_zombie o) && nmem i (t_kids o)) (heap s) = true).
      { apply existsb_exists. exists o'. split; auto. rewrite Hz'. cbn. apply nmem_In. auto. }
      congruence. }
    set (h' := heap_del i (heap s)).
    assert (Hal : forall c, c <> i -> alive_nz h' c = alive_nz (heap s) c).
    { intros c Hc. unfold alive_nz, h'. rewrite find_obj_del_other by auto. reflexivity. }
    assert (Hkey : forall o', In o' (heap s) -> t_zombie o' = false -> desc_key h' o' = desc_key (heap s) o').
    { intros o' Ho' Hz'. unfold desc_key. apply key_of_ext. intros c Hc. unfold addr_of, h'.
      rewrite find_obj_del_other; auto. intros ->. eapply Hnokid; eauto. }
    set (c' := match t_ukey o with
               | Some k => match cache_get k (cache s) with
                           | Some j => if alive_nz h' j then cache s else cache_del k (cache s)
                           | None => cache s
                           end
               | None => cache s
               end).
    assert (Hsub : forall k j, cache_get k c' = Some j -> cache_get k (cache s) = Some j).
    { intros k j. subst c'. destruct (t_ukey o) as [k0|]; auto.
      destruct (cache_get k0 (cache s)) as [j0|] eqn:Hg0; auto.
      destruct (alive_nz h' j0); auto.
      destruct (key_eqb_spec k k0); [subst; rewrite cache_get_del_same; discriminate|].
      rewrite cache_get_del_other by auto. auto. }
    constructor; cbn [fst heap cache next_oid handles]; fold h'; fold c'.
    + apply NoDup_map_heap_del; auto.
    + apply NoDup_map_heap_del; auto.
    + intros o' Ho'. apply In_heap_del in Ho' as [Ho' _]. auto.
    + intros k j Hg. eauto.
    + intros o' Ho' Hz' c Hc. apply In_heap_del in Ho' as [Ho' Hne].
      rewrite Hal; eauto. intros ->. eapply Hnokid; eauto.
    + intros o' Ho' Hz' Ha'. apply In_heap_del in Ho' as [Ho' Hne]. rewrite Hkey by auto.
      destruct (I6 o' Ho' Hz' Ha') as [Hu Hg]. split; auto.
      subst c'. destruct (t_ukey o) as [k0|]; auto.
      destruct (cache_get k0 (cache s)) as [j0|] eqn:Hg0; auto.
      destruct (alive_nz h' j0) eqn:Hj; auto.
      destruct (key_eqb_spec (desc_key (heap s) o') k0) as [E|Ne].
      * exfalso. rewrite E in Hg. rewrite Hg in Hg0. inversion Hg0; subst j0.
        unfold alive_nz, h' in Hj. rewrite find_obj_del_other in Hj by auto.
        rewrite (In_find_obj _ _ I1 Ho'), Hz' in Hj. discriminate.
      * rewrite cache_get_del_other by auto. auto.
    + intros o' Ho' Ha'. apply In_heap_del in Ho' as [Ho' _]. eauto.
    + intros k j o' Hg Hf' Hz'. apply Hsub in Hg.
      destruct (N.eq_dec j i) as [->|Hne]; [unfold h' in Hf'; rewrite find_obj_del_same in Hf'; discriminate|].
      unfold h' in Hf'. rewrite find_obj_del_other in Hf' by auto. eauto.
    + intros o' Ho'. apply In_heap_del in Ho' as [Ho' _]. auto.
  - (* GcClear *)
    destruct (forallb _ os) eqn:Hpre; [|auto].
    rewrite forallb_forall in Hpre.
    destruct HI as [I1 I2 I3 I4 I5 I6 I7 I8 I9].
    pose proof (set_zombie_frame os) as FR. destruct (map_map_frame _ (heap s) FR) as [Mo Ma].
    assert (Hz0 : forall o0, t_zombie (set_zombie os o0) = false -> t_zombie o0 = false /\ ~ In (t_oid o0) os).
    { intros o0. unfold set_zombie. destruct (nmem (t_oid o0) os) eqn:Hm; cbn; [discriminate|].
      intros Hz. split; auto. intros Hin. apply nmem_In in Hin. congruence. }
    assert (Hk0 : forall o0, t_kids (set_zombie os o0) = t_kids o0).
    { intros o0. unfold set_zombie. destruct (nmem (t_oid o0) os); reflexivity. }
    constructor; cbn [fst heap cache next_oid handles].
    + rewrite Mo; auto.
    + rewrite Ma; auto.
    + intros o' Ho'. apply in_map_iff in Ho' as [o0 [E Ho0]]. subst. destruct (FR o0) as (-> & _). auto.
    + auto.
    + intros o' Ho' Hz' c Hc. apply in_map_iff in Ho' as [o0 [E Ho0]]. subst.
      destruct (Hz0 _ Hz') as [Hz Hnin]. rewrite Hk0 in Hc.
      pose proof (I5 o0 Ho0 Hz c Hc) as Hal.
      unfold alive_nz in *. rewrite find_obj_map by auto.
      destruct (find_obj c (heap s)) as [oc|] eqn:Hfc; [|discriminate]. cbn.
      apply find_obj_In in Hfc as [Hinc Ec].
      unfold set_zombie. destruct (nmem (t_oid oc) os) eqn:Hm; [|exact Hal].
      (* c is in the set: then its live parent o0 must be too *)
      exfalso. apply nmem_In in Hm. rewrite Ec in Hm. specialize (Hpre c Hm).
      apply andb_true_iff in Hpre as [_ Hcl]. rewrite forallb_forall in Hcl. specialize (Hcl o0 Ho0).
      rewrite Hz in Hcl. cbn in Hcl.
      assert (nmem c (t_kids o0) = true) by (apply nmem_In; auto). rewrite H in Hcl. cbn in Hcl.
      apply nmem_In in Hcl. auto.
    + intros o' Ho' Hz' Ha'. apply in_map_iff in Ho' as [o0 [E Ho0]]. subst.
      destruct (Hz0 _ Hz') as [Hz Hnin]. destruct (FR o0) as (Eo & _ & Eu & Es).
      unfold desc_key. rewrite Es, Hk0, Eu. rewrite Es in Ha'.
      rewrite (key_of_ext (heap s)) by (intros; apply addr_of_map; auto).
      rewrite Eo. apply I6; auto.
    + intros o' Ho' Ha'. apply in_map_iff in Ho' as [o0 [E Ho0]]. subst.
      destruct (FR o0) as (_ & _ & Eu & Es). rewrite Eu. rewrite Es in Ha'. eauto.
    + intros k j o' Hg Hf' Hz'. rewrite find_obj_map in Hf' by auto.
      destruct (find_obj j (heap s)) as [o0|] eqn:Hf0; [|discriminate]. cbn in Hf'. inversion Hf'; subst.
      destruct (Hz0 _ Hz') as [Hz _]. destruct (FR o0) as (_ & _ & Eu & _). rewrite Eu. eapply I8; eauto.
    + intros o' Ho'. apply in_map_iff in Ho' as [o0 [E Ho0]]. subst.
      destruct (FR o0) as (_ & _ & _ & Es). rewrite Es, Hk0. auto.
Qed.

Lemma run_inv h : forall s, Inv s -> Inv (fst (run s h)).
Proof.
  induction h as [|o h IH]; cbn; intros s HI; auto.
  destruct (step s o) as [s1 r] eqn:Hs. destruct (run s1 h) as [s2 rs] eqn:Hr. cbn.
  change s2 with (fst (s2, rs)). rewrite <- Hr. apply IH.
  change s1 with (fst (s1, r)). rewrite <- Hs. apply step_inv; auto.
Qed.

Definition reachable (s : state) : Prop := exists h, s = fst (run init h).
Lemma reachable_inv s : reachable s -> Inv s.
Proof. intros [h ->]. apply run_inv, inv_init. Qed.

(* ---------- consequences *)

(* two live (not garbage-cleared) non-aggregate types with the same description are one object *)
Theorem canonical s o1 o2 :
  reachable s -> In o1 (heap s) -> In o2 (heap s) ->
  t_zombie o1 = false -> t_zombie o2 = false -> is_agg (t_shape o1) = false ->
  t_shape o1 = t_shape o2 -> t_kids o1 = t_kids o2 -> o1 = o2.
Proof.
  intros HR H1 H2 Z1 Z2 A1 Es Ek. apply reachable_inv in HR. destruct HR as [I1 I2 I3 I4 I5 I6 I7 I8 I9].
  assert (A2 : is_agg (t_shape o2) = false) by congruence.
  destruct (I6 o1 H1 Z1 A1) as [_ G1]. destruct (I6 o2 H2 Z2 A2) as [_ G2].
  unfold desc_key in *. rewrite Es, Ek in G1. rewrite G1 in G2. inversion G2 as [E].
  pose proof (In_find_obj _ _ I1 H1) as F1. pose proof (In_find_obj _ _ I1 H2) as F2.
  rewrite E in F1. congruence.
Qed.

Lemma addr_of_inj h c1 c2 o1 o2 :
  NoDup (map t_addr h) -> find_obj c1 h = Some o1 -> find_obj c2 h = Some o2 ->
  addr_of h c1 = addr_of h c2 -> c1 = c2.
Proof.
  intros Hnd F1 F2. unfold addr_of. rewrite F1, F2. intros E.
  apply find_obj_In in F1 as [In1 E1]. apply find_obj_In in F2 as [In2 E2]. subst.
  clear -Hnd In1 In2 E. induction h as [|x h IH]; cbn in *; [tauto|]. inversion Hnd; subst.
  destruct In1 as [->|In1], In2 as [->|In2]; auto.
  - exfalso. apply H1. rewrite E. apply in_map. auto.
  - exfalso. apply H1. rewrite <- E. apply in_map. auto.
Qed.

Lemma kids_of_key h k1 : forall k2,
  NoDup (map t_addr h) ->
  (forall c, In c k1 -> alive_nz h c = true) -> (forall c, In c k2 -> alive_nz h c = true) ->
  map (addr_of h) k1 = map (addr_of h) k2 -> k1 = k2.
Proof.
  induction k1 as [|c1 k1 IH]; destruct k2 as [|c2 k2]; cbn; intros Hnd A1 A2 E; try discriminate; auto.
  inversion E as [[E1 E2]].
  destruct (alive_nz_In _ _ (A1 c1 (or_introl eq_refl))) as (o1 & F1 & _).
  destruct (alive_nz_In _ _ (A2 c2 (or_introl eq_refl))) as (o2 & F2 & _).
  f_equal; [eapply addr_of_inj; eauto|]. apply IH; auto.
Qed.

(* ---------- the key words determine the description: no two different descriptions of types that
   can be alive together have the same words (one-word keys: static objects vs heap objects; two words: arrays;
   three or more: functions; the length word is the length mod 2^64, injective on -1 .. 2^63-1) *)
Lemma aw_inj h c1 c2 :
  NoDup (map t_addr h) -> alive_nz h c1 = true -> alive_nz h c2 = true -> aw h c1 = aw h c2 -> c1 = c2.
Proof.
  intros Hnd A1 A2 E. destruct (alive_nz_In _ _ A1) as (o1 & F1 & _). destruct (alive_nz_In _ _ A2) as (o2 & F2 & _).
  unfold aw in E. apply N2Z.inj in E. eapply addr_of_inj; eauto.
Qed.
Lemma map_aw_inj h k1 : forall k2,
  NoDup (map t_addr h) ->
  (forall c, In c k1 -> alive_nz h c = true) -> (forall c, In c k2 -> alive_nz h c = true) ->
  map (aw h) k1 = map (aw h) k2 -> k1 = k2.
Proof.
  induction k1 as [|c1 k1 IH]; destruct k2 as [|c2 k2]; cbn; intros Hnd A1 A2 E; try discriminate; auto.
  inversion E as [[E1 E2]]. f_equal; [eapply aw_inj; eauto|apply IH; auto].
Qed.

Lemma wf_cases sh (kids : list N) : wf_shape sh (length kids) = true -> is_agg sh = false ->
  (exists z, sh = (0%N, z) /\ (0 <= z)%Z /\ kids = []) \/
  (sh = (1%N, 0%Z) /\ kids = []) \/
  (exists c, sh = (2%N, 0%Z) /\ kids = [c]) \/
  (exists z c, sh = (3%N, z) /\ (-1 <= z < 9223372036854775808)%Z /\ kids = [c]) \/
  (exists z r args, sh = (4%N, z) /\ (0 <= z < W64)%Z /\ kids = r :: args).
Proof.
  destruct sh as [k z]. unfold wf_shape, is_agg. cbn [fst snd].
  destruct (N.eqb_spec k 0) as [->|N0].
  { intros H _. apply andb_true_iff in H as [Hz Hn]. apply Z.leb_le in Hz.
    left. exists z. destruct kids; [auto|discriminate]. }
  destruct (N.eqb_spec k 1) as [->|N1].
  { intros H _. apply andb_true_iff in H as [Hz Hn]. apply Z.eqb_eq in Hz. subst.
    right; left. destruct kids; [auto|discriminate]. }
  destruct (N.eqb_spec k 2) as [->|N2].
  { intros H _. apply andb_true_iff in H as [Hz Hn]. apply Z.eqb_eq in Hz. subst.
    right; right; left. destruct kids as [|c [|]]; try discriminate. eauto. }
  destruct (N.eqb_spec k 3) as [->|N3].
  { intros H _. apply andb_true_iff in H as [Hz Hn]. apply andb_true_iff in Hz as [Hz1 Hz2].
    apply Z.leb_le in Hz1. apply Z.ltb_lt in Hz2.
    right; right; right; left. destruct kids as [|c [|]]; try discriminate. exists z, c. auto. }
  destruct (N.eqb_spec k 4) as [->|N4].
  { intros H _. apply andb_true_iff in H as [Hz Hn]. apply andb_true_iff in Hz as [Hz1 Hz2].
    apply Z.leb_le in Hz1. apply Z.ltb_lt in Hz2.
    right; right; right; right. destruct kids as [|r args]; try discriminate. exists z, r, args. auto. }
  intros H1 H2. congruence.
Qed.

Lemma len_word z : (-1 <= z < 9223372036854775808)%Z -> (z mod W64 = if z <? 0 then W64 - 1 else z)%Z.
Proof.
  intros H. destruct (Z.ltb_spec z 0).
  - assert (z = (-1)%Z) by lia. subst. reflexivity.
  - apply Z.mod_small. unfold W64. lia.
Qed.

Lemma key_of_inj h sh1 k1 sh2 k2 :
  NoDup (map t_addr h) ->
  wf_shape sh1 (length k1) = true -> wf_shape sh2 (length k2) = true ->
  is_agg sh1 = false -> is_agg sh2 = false ->
  (forall c, In c k1 -> alive_nz h c = true) -> (forall c, In c k2 -> alive_nz h c = true) ->
  key_of h sh1 k1 = key_of h sh2 k2 -> sh1 = sh2 /\ k1 = k2.
Proof.
  intros Hnd W1 W2 A1 A2 L1 L2.
  destruct (wf_cases _ _ W1 A1)
    as [(z1 & -> & Hz1 & ->)|[(-> & ->)|[(c1 & -> & ->)|[(z1 & c1 & -> & Hz1 & ->)|(z1 & r1 & a1 & -> & Hz1 & ->)]]]];
  destruct (wf_cases _ _ W2 A2)
    as [(z2 & -> & Hz2 & ->)|[(-> & ->)|[(c2 & -> & ->)|[(z2 & c2 & -> & Hz2 & ->)|(z2 & r2 & a2 & -> & Hz2 & ->)]]]];
  unfold key_of, recipe_of; cbn; unfold static_word; cbn; intros E; try discriminate E.
  all: try (exfalso; injection E as E; unfold aw in *; lia).
  - (* primitive / primitive: different table entries *)
    injection E as E. split; [f_equal; lia|reflexivity].
  - split; reflexivity.
  - (* pointer / pointer *)
    injection E as E. split; [reflexivity|]. f_equal. apply (aw_inj h); auto; [apply L1|apply L2]; left; auto.
  - (* array / array: the pointer type and the length word *)
    injection E as E1 E2. rewrite !len_word in E2 by auto.
    assert (z1 = z2) by (destruct (Z.ltb_spec z1 0), (Z.ltb_spec z2 0); unfold W64 in *; lia).
    split; [congruence|]. f_equal. apply (aw_inj h); auto; [apply L1|apply L2]; left; auto.
  - (* function / function *)
    injection E as Er Ez En Ea. rewrite !Z.mod_small in Ez by auto.
    split; [congruence|].
    rewrite !app_nil_r in Ea. apply (map_aw_inj h); auto. cbn [map]. congruence.
Qed.

(* every cache entry whose weak reference is alive points to a type whose description is its key *)
Theorem entries_sound s k i o :
  reachable s -> cache_get k (cache s) = Some i -> find_obj i (heap s) = Some o -> t_zombie o = false ->
  is_agg (t_shape o) = false /\ k = desc_key (heap s) o.
Proof.
  intros HR Hg Hf Hz. apply reachable_inv in HR. destruct HR as [I1 I2 I3 I4 I5 I6 I7 I8 I9].
  pose proof (I8 _ _ _ Hg Hf Hz) as Hu. apply find_obj_In in Hf as [Hin _].
  destruct (is_agg (t_shape o)) eqn:Ha; [rewrite (I7 _ Hin Ha) in Hu; discriminate|].
  split; auto. destruct (I6 o Hin Hz Ha) as [Hu2 _]. congruence.
Qed.

(* what building a type returns: an object with EXACTLY the requested description (no false
   sharing through stale keys or reused addresses); the existing one if a live one exists,
   otherwise a brand-new object *)
Theorem new_returns s h sh kids0 a i :
  reachable s -> is_agg sh = false -> snd (step s (New h sh kids0 a)) = ORet i ->
  let s' := fst (step s (New h sh kids0 a)) in
  let kids := ref_kids (heap s) sh kids0 in
  exists o, find_obj i (heap s') = Some o /\ t_zombie o = false /\ t_shape o = sh /\ t_kids o = kids /\
            (In o (heap s) \/ (i = next_oid s /\
                               forall o0, In o0 (heap s) -> t_zombie o0 = false ->
                                          ~ (t_shape o0 = sh /\ t_kids o0 = kids))).
Proof.
  intros HR Hag H. pose proof (reachable_inv _ HR) as HI. cbn [step] in *.
  rewrite key_kids_ok in *. change gen_insert_after_live_check with true in *. cbn [andb] in *.
  set (kids := ref_kids (heap s) sh kids0) in *.
  destruct (new_pre s h sh kids0 kids a) eqn:Hpre; [discriminate|]. unfold new_pre in Hpre.
  apply orb_false_iff in Hpre as [Hpre Hwf]. apply negb_false_iff in Hwf.
  rewrite <- (ref_kids_length (heap s) sh kids0) in Hwf. fold kids in Hwf.
  apply orb_false_iff in Hpre as [Hpre Hocc]. apply orb_false_iff in Hpre as [_ Hk].
  apply negb_false_iff in Hk. rewrite forallb_forall in Hk.
  rewrite Hag in *. destruct HI as [I1 I2 I3 I4 I5 I6 I7 I8 I9].
  set (k := key_of (heap s) sh kids) in *.
  assert (FRESH : (forall j, cache_get k (cache s) = Some j -> alive_nz (heap s) j = false) ->
                  forall o0, In o0 (heap s) -> t_zombie o0 = false -> ~ (t_shape o0 = sh /\ t_kids o0 = kids)).
  { intros Hdead o0 Ho0 Hz0 [Es Ek].
    assert (Ha0 : is_agg (t_shape o0) = false) by congruence.
    destruct (I6 o0 Ho0 Hz0 Ha0) as [_ Hg]. unfold desc_key in Hg. rewrite Es, Ek in Hg. fold k in Hg.
    specialize (Hdead _ Hg). unfold alive_nz in Hdead. rewrite (In_find_obj _ _ I1 Ho0), Hz0 in Hdead. discriminate. }
  destruct (cache_get k (cache s)) as [j|] eqn:Hg.
  - destruct (alive_nz (heap s) j) eqn:Hal.
    + (* hit *)
      cbn in H. injection H as <-. cbn [fst heap].
      destruct (alive_nz_In _ _ Hal) as (o & Hf & Hz). exists o. split; auto. split; auto.
      pose proof (I8 _ _ _ Hg Hf Hz) as Hu. pose proof (find_obj_In _ _ _ Hf) as [Hin _].
      destruct (is_agg (t_shape o)) eqn:Ha; [rewrite (I7 _ Hin Ha) in Hu; discriminate|].
      destruct (I6 o Hin Hz Ha) as [Hu2 _]. rewrite Hu in Hu2. inversion Hu2 as [Ek].
      (* the words of the requested description are the words of o's description: same description *)
      unfold k, desc_key in Ek.
      destruct (key_of_inj (heap s) sh kids (t_shape o) (t_kids o)) as [Es Em]; auto; [intros c Hc; eapply I5; eauto].
    + cbn in H. injection H as <-. cbn [fst heap find_obj t_oid]. rewrite N.eqb_refl.
      eexists. split; [reflexivity|]. cbn. repeat split; auto. right. split; auto.
      apply FRESH. intros j' E. inversion E; subst; auto.
  - cbn in H. injection H as <-. cbn [fst heap find_obj t_oid]. rewrite N.eqb_refl.
    eexists. split; [reflexivity|]. cbn. repeat split; auto. right. split; auto.
    apply FRESH. intros j' E. discriminate.
Qed.

(* live objects sit at pairwise different addresses and children of live types are live
   (what makes the address-based keys meaningful) *)
Theorem heap_wellformed s :
  reachable s ->
  NoDup (map t_addr (heap s)) /\ NoDup (map t_oid (heap s)) /\
  (forall o, In o (heap s) -> t_zombie o = false -> forall c, In c (t_kids o) -> alive_nz (heap s) c = true).
Proof. intros HR. destruct (reachable_inv _ HR). auto. Qed.

Lemma free_heap s i : snd (step s (Free i)) = ODone -> heap (fst (step s (Free i))) = heap_del i (heap s).
Proof.
  cbn [step]. destruct (find_obj i (heap s)); [|discriminate].
  destruct (has_handle s i || has_parent (heap s) i); [discriminate|]. reflexivity.
Qed.

(* rebuilding after a free: once the last live type of a description has been freed, building
   that description again creates a new object — and by [canonical] it is again the only one *)
Theorem rebuild_after_free s i o h sh kids a r :
  reachable s -> find_obj i (heap s) = Some o -> t_zombie o = false -> is_agg (t_shape o) = false ->
  snd (step s (Free i)) = ODone ->
  t_shape o = sh -> t_kids o = kids ->
  let s1 := fst (step s (Free i)) in
  ref_kids (heap s1) sh kids = kids ->        (* kids are already what the type references *)
  snd (step s1 (New h sh kids a)) = ORet r -> r = next_oid s1.
Proof.
  intros HR Hf Hz Ha Hfree Es Ek s1 Hrk Hnew.
  assert (HR1 : reachable s1).
  { destruct HR as [hh ->]. exists (hh ++ [Free i]). subst s1.
    assert (G : forall hh s0, fst (run s0 (hh ++ [Free i])) = fst (step (fst (run s0 hh)) (Free i))).
    { induction hh0 as [|o' hh0 IH]; intros s0; cbn [run app].
      - cbn [fst]. destruct (step s0 (Free i)); reflexivity.
      - destruct (step s0 o') as [sa ra]. specialize (IH sa).
        destruct (run sa (hh0 ++ [Free i])); destruct (run sa hh0); cbn in *; auto. }
    rewrite G. reflexivity. }
  assert (Hsh : is_agg sh = false) by congruence.
  destruct (new_returns _ _ _ _ _ _ HR1 Hsh Hnew) as (o' & Hf' & Hz' & Es' & Ek' & [Hin|[E _]]); auto.
  rewrite Hrk in Ek'.
  (* an existing live object with this description would have been o itself *)
  exfalso. subst s1. rewrite (free_heap _ _ Hfree) in Hin.
  apply In_heap_del in Hin as [Hin Hne]. apply find_obj_In in Hf as [Hino Eo].
  assert (o' = o).
  { apply (canonical s o' o); auto; congruence. }
  subst. congruence.
Qed.

(* the decayed arguments are alive whenever the given ones are: the third test of [New] is redundant
   on reachable states (an array type keeps its pointer type alive) *)
Lemma decay_alive s i : Inv s -> alive_nz (heap s) i = true -> alive_nz (heap s) (decay (heap s) i) = true.
Proof.
  intros HI Hal. unfold decay. destruct (alive_nz_In _ _ Hal) as (o & Hf & Hz). rewrite Hf.
  destruct (N.eqb (fst (t_shape o)) 3); auto.
  destruct (t_kids o) as [|c rest] eqn:Hk; cbn; auto.
  apply find_obj_In in Hf as [Hin _]. destruct HI as [_ _ _ _ I5 _ _ _ _].
  apply (I5 o Hin Hz c). rewrite Hk. left; auto.
Qed.

Theorem ref_kids_alive s sh kids0 :
  reachable s -> forallb (alive_nz (heap s)) kids0 = true ->
  forallb (alive_nz (heap s)) (ref_kids (heap s) sh kids0) = true.
Proof.
  intros HR H. apply reachable_inv in HR. unfold ref_kids. destruct (N.eqb (fst sh) 4); auto.
  destruct kids0 as [|res args]; auto. cbn in *. apply andb_true_iff in H as [Hr Ha]. rewrite Hr. cbn.
  rewrite forallb_forall in *. intros c Hc. apply in_map_iff in Hc as [a0 [E Ha0]]. subst.
  apply decay_alive; auto.
Qed.

(* the key words of two live non-aggregate types of a reachable state are equal only if the types have the
   same description: nothing but the words (no kind tag) is needed to tell descriptions apart *)
Theorem key_words_injective s o1 o2 :
  reachable s -> In o1 (heap s) -> In o2 (heap s) -> t_zombie o1 = false -> t_zombie o2 = false ->
  is_agg (t_shape o1) = false -> is_agg (t_shape o2) = false ->
  key_of (heap s) (t_shape o1) (t_kids o1) = key_of (heap s) (t_shape o2) (t_kids o2) ->
  t_shape o1 = t_shape o2 /\ t_kids o1 = t_kids o2.
Proof.
  intros HR H1 H2 Z1 Z2 A1 A2 E. apply reachable_inv in HR. destruct HR as [I1 I2 I3 I4 I5 I6 I7 I8 I9].
  apply (key_of_inj (heap s)); auto; intros c Hc; [apply (I5 o1)|apply (I5 o2)]; auto.
Qed.
