(* REGENERATED on every run by tools/props/c27.py (regen) from the unique_key[...] assignments and the
   get_unique_type(..., N) calls of new_primitive_type, new_pointer_type, new_array_type, new_void_type and
   new_function_type in src/c/_cffi_backend.c; the committed copy is Gen.v.snapshot.  Do not edit. *)
From Coq Require Import List.
Import ListNotations.
From Cffi Require Import C27.Keys.

Definition primitive_key : list ksrc := [ KStatic ].
Definition pointer_key : list ksrc := [ KItem ].
Definition array_key : list ksrc := [ KPtr; KLen ].
Definition void_key : list ksrc := [ KStatic ].
Definition function_key : list ksrc := [ KResult; KFlags; KNargs; KArgsStored ].
