(* REGENERATED on every run by tools/props/c27.py (regen) from src/c/_cffi_backend.c; the committed copy is
   Gen.v.snapshot.  Do not edit.
   *_key: the unique_key[...] assignments (WHICH expression is stored in each slot) and the key length given to
     get_unique_type in new_primitive_type, new_pointer_type, new_array_type, new_void_type, new_function_type;
   gen_remove_only_if_dead: remove_dead_unique_reference deletes the entry only under the dead-weakref test;
   gen_dealloc_order: the relevant statements of ctypedescr_dealloc in source order;
   gen_insert_after_live_check: get_or_insert_unique_type returns a live hit before PyDict_SetItem and sets
     ct_unique_key only after the insertion;
   gen_clear_fields: the fields ctypedescr_clear resets. *)
From Coq Require Import List.
Import ListNotations.
From Cffi Require Import C27.Keys.

Definition primitive_key : list ksrc := [ KStatic ].
Definition pointer_key : list ksrc := [ KItem ].
Definition array_key : list ksrc := [ KPtr; KLen ].
Definition void_key : list ksrc := [ KStatic ].
Definition function_key : list ksrc := [ KResult; KFlags; KNargs; KArgsStored ].
Definition gen_remove_only_if_dead : bool := true.
Definition gen_dealloc_order : list dstep := [ DClearWeakrefs; DRemoveKey; DDecrefItem; DDecrefStuff; DFree ].
Definition gen_insert_after_live_check : bool := true.
Definition gen_clear_fields : list cfield := [ FItem; FStuff ].
