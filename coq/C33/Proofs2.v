(* C33 — integer constants through the three routes: generic engine (vengine_gen.py: C getter + Python fix-up),
   CPython engine (_cffi_from_c_int_const), set_source() (C12.lib_constant).  All three pieces of text are
   regenerated in C33/Gen.v. *)
From Coq Require Import ZArith List Bool Lia ZifyBool.
Import ListNotations.
From Cffi Require Import C12.Spec C12.Gen C12.Model C12.Proofs C33.Spec C33.Gen.
Local Open Scope Z_scope.

(* the value verify() gives to an integer constant whose C expression X has the promoted type T and the value c:
   generic engine = _load_constant's fix-up applied to what the generated C function stores and returns *)
Definition vgen_const (c : Z) : Z := vgen_load_fixup (vgen_out_value c) (vgen_return c).
Definition vcpy_const (c : Z) : Z := vcpy_from_c_int_const c.

Lemma promoted_range T c : promoted T -> in_range T c -> - 2 ^ 63 <= c < 2 ^ 64.
Proof.
  intros [ -> | [ -> | [ -> | -> ] ] ]; unfold in_range, ty_min, ty_max; cbn; lia.
Qed.

Lemma to_ll_small c : - 2 ^ 63 <= c < 2 ^ 63 -> to_ll c = c.
Proof.
  intros H. unfold to_ll. cbv zeta.
  destruct (Z_lt_dec c 0).
  - replace (c mod 2 ^ 64) with (c + 2 ^ 64) by (apply Z.mod_unique with (q := -1); lia).
    destruct (c + 2 ^ 64 <? 2 ^ 63) eqn:E; lia.
  - rewrite Z.mod_small by lia. destruct (c <? 2 ^ 63) eqn:E; lia.
Qed.

Lemma to_ll_big c : 2 ^ 63 <= c < 2 ^ 64 -> to_ll c = c - 2 ^ 64.
Proof.
  intros H. unfold to_ll. cbv zeta. rewrite Z.mod_small by lia. destruct (c <? 2 ^ 63) eqn:E; lia.
Qed.

Lemma to_ull_small c : 0 <= c < 2 ^ 64 -> to_ull c = c.
Proof. intros H. unfold to_ull. apply Z.mod_small. lia. Qed.

Theorem vgen_const_id : forall c, - 2 ^ 63 <= c < 2 ^ 64 -> vgen_const c = c.
Proof.
  intros c H. unfold vgen_const, vgen_load_fixup, vgen_out_value, vgen_return.
  destruct (Z_lt_dec c (2 ^ 63)).
  - rewrite to_ll_small by lia. destruct (c <? 0) eqn:E1, (c <=? 0) eqn:E2; cbn; lia.
  - rewrite to_ll_big by lia.
    assert (c - 2 ^ 64 <? 0 = true) as -> by lia. assert (c <=? 0 = false) as -> by lia. cbn. lia.
Qed.

Theorem vcpy_const_id : forall c, - 2 ^ 63 <= c < 2 ^ 64 -> vcpy_const c = c.
Proof.
  intros c H. unfold vcpy_const, vcpy_from_c_int_const.
  destruct (c >? 0) eqn:E0.
  - rewrite (to_ull_small c) by lia. rewrite (to_ull_small LONG_MAX) by (unfold LONG_MAX; lia).
    destruct (c <=? LONG_MAX) eqn:E1.
    + apply to_ll_small. unfold LONG_MAX in E1. lia.
    + reflexivity.
  - assert (to_ll c = c) as -> by (apply to_ll_small; lia). destruct (c >=? to_ll LONG_MIN); reflexivity.
Qed.

Theorem int_constant_routes_agree : forall T c, promoted T -> in_range T c ->
  vgen_const c = c /\ vcpy_const c = c /\ lib_constant KMacro T c None = Some (Ok c).
Proof.
  intros T c P R. pose proof (promoted_range T c P R) as B.
  split; [apply vgen_const_id; exact B|]. split; [apply vcpy_const_id; exact B|].
  apply const_dotdotdot; assumption.
Qed.

(* the fix-up matters: without it an unsigned constant >= 2^63 would come out negative *)
Example vgen_needs_fixup : vgen_out_value (2 ^ 64 - 1) = -1 /\ vgen_const (2 ^ 64 - 1) = 2 ^ 64 - 1 /\ vgen_const (-1) = -1.
Proof. vm_compute. repeat split; reflexivity. Qed.
