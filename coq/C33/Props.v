(* C33 — verify() produces the same library behaviour as set_source().
   Statements only; proofs in C33/Proofs.v.  The bound expressions, instantiations, export
   tables and dispatch tables are the regenerated definitions of C33/Gen.v. *)
From Coq Require Import ZArith List Bool.
Import ListNotations.
From Cffi Require Import C33.Spec C33.Gen C33.Model C33.Proofs C12.Gen C12.Model C12.Proofs2.
From Cffi Require C12.Spec C12.Proofs C33.Proofs2.
Local Open Scope Z_scope.

(* SCOPE.  The property's main clause — "the library returned by ffi.verify(), with either engine,
   exposes the same functions, global variables, constants and struct layouts, with the same
   call results and conversion errors, as the set_source() module" — is an equality of two
   compiled artefacts and is DECIDED BY THE CORRESPONDENCE RUN ONLY (tools/props/c33.py: three
   builds per case, all observations compared).  What is proved here are the mechanisms on which
   that equality rests and which can be stated over all values:
     - integer argument conversion of the CPython engine = the type's range semantics, for all
       Python ints (C33_to_c_int_range), and set_source() modules reach the same backend
       converters (C33_include_same_as_vengine);
     - integer result conversion (C33_from_c_int_id);
     - struct layout acceptance and result of both routes (C33_struct_routes_agree,
       C33_partial_same_call, C33_partial_size_mismatch).
     - integer constants through all three routes (C33_int_constant_routes_agree): the generic
       engine's C getter + Python fix-up, the CPython engine's _cffi_from_c_int_const, and the
       set_source() route (C12.lib_constant) all give the constant's value.
   Not modelled at all (correspondence only): the generic engine's argument/result conversions
   (libffi call path of the backend, properties C03/C13), function results, global variables,
   non-integer constants, non-integer conversions and TypeError cases. *)

(* integer arguments, CPython engine: for every C integer type of 1, 2, 4 or 8 bytes, signed or
   unsigned, and EVERY Python int v: the generated conversion accepts v iff v is in the range
   of the type (the backend's integer range semantics), passes it unchanged, and raises
   OverflowError otherwise *)
Theorem C33_to_c_int_range : forall size signed v,
  In size [1; 2; 4; 8] ->
  vengine_to_c_int size signed v = Some (if in_type size signed v then COk v else CErr OverflowError).
Proof. exact vengine_to_c_int_range. Qed.
Print Assumptions C33_to_c_int_range.

(* modules built by set_source() convert with the same function.  The two sides are NOT one
   definition: [vengine_to_c_int] is [to_c_int_with] applied to the dispatch and export-index
   tables regenerated from the header text inside src/cffi/vengine_cpy.py, [include_to_c_int]
   is the same interpreter applied to the tables regenerated from src/cffi/_cffi_include.h
   (the Gen.vengine_ tables versus the Gen.include_ tables).  The proof is by computation because the two regenerated
   tables coincide today; if either header changes, Gen.v changes and this theorem (or
   C33_to_c_int_range) stops checking. *)
Theorem C33_include_same_as_vengine : forall size signed v,
  include_to_c_int size signed v = vengine_to_c_int size signed v.
Proof. exact include_same_as_vengine. Qed.
Print Assumptions C33_include_same_as_vengine.

Theorem C33_shift_counts_defined :
  forallb (fun i => match i with (_, SIZE, _, _) =>
             forallb (fun k => (0 <=? k) && (k <? 64)) (shift_counts SIZE) end) to_c_instances = true.
Proof. exact shift_counts_defined. Qed.
Print Assumptions C33_shift_counts_defined.

(* integer results: the Python int equals the C value, for every value of the type *)
Theorem C33_from_c_int_id : forall size signed x,
  In size [1; 2; 4; 8] -> in_type size signed x = true -> from_c_int size signed x = x.
Proof. exact from_c_int_id. Qed.
Print Assumptions C33_from_c_int_id.

(* struct layouts (named non-bitfield fields, no open arrays): non-partial declarations are
   accepted by verify() exactly when set_source() accepts them, and both then hold the
   compiler's layout; otherwise both raise (VerificationError resp. ffi.error) *)
Theorem C33_struct_routes_agree : forall packed u decl rep Lnat,
  length decl = length (r_fields rep) -> wf_report rep ->
  Forall (fun d => pow2 (fd_align d)) decl ->
  Forall (fun r => fr_size r <> 0) (r_fields rep) ->
  natural packed u decl = Ok Lnat ->
  (report_layout rep = Lnat ->
     verify_checked_struct packed u decl rep = VOk (report_layout rep) /\
     realize_struct (struct_flags false packed) u decl rep = Ok (report_layout rep)) /\
  (report_layout rep <> Lnat ->
     verify_checked_struct packed u decl rep = VErr VerificationError /\
     realize_struct (struct_flags false packed) u decl rep = Err FFIError).
Proof. exact struct_routes_agree. Qed.
Print Assumptions C33_struct_routes_agree.

(* partial ("...") declarations: with matching field sizes verify() performs the very same
   backend call as the set_source() route (C12.Model.realize_struct), hence the same layout
   — the compiler's, by C12_struct_partial — or the same error *)
Theorem C33_partial_same_call : forall u decl rep,
  length decl = length (r_fields rep) -> wf_report rep ->
  Forall (fun d => 0 <= fd_size d) decl ->
  map fd_size decl = map fr_size (r_fields rep) ->
  verify_partial_struct u decl rep =
  match realize_struct (struct_flags true false) u decl rep with
  | Ok l => VOk l
  | Err e => VErr (BackendError e)
  end.
Proof. exact verify_partial_same_call. Qed.
Print Assumptions C33_partial_same_call.

Theorem C33_partial_size_mismatch : forall u decl rep,
  length decl = length (r_fields rep) -> wf_report rep ->
  Forall (fun d => 0 <= fd_size d) decl ->
  map fd_size decl <> map fr_size (r_fields rep) ->
  verify_partial_struct u decl rep = VErr VerificationError /\
  realize_struct (struct_flags true false) u decl rep = Err FFIError.
Proof. exact verify_partial_size_mismatch. Qed.
Print Assumptions C33_partial_size_mismatch.

(* non-vacuity *)
Example C33_example :
  vengine_to_c_int 2 true 32767 = Some (COk 32767) /\
  vengine_to_c_int 2 true 32768 = Some (CErr OverflowError) /\
  vengine_to_c_int 8 false (-1) = Some (CErr OverflowError) /\
  vengine_to_c_int 4 false (2 ^ 32 - 1) = Some (COk (2 ^ 32 - 1)) /\
  vengine_to_c_int 1 true (-1) = Some (COk (-1)) /\
  vengine_to_c_int 8 true (2 ^ 70) = Some (CErr OverflowError) /\
  verify_partial_struct false [mkfdecl 4 4; mkfdecl 8 8] (mkreport [mkfrep 8 4; mkfrep 0 8] 16 8)
    = VOk (mklayout [(8, 4); (0, 8)] 16 8) /\
  verify_checked_struct false false [mkfdecl 4 4; mkfdecl 8 8] (mkreport [mkfrep 8 4; mkfrep 0 8] 16 8)
    = VErr VerificationError.
Proof. vm_compute. repeat split; reflexivity. Qed.

(* integer constants, all three routes.  X is a C integer constant expression of promoted type T (int, unsigned,
   long, unsigned long — C12.Spec) with value c.
     generic engine   vgen_const c = vgen_load_fixup (vgen_out_value c) (vgen_return c):  the generated C function
                      stores (long long)(X) and returns (X) <= 0; _load_constant adds 2^64 to a negative value that
                      the C side did not report as <= 0       (Gen.v, regenerated from vengine_gen.py)
     CPython engine   vcpy_const c = _cffi_from_c_int_const(X)  (Gen.v, regenerated from vengine_cpy.py)
     set_source()     C12.lib_constant KMacro T c None           (C12, `#define X ...`)
   All three are c. *)
Theorem C33_int_constant_routes_agree : forall T c, C12.Proofs.promoted T -> C12.Spec.in_range T c ->
  C33.Proofs2.vgen_const c = c /\ C33.Proofs2.vcpy_const c = c /\
  lib_constant KMacro T c None = Some (Ok c).
Proof. exact C33.Proofs2.int_constant_routes_agree. Qed.
Print Assumptions C33_int_constant_routes_agree.

(* both engines are the identity on the whole range [-2^63, 2^64) that a C integer constant can take *)
Theorem C33_vgen_const_id : forall c, - 2 ^ 63 <= c < 2 ^ 64 -> C33.Proofs2.vgen_const c = c.
Proof. exact C33.Proofs2.vgen_const_id. Qed.
Print Assumptions C33_vgen_const_id.

Theorem C33_vcpy_const_id : forall c, - 2 ^ 63 <= c < 2 ^ 64 -> C33.Proofs2.vcpy_const c = c.
Proof. exact C33.Proofs2.vcpy_const_id. Qed.
Print Assumptions C33_vcpy_const_id.

(* non-vacuity, and why the fix-up is there: ULLONG_MAX is stored as -1 by the C side *)
Example C33_vgen_needs_fixup :
  vgen_out_value (2 ^ 64 - 1) = -1 /\ C33.Proofs2.vgen_const (2 ^ 64 - 1) = 2 ^ 64 - 1 /\ C33.Proofs2.vgen_const (-1) = -1.
Proof. exact C33.Proofs2.vgen_needs_fixup. Qed.
