(* C33 — fixed-width C arithmetic used by the integer converters (written independently of
   the model): unsigned long long arithmetic is modulo 2^64; conversion to long long is
   two's complement (gcc); a shift count must be in [0, 64) (checked separately for every
   instantiation, see Proofs.shift_counts_defined). *)
From Coq Require Import ZArith.
Local Open Scope Z_scope.

Definition to_ull (z : Z) : Z := z mod 2 ^ 64.
Definition to_ll (z : Z) : Z := let r := z mod 2 ^ 64 in if r <? 2 ^ 63 then r else r - 2 ^ 64.
Definition ull_sub (a b : Z) : Z := to_ull (a - b).
Definition ull_shl (a k : Z) : Z := to_ull (a * 2 ^ k).
Definition ull_not (a : Z) : Z := 2 ^ 64 - 1 - to_ull a.

(* the range of the C integer type of the given byte size and signedness: the "backend's
   integer range semantics" (what convert_from_object accepts for a primitive integer type,
   property C03) *)
Definition type_lo (size : Z) (signed : bool) : Z := if signed then - 2 ^ (8 * size - 1) else 0.
Definition type_hi (size : Z) (signed : bool) : Z :=
  if signed then 2 ^ (8 * size - 1) - 1 else 2 ^ (8 * size) - 1.
Definition in_type (size : Z) (signed : bool) (v : Z) : bool :=
  (type_lo size signed <=? v) && (v <=? type_hi size signed).

(* <limits.h> with sizeof(long) = 8 (the platform of the check) *)
Definition LONG_MAX : Z := 2 ^ 63 - 1.
Definition LONG_MIN : Z := - 2 ^ 63.
