(* C33/Gen.v — REGENERATED on every run by tools/props/c33.py:regen from
     /repo/src/c/_cffi_backend.c     (_cffi_to_c_SIGNED_FN / _cffi_to_c_UNSIGNED_FN bodies, their
                                      instantiations, the cffi_exports[] table)
     /repo/src/cffi/vengine_cpy.py   (cffimod_header: _cffi_to_c_int dispatch, _cffi_to_c_iN/uN
                                      export indices, _cffi_from_c_int)
     /repo/src/cffi/_cffi_include.h  (the same macros as used by set_source() modules)
     /repo/src/cffi/vengine_gen.py   (_generate_gen_const / _load_constant, integer constants; vengine_cpy.py
                                      _cffi_from_c_int_const)
   Do not edit: this committed copy is the snapshot used when the translator fails. *)
From Coq Require Import ZArith List.
Import ListNotations.
From Cffi Require Import C33.Spec.
Local Open Scope Z_scope.

(* _cffi_backend.c: tmp > (PY_LONG_LONG)((1ULL<<(SIZE-1)) - 1) *)
Definition to_c_signed_hi (SIZE : Z) : Z := (to_ll (ull_sub (ull_shl 1 (SIZE - 1)) 1)).
(* _cffi_backend.c: tmp < (PY_LONG_LONG)(0ULL-(1ULL<<(SIZE-1))) *)
Definition to_c_signed_lo (SIZE : Z) : Z := (to_ll (ull_sub 0 (ull_shl 1 (SIZE - 1)))).
(* _cffi_backend.c: tmp > ~(((unsigned PY_LONG_LONG)-2) << (SIZE-1)) *)
Definition to_c_unsigned_hi (SIZE : Z) : Z := (ull_not (ull_shl (to_ull (- 2)) (SIZE - 1))).
(* shift counts occurring above *)
Definition shift_counts (SIZE : Z) : list Z := [(SIZE - 1); (SIZE - 1); (SIZE - 1)].

(* instantiations: (signed, SIZE, bits of RETURNTYPE, RETURNTYPE signed) *)
Definition to_c_instances : list (bool * Z * Z * bool) :=
  [(true, 8, 32, true); (true, 16, 32, true); (true, 32, 32, true); (true, 64, 64, true); (false, 8, 32, true); (false, 16, 32, true); (false, 32, 32, false); (false, 64, 64, false)].

(* cffi_exports[]: index -> converter (signed, SIZE) *)
Definition backend_exports : list (Z * (bool * Z)) :=
  [(1, (true, 8)); (2, (false, 8)); (3, (true, 16)); (4, (false, 16)); (5, (true, 32)); (6, (false, 32)); (7, (true, 64)); (8, (false, 64))].

(* #define _cffi_to_c_iN/uN ((...)_cffi_exports[k]) : converter -> index *)
Definition vengine_export_index : list ((bool * Z) * Z) :=
  [((true, 8), 1); ((false, 8), 2); ((true, 16), 3); ((false, 16), 4); ((true, 32), 5); ((false, 32), 6); ((true, 64), 7); ((false, 64), 8)].
Definition include_export_index : list ((bool * Z) * Z) :=
  [((true, 8), 1); ((false, 8), 2); ((true, 16), 3); ((false, 16), 4); ((true, 32), 5); ((false, 32), 6); ((true, 64), 7); ((false, 64), 8)].

(* _cffi_to_c_int(o, type): sizeof(type) == n ? (unsigned ? uA : iB) : ...   as (n, A, B) *)
Definition vengine_to_c_int_dispatch : list (Z * Z * Z) :=
  [(1, 8, 8); (2, 16, 16); (4, 32, 32); (8, 64, 64)].
Definition include_to_c_int_dispatch : list (Z * Z * Z) :=
  [(1, 8, 8); (2, 16, 16); (4, 32, 32); (8, 64, 64)].

(* _cffi_from_c_int(x, type) has the expected text in both headers *)
Definition vengine_from_c_int_standard : bool := true.
Definition include_from_c_int_standard : bool := true.

(* vengine_gen.py _generate_gen_const, integer constant X: `*out_value = (long long)(X); return (X) <= 0;`
   (the comparison is done in X's own promoted type, where it agrees with the mathematical one) *)
Definition vgen_out_value (x : Z) : Z := to_ll x.
Definition vgen_return (x : Z) : bool := (x <=? 0).
(* vengine_gen.py _load_constant: negative = function(p); value = int(p[0]); if value < 0 and (not negative): value += 1 << 8 * self.ffi.sizeof(BLongLong) *)
Definition vgen_load_fixup (value : Z) (negative : bool) : Z :=
  if (andb (value <? (0)) (negb negative)) then value + (Z.shiftl (1) (Z.mul (8) (8))) else value.
(* vengine_cpy.py #define _cffi_from_c_int_const(x); PyLong_FromT(v) is the Python int v; LONG_MAX/LONG_MIN: sizeof(long) = 8 *)
Definition vcpy_from_c_int_const (x : Z) : Z :=
  if (x >? 0) then (if (to_ull x <=? to_ull LONG_MAX) then (to_ll x) else (to_ull x))
  else (if (to_ll x >=? to_ll LONG_MIN) then (to_ll x) else (to_ll x)).
