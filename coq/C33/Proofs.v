(* C33 — proofs. *)
From Coq Require Import ZArith List Bool Lia ZifyBool.
Import ListNotations.
From Cffi Require Import C33.Spec C33.Gen C33.Model C12.Gen C12.Model C12.Proofs2.
Local Open Scope Z_scope.
Ltac Zify.zify_post_hook ::= Z.to_euclidean_division_equations.

Ltac closed_consts :=
  repeat match goal with
         | |- context [to_c_signed_hi ?k] =>
             let v := eval vm_compute in (to_c_signed_hi k) in change (to_c_signed_hi k) with v
         | |- context [to_c_signed_lo ?k] =>
             let v := eval vm_compute in (to_c_signed_lo k) in change (to_c_signed_lo k) with v
         | |- context [to_c_unsigned_hi ?k] =>
             let v := eval vm_compute in (to_c_unsigned_hi k) in change (to_c_unsigned_hi k) with v
         | |- context [cast ?b ?s (-1)] =>
             let v := eval vm_compute in (cast b s (-1)) in change (cast b s (-1)) with v
         | |- context [cast ?b ?s (Zpos ?p)] =>
             let v := eval vm_compute in (cast b s (Zpos p)) in change (cast b s (Zpos p)) with v
         end.

Ltac pows :=
  repeat match goal with
         | |- context [2 ^ ?k] =>
             let v := eval vm_compute in (2 ^ k) in change (2 ^ k) with v
         | H : context [2 ^ ?k] |- _ =>
             let v := eval vm_compute in (2 ^ k) in change (2 ^ k) with v in H
         end.

Ltac split_ifs :=
  repeat match goal with
         | |- context [if ?b then _ else _] => let E := fresh "E" in destruct b eqn:E
         end.

Ltac lookups :=
  cbn [lookup_dispatch lookup_index lookup_export lookup_inst
       vengine_to_c_int_dispatch vengine_export_index include_to_c_int_dispatch include_export_index
       backend_exports to_c_instances Bool.eqb Z.eqb Pos.eqb andb Z.mul Pos.mul].

Ltac one_case :=
  lookups; unfold to_c_fn, as_longlong, as_ulonglong_strict, in_type, type_lo, type_hi;
  cbn [Z.mul Pos.mul Z.sub Z.add Z.opp Z.pos_sub Pos.pred_double Pos.add Pos.succ];
  closed_consts; unfold cast; cbn [andb orb Z.sub Z.opp Z.add Z.pos_sub Pos.pred_double]; pows;
  split_ifs; try reflexivity; try (f_equal; f_equal; lia); try lia.

(* (a) verify()'s CPython-engine argument conversion: accepted iff in the range of the C type,
   and then the value is passed unchanged; otherwise OverflowError *)
Theorem vengine_to_c_int_range : forall size signed v,
  In size [1; 2; 4; 8] ->
  vengine_to_c_int size signed v = Some (if in_type size signed v then COk v else CErr OverflowError).
Proof.
  intros size signed v Hs. unfold vengine_to_c_int, to_c_int_with.
  cbn [In] in Hs. destruct Hs as [<- | [<- | [<- | [<- | []]]]]; destruct signed; one_case.
Qed.

(* the header of set_source() modules (_cffi_include.h) dispatches to the same backend
   functions: the two regenerated tables coincide, hence the two conversions are the same function *)
Theorem include_same_as_vengine : forall size signed v,
  include_to_c_int size signed v = vengine_to_c_int size signed v.
Proof. intros. reflexivity. Qed.

(* every shift in the regenerated bound expressions has a defined count for every instantiation *)
Theorem shift_counts_defined :
  forallb (fun i => match i with (_, SIZE, _, _) =>
             forallb (fun k => (0 <=? k) && (k <? 64)) (shift_counts SIZE) end) to_c_instances = true.
Proof. vm_compute. reflexivity. Qed.

(* results: _cffi_from_c_int returns the C value for every value of the type *)
Theorem from_c_int_id : forall size signed x,
  In size [1; 2; 4; 8] -> in_type size signed x = true -> from_c_int size signed x = x.
Proof.
  intros size signed x Hs. cbn [In] in Hs.
  destruct Hs as [<- | [<- | [<- | [<- | []]]]]; destruct signed;
    unfold in_type, type_lo, type_hi, from_c_int, cast;
    cbn [negb andb Z.mul Pos.mul Z.sub Z.opp Z.add Z.pos_sub Pos.pred_double Z.ltb Z.leb Z.eqb Z.compare Pos.compare Pos.compare_cont Pos.eqb];
    pows; intros H; split_ifs; lia.
Qed.

(* ---- (b) struct layouts *)
Lemma fixed_sizes_ok_spec : forall decl reps, length decl = length reps ->
  Forall (fun d => 0 <= fd_size d) decl ->
  fixed_sizes_ok (combine decl reps) = true <-> map fd_size decl = map fr_size reps.
Proof.
  induction decl as [| d decl IH]; intros [| r reps] Hlen Hpos; cbn in Hlen; try discriminate.
  - cbn. split; reflexivity.
  - inversion Hpos as [| ? ? Hd Hrest]; subst. cbn [combine fixed_sizes_ok map].
    assert (Hn : (fd_size d <? 0) = false) by lia. rewrite Hn.
    rewrite andb_true_iff, (IH reps ltac:(lia) Hrest). split.
    + intros [H1 H2]. f_equal; [lia | exact H2].
    + intros H. injection H as H1 H2. split; [lia | exact H2].
Qed.

(* verify() on a partial struct performs the same backend call as the set_source() route *)
Theorem verify_partial_same_call : forall u decl rep,
  length decl = length (r_fields rep) -> wf_report rep ->
  Forall (fun d => 0 <= fd_size d) decl ->
  map fd_size decl = map fr_size (r_fields rep) ->
  verify_partial_struct u decl rep =
  match realize_struct (struct_flags true false) u decl rep with
  | Ok l => VOk l
  | Err e => VErr (BackendError e)
  end.
Proof.
  intros u decl rep Hlen Hwf Hpos Hs. unfold verify_partial_struct, realize_struct.
  destruct Hwf as (Hoff & _ & _).
  destruct (realize_fields_spec decl (r_fields rep) Hlen Hoff) as [[-> _] | [_ Hne]]; [|contradiction].
  assert (Hok : fixed_sizes_ok (combine decl (r_fields rep)) = true)
    by (apply fixed_sizes_ok_spec; assumption).
  rewrite Hok. reflexivity.
Qed.

Theorem verify_partial_size_mismatch : forall u decl rep,
  length decl = length (r_fields rep) -> wf_report rep ->
  Forall (fun d => 0 <= fd_size d) decl ->
  map fd_size decl <> map fr_size (r_fields rep) ->
  verify_partial_struct u decl rep = VErr VerificationError /\
  realize_struct (struct_flags true false) u decl rep = Err FFIError.
Proof.
  intros u decl rep Hlen Hwf Hpos Hs. split.
  - unfold verify_partial_struct.
    destruct (fixed_sizes_ok (combine decl (r_fields rep))) eqn:E; [|reflexivity].
    apply fixed_sizes_ok_spec in E; [contradiction | assumption | assumption].
  - apply (proj1 (struct_partial false u decl rep Hlen Hwf)). exact Hs.
Qed.

Lemma fields_check_spec : forall l reps, Forall (fun r => fr_size r <> 0) reps ->
  fields_check l reps = true <-> map (fun r => (fr_off r, fr_size r)) reps = l.
Proof.
  induction l as [| [o s] l IH]; intros [| r reps] Hnz; cbn [fields_check map].
  - split; reflexivity.
  - split; discriminate.
  - split; discriminate.
  - inversion Hnz as [| ? ? Hr Hrest]; subst.
    rewrite !andb_true_iff, orb_true_iff, (IH reps Hrest). split.
    + intros [[H1 H2] H3]. f_equal; [f_equal; lia | exact H3].
    + intros H. inversion H; subst. repeat split; try lia; try reflexivity.
Qed.

(* non-partial struct: verify() accepts exactly when the set_source() route accepts, and both
   then have the compiler's layout *)
Theorem struct_routes_agree : forall packed u decl rep Lnat,
  length decl = length (r_fields rep) -> wf_report rep ->
  Forall (fun d => pow2 (fd_align d)) decl ->
  Forall (fun r => fr_size r <> 0) (r_fields rep) ->
  natural packed u decl = Ok Lnat ->
  (report_layout rep = Lnat ->
     verify_checked_struct packed u decl rep = VOk (report_layout rep) /\
     realize_struct (struct_flags false packed) u decl rep = Ok (report_layout rep)) /\
  (report_layout rep <> Lnat ->
     verify_checked_struct packed u decl rep = VErr VerificationError /\
     realize_struct (struct_flags false packed) u decl rep = Err FFIError).
Proof.
  intros packed u decl rep Lnat Hlen Hwf Hpow Hnz Hnat.
  destruct (struct_checked packed u decl rep Lnat Hlen Hwf Hpow Hnat) as [R1 R2].
  unfold verify_checked_struct. rewrite Hnat.
  split; intros H.
  - split; [|exact (R1 H)]. rewrite <- H. unfold report_layout at 1 2 3. cbn [l_size l_align l_fields].
    rewrite !Z.eqb_refl. cbn [andb].
    assert (Hf : fields_check (map (fun r => (fr_off r, fr_size r)) (r_fields rep)) (r_fields rep) = true)
      by (apply fields_check_spec; [exact Hnz | reflexivity]).
    rewrite Hf. reflexivity.
  - split; [|exact (R2 H)].
    destruct ((r_size rep =? l_size Lnat) && (r_align rep =? l_align Lnat)
              && fields_check (l_fields Lnat) (r_fields rep)) eqn:E; [|reflexivity].
    exfalso. apply H. rewrite !andb_true_iff in E. destruct E as [[E1 E2] E3].
    apply fields_check_spec in E3; [|exact Hnz].
    destruct Lnat as [lf ls la]. unfold report_layout. cbn [l_size l_align l_fields] in *.
    f_equal; [exact E3 | lia | lia].
Qed.
