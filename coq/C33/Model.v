(* C33 — model of what verify()'s generated code does with integers and with struct layouts.

   (a) integer arguments and results of the CPython engine
       src/cffi/vengine_cpy.py:227  _convert_funcarg_to_c   "x = _cffi_to_c_int(arg, type);
                                                             if (x == (type)-1 && PyErr_Occurred()) return NULL;"
       src/cffi/vengine_cpy.py:890  #define _cffi_to_c_int   (dispatch on sizeof/signedness to
                                                             _cffi_exports[1..8])
       src/c/_cffi_backend.c:7701   _cffi_to_c_SIGNED_FN / _cffi_to_c_UNSIGNED_FN
       src/c/_cffi_backend.c:833    _my_PyLong_AsLongLong, :869 _my_PyLong_AsUnsignedLongLong(strict)
       src/cffi/vengine_cpy.py:879  #define _cffi_from_c_int
       The bounds, the dispatch table and the export indices are the regenerated definitions
       of C33/Gen.v; set_source() modules use the same-named macros of _cffi_include.h, whose
       tables are regenerated next to them.
   (b) struct layouts
       src/cffi/vengine_cpy.py:520  _loading_struct_or_union / :543 _loaded_struct_or_union
       src/cffi/vengine_gen.py:311  (the same two functions)
       src/cffi/model.py:403        StructOrUnion.finish_backend_type (fixedlayout branch)
       The call ffi._backend.complete_struct_or_union(BType, lst, self, totalsize,
       totalalignment) is C12.Model.complete with sflags = 0. *)
From Coq Require Import ZArith List Bool.
Import ListNotations.
From Cffi Require Import C33.Spec C33.Gen C12.Gen C12.Model.
Local Open Scope Z_scope.

Inductive pyerr := OverflowError | TypeErrorPy.
Inductive cres := COk (v : Z) | CErr (e : pyerr).

(* PyLong_AsLongLong on a Python int: value or (-1, OverflowError) *)
Definition as_longlong (v : Z) : Z * option pyerr :=
  if (- 2 ^ 63 <=? v) && (v <? 2 ^ 63) then (v, None) else (-1, Some OverflowError).
(* _my_PyLong_AsUnsignedLongLong(ob, strict=1) *)
Definition as_ulonglong_strict (v : Z) : Z * option pyerr :=
  if v <? 0 then (2 ^ 64 - 1, Some OverflowError)          (* "can't convert negative number" *)
  else if v <? 2 ^ 64 then (v, None) else (2 ^ 64 - 1, Some OverflowError).

Definition cast (bits : Z) (signed : bool) (z : Z) : Z :=
  let r := z mod 2 ^ bits in if signed && (2 ^ (bits - 1) <=? r) then r - 2 ^ bits else r.

(* one instantiation of _cffi_to_c_SIGNED_FN / _cffi_to_c_UNSIGNED_FN: returns the C return value
   and the pending Python error *)
Definition to_c_fn (signed : bool) (SIZE rbits : Z) (rsigned : bool) (v : Z) : Z * option pyerr :=
  if signed then
    let (tmp, perr) := as_longlong v in
    if (tmp >? to_c_signed_hi SIZE) || (tmp <? to_c_signed_lo SIZE) then
      match perr with
      | None => (cast rbits rsigned (-1), Some OverflowError)       (* _convert_overflow *)
      | Some e => (cast rbits rsigned tmp, Some e)
      end
    else (cast rbits rsigned tmp, perr)
  else
    let (tmp, perr) := as_ulonglong_strict v in
    if tmp >? to_c_unsigned_hi SIZE then
      match perr with
      | None => (cast rbits rsigned (-1), Some OverflowError)
      | Some e => (cast rbits rsigned tmp, Some e)
      end
    else (cast rbits rsigned tmp, perr).

Fixpoint lookup_inst (l : list (bool * Z * Z * bool)) (signed : bool) (SIZE : Z) : option (Z * bool) :=
  match l with
  | [] => None
  | (s, n, rb, rs) :: l' => if Bool.eqb s signed && (n =? SIZE) then Some (rb, rs) else lookup_inst l' signed SIZE
  end.

Fixpoint lookup_index (l : list ((bool * Z) * Z)) (signed : bool) (SIZE : Z) : option Z :=
  match l with
  | [] => None
  | ((s, n), k) :: l' => if Bool.eqb s signed && (n =? SIZE) then Some k else lookup_index l' signed SIZE
  end.

Fixpoint lookup_export (l : list (Z * (bool * Z))) (k : Z) : option (bool * Z) :=
  match l with
  | [] => None
  | (i, f) :: l' => if i =? k then Some f else lookup_export l' k
  end.

Fixpoint lookup_dispatch (l : list (Z * Z * Z)) (size : Z) : option (Z * Z) :=
  match l with
  | [] => None
  | (n, ub, sb) :: l' => if n =? size then Some (ub, sb) else lookup_dispatch l' size
  end.

(* "x = _cffi_to_c_int(o, type); if (x == (type)-1 && PyErr_Occurred()) return NULL;"
   for a C integer type of [size] bytes; the header tables are parameters so that the same
   definition serves vengine_cpy's header and _cffi_include.h.  None = Py_FatalError / a macro
   that points at nothing. *)
Definition to_c_int_with (dispatch : list (Z * Z * Z)) (index : list ((bool * Z) * Z))
           (size : Z) (signed : bool) (v : Z) : option cres :=
  match lookup_dispatch dispatch size with
  | None => None
  | Some (ub, sb) =>
      let SIZE := if signed then sb else ub in
      match lookup_index index signed SIZE with
      | None => None
      | Some k =>
          match lookup_export backend_exports k with
          | None => None
          | Some (fs, fSIZE) =>
              match lookup_inst to_c_instances fs fSIZE with
              | None => None
              | Some (rb, rs) =>
                  let (r, perr) := to_c_fn fs fSIZE rb rs v in
                  let x := cast (8 * size) signed r in               (* (type)... *)
                  match perr with
                  | Some e => if x =? cast (8 * size) signed (-1) then Some (CErr e) else Some (COk x)
                  | None => Some (COk x)
                  end
              end
          end
      end
  end.

Definition vengine_to_c_int := to_c_int_with vengine_to_c_int_dispatch vengine_export_index.
Definition include_to_c_int := to_c_int_with include_to_c_int_dispatch include_export_index.

(* _cffi_from_c_int(x, type), sizeof(long) = 8: every branch converts through a C type at
   least as wide as [type] and of suitable signedness, then builds the Python int *)
Definition from_c_int (size : Z) (signed : bool) (x : Z) : Z :=
  if negb signed then
    (if size <? 8 then cast 64 true x            (* PyLong_FromLong((long)x) *)
     else if size =? 8 then cast 64 false x      (* PyLong_FromUnsignedLong((unsigned long)x) *)
     else cast 64 false x)                       (* PyLong_FromUnsignedLongLong *)
  else
    (if size <=? 8 then cast 64 true x           (* PyLong_FromLong((long)x) *)
     else cast 64 true x).                       (* PyLong_FromLongLong *)

(* ------------------------------------------------------------------ (b) struct layouts *)
Inductive verr := VerificationError | BackendError (e : errclass).
Inductive vres := VOk (l : layout) | VErr (e : verr).

(* model.py:430-463, for named non-bitfield fields; a report size 0 stands for "T[]" *)
Fixpoint fixed_sizes_ok (fs : list (fdecl * frep)) : bool :=
  match fs with
  | [] => true
  | (d, r) :: fs' =>
      (if fd_size d <? 0 then fr_size r =? 0           (* assert fsize == 0 *)
       else fd_size d =? fr_size r) && fixed_sizes_ok fs'
  end.

(* partial struct: tp.fixedlayout = compiler's numbers; complete_struct_or_union(..., totalsize,
   totalalignment) with no flags *)
Definition verify_partial_struct (is_union : bool) (decl : list fdecl) (rep : report) : vres :=
  if fixed_sizes_ok (combine decl (r_fields rep)) then
    match complete 0 is_union (combine decl (map fr_off (r_fields rep))) (r_size rep) (r_align rep) with
    | Ok l => VOk l
    | Err e => VErr (BackendError e)
    end
  else VErr VerificationError.

(* non-partial struct: natural layout, then _loaded_struct_or_union's check() calls *)
Fixpoint fields_check (l : list (Z * Z)) (reps : list frep) : bool :=
  match l, reps with
  | [], [] => true
  | (o, s) :: l', r :: reps' =>
      (fr_off r =? o) && ((fr_size r =? 0) || (fr_size r =? s)) && fields_check l' reps'
  | _, _ => false
  end.

Definition verify_checked_struct (packed is_union : bool) (decl : list fdecl) (rep : report) : vres :=
  match natural packed is_union decl with
  | Err e => VErr (BackendError e)
  | Ok l =>
      if (r_size rep =? l_size l) && (r_align rep =? l_align l) && fields_check (l_fields l) (r_fields rep)
      then VOk l else VErr VerificationError
  end.

Definition vres_eqb (a b : vres) : bool :=
  match a, b with
  | VOk x, VOk y => layout_eqb x y
  | VErr VerificationError, VErr VerificationError => true
  | VErr (BackendError x), VErr (BackendError y) => err_eqb x y
  | _, _ => false
  end.

Definition cres_eqb (a b : option cres) : bool :=
  match a, b with
  | Some (COk x), Some (COk y) => x =? y
  | Some (CErr OverflowError), Some (CErr OverflowError) => true
  | Some (CErr TypeErrorPy), Some (CErr TypeErrorPy) => true
  | None, None => true
  | _, _ => false
  end.
