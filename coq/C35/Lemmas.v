(* Lemmas about the shared vocabulary of C35/Model.v (string equality, the for-loop combinator) that do not
   depend on any regenerated file; used by the proofs of C35, C32 and C23. *)
From Coq Require Import List NArith ZArith Bool.
Import ListNotations.
From Cffi Require Import C35.PyStr C35.Model.
Open Scope N_scope.

Lemma str_eqb_eq a : forall b, str_eqb a b = true <-> a = b.
Proof.
  induction a as [|x a IH]; destruct b as [|y b]; cbn; split; try discriminate; auto.
  - rewrite andb_true_iff, N.eqb_eq, IH. intros [-> ->]; auto.
  - intros H; inversion H; subst. rewrite andb_true_iff, N.eqb_eq, IH. auto.
Qed.

Lemma str_eqb_refl a : str_eqb a a = true.
Proof. apply str_eqb_eq; auto. Qed.

Lemma str_eqb_neq a b : a <> b -> str_eqb a b = false.
Proof. intros H. destruct (str_eqb a b) eqn:E; auto. apply str_eqb_eq in E. tauto. Qed.

Lemma py_for_cons {S X} (body : S -> X -> res S) x l st :
  py_for body (x :: l) st = bind (body st x) (py_for body l).
Proof.
  unfold py_for. cbn. destruct (body st x) as [s|e]; cbn; auto.
  induction l; cbn; auto.
Qed.

Lemma py_for_nil {S X} (body : S -> X -> res S) st : py_for body [] st = Ok st.
Proof. reflexivity. Qed.
