(* C35 — pkg-config output is translated to build keywords without loss.
   Statements only (proofs: C35/Proofs.v, C35/PyStr.v).  The functions merge_flags, get_*, kwargs,
   flags_from_pkgconfig, call_post are those of C35/Gen.v, regenerated from src/cffi/pkgconfig.py on
   every run; the vocabulary of the statements (kw, token_kw, stored, selected, tokenization) is
   C35/Spec.v and C35/PyStr.v.

   Reading recorded (DESIGN Appendix B): a prefix designates a keyword within its own stream:
   -I/-D are recognised in the --cflags output, -L/-l in the --libs output.
   `call` stands for pkgconfig.call as a function of (libname, flag); its own post-processing of
   the child's status and bytes is call_post. *)
From Coq Require Import List NArith ZArith Bool.
Import ListNotations.
From Cffi Require Import C35.PyStr C35.Model C35.Spec C35.Gen C35.Proofs C35.Proofs2.
Open Scope N_scope.

(* str.split() is the tokenisation into maximal whitespace-free runs, and nothing else is *)
Theorem C35_split_is_tokenization : forall s l, tokenization s l <-> l = py_split s.
Proof. intros s l. split; [apply py_split_unique | intros ->; apply py_split_spec]. Qed.
Print Assumptions C35_split_is_tokenization.

(* no character is lost by tokenisation *)
Theorem C35_split_keeps_characters : forall s,
  concat (py_split s) = filter (fun c => negb (is_space c)) s.
Proof. exact py_split_concat. Qed.
Print Assumptions C35_split_keeps_characters.

(* every token of a stream belongs to exactly one keyword, one of that stream *)
Theorem C35_token_partition : forall s t,
  (exists k, token_kw s t k /\ kw_stream k = s) /\
  (forall k1 k2, token_kw s t k1 -> token_kw s t k2 -> k1 = k2).
Proof. intros s t. split; [apply token_kw_total | apply token_kw_functional]. Qed.
Print Assumptions C35_token_partition.

(* flags_from_pkgconfig(libs): when every call succeeds, the result holds under each keyword k the
   order-preserving selection of k's tokens — prefix stripped, -D split at its first '=' — from the
   concatenation over libs, in call order, of the tokens of k's stream *)
Theorem C35_flags_from_pkgconfig : forall (call : str -> str -> res str) (libs : list str),
  (forall lib, In lib libs -> exists c l, call lib (stream_flag Cflags) = Ok c /\
                                          call lib (stream_flag Libs) = Ok l) ->
  exists r, flags_from_pkgconfig call libs = Ok r /\
    forall k, selected (fun t => token_kw (kw_stream k) t k) (stored k)
                (concat (map (fun lib => py_split (out call lib (kw_stream k))) libs))
                (lists_of r (kw_name k)).
Proof. exact flags_routes. Qed.
Print Assumptions C35_flags_from_pkgconfig.

(* the same result as a concatenation of per-package lists in call order *)
Theorem C35_flags_concat_in_call_order : forall (call : str -> str -> res str) (libs : list str),
  (forall lib, In lib libs -> exists c l, call lib (stream_flag Cflags) = Ok c /\
                                          call lib (stream_flag Libs) = Ok l) ->
  exists r, flags_from_pkgconfig call libs = Ok r /\
    forall k, lists_of r (kw_name k) =
              concat (map (fun lib => component k (out call lib (kw_stream k))) libs).
Proof. exact flags_concat. Qed.
Print Assumptions C35_flags_concat_in_call_order.

(* merge_flags concatenates per-key lists: cfg1's list first, then cfg2's; keys are united *)
Theorem C35_merge_flags_concat : forall c2 c1, wf_cfg c1 -> wf_cfg c2 -> all_lists c1 -> all_lists c2 ->
  exists c, merge_flags c1 c2 = Ok c /\ wf_cfg c /\ all_lists c /\
    (forall k, lists_of c k = lists_of c1 k ++ lists_of c2 k) /\
    (forall k, dict_in k c = dict_in k c1 || dict_in k c2).
Proof. exact merge_flags_concat. Qed.
Print Assumptions C35_merge_flags_concat.

(* merge_flags raises nothing but TypeError, and does so for a non-list on a shared key *)
Theorem C35_merge_flags_errors :
  (forall c1 c2 e, merge_flags c1 c2 = Err e -> e = TypeError) /\
  (forall c1 k v w, dict_get c1 k = Ok w -> is_list w = false \/ is_list v = false ->
                    merge_flags c1 [(k, v)] = Err TypeError).
Proof. split; [intros; eapply merge_flags_error; eauto | exact merge_flags_rejects_nonlist]. Qed.
Print Assumptions C35_merge_flags_errors.

(* a failing call makes flags_from_pkgconfig fail, with call's exception class *)
Theorem C35_failure_raises : forall (call : str -> str -> res str) libs,
  (forall lib s e, In lib libs -> call lib (stream_flag s) = Err e ->
                   exists e', flags_from_pkgconfig call libs = Err e') /\
  ((forall lib flag e0, call lib flag = Err e0 -> e0 = PkgConfigError) ->
   forall e, flags_from_pkgconfig call libs = Err e -> e = PkgConfigError).
Proof.
  intros call libs. split.
  - intros lib s e Hin H. eapply flags_failure_propagates; eauto.
  - intros H e. apply flags_error_is_pkgconfig; auto.
Qed.
Print Assumptions C35_failure_raises.

(* call(): the output is returned exactly when the child could be started, exited with status 0,
   its bytes decode, and (outside Windows) the text has no backslash; everything else is
   PkgConfigError *)
Theorem C35_call : forall decode alt sp,
  (forall s, call_post decode alt sp = Ok s <->
     exists b, sp = Some (0%Z, b) /\ decode b = Some s /\ (alt = true \/ py_contains_char 92 s = false)) /\
  (forall e, call_post decode alt sp = Err e -> e = PkgConfigError).
Proof. intros. split; [intros; apply call_post_ok_iff | intros; eapply call_post_error; eauto]. Qed.
Print Assumptions C35_call.

(* ---- end to end: the real call() = call_post (regenerated) applied to the child spawned with call_argv
   (regenerated), inside the regenerated flags_from_pkgconfig.  spawn (argv -> None | (status, stdout)) and decode
   (bytes -> str option) are arbitrary: the statements hold for every pkg-config and every codec. *)

(* whatever pkg-config does, flags_from_pkgconfig raises nothing but PkgConfigError: discharges the hypothesis of
   C35_failure_raises part 2 for the real call *)
Theorem C35_end_to_end_errors : forall spawn decode alt libs e,
  flags_from_pkgconfig (real_call spawn decode alt) libs = Err e -> e = PkgConfigError.
Proof. exact end_to_end_errors. Qed.
Print Assumptions C35_end_to_end_errors.

(* every run good (started, status 0, decodable to text lib s, no backslash outside Windows): the result routes the
   tokens of those texts, in call order *)
Theorem C35_end_to_end_ok : forall spawn decode alt libs (text : str -> stream -> str),
  (forall lib s, In lib libs -> good_run spawn decode alt lib s (text lib s)) ->
  exists r, flags_from_pkgconfig (real_call spawn decode alt) libs = Ok r /\
    forall k, selected (fun t => token_kw (kw_stream k) t k) (stored k)
                (concat (map (fun lib => py_split (text lib (kw_stream k))) libs))
                (lists_of r (kw_name k)).
Proof. exact end_to_end_ok. Qed.
Print Assumptions C35_end_to_end_ok.

(* "a failing or undecodable pkg-config run raises PkgConfigError": one run of one listed package that is not good
   (cannot be started / non-zero status / undecodable / backslash) makes the whole call raise PkgConfigError *)
Theorem C35_end_to_end_failure : forall spawn decode alt libs lib s,
  In lib libs -> (forall t, ~ good_run spawn decode alt lib s t) ->
  flags_from_pkgconfig (real_call spawn decode alt) libs = Err PkgConfigError.
Proof. exact end_to_end_failure. Qed.
Print Assumptions C35_end_to_end_failure.

(* the key set of the result: {} for no package; otherwise exactly the six keywords, each once, each a list *)
Theorem C35_result_keys : forall call libs r, flags_from_pkgconfig call libs = Ok r ->
  wf_cfg r /\ all_lists r /\
  (libs = [] -> r = []) /\
  (libs <> [] -> forall k, dict_in k r = true <-> exists kw, k = kw_name kw).
Proof. exact result_keys. Qed.
Print Assumptions C35_result_keys.

(* non-vacuity of good_run / real_call: a pkg-config that prints "-Ia" for --cflags and "-lz" for --libs *)
Example C35_example_end_to_end :
  let spawn := fun argv : list str => match argv with
                 | [_; _; flag; _] => if str_eqb flag (stream_flag Cflags) then Some (0%Z, [45;73;97]) else Some (0%Z, [45;108;122])
                 | _ => None end in
  flags_from_pkgconfig (real_call spawn (fun b => Some b) false) [[120]] =
  Ok [(kw_name IncludeDirs, VL [FStr [97]]); (kw_name LibraryDirs, VL []); (kw_name Libraries, VL [FStr [122]]);
      (kw_name DefineMacros, VL []); (kw_name ExtraCompileArgs, VL []); (kw_name ExtraLinkArgs, VL [])] /\
  flags_from_pkgconfig (real_call (fun _ => Some (1%Z, [])) (fun b => Some b) false) [[120]] = Err PkgConfigError.
Proof. vm_compute. split; reflexivity. Qed.

(* non-vacuity: two packages; "-I/a -DX=1=2 -DY -O2 -Ifoo" and "-L/l -lm -pthread" / "-Wall" and "-lz" *)
Example C35_example :
  let call := fun (lib flag : str) =>
    if str_eqb lib [97] then
      if str_eqb flag (stream_flag Cflags)
      then Ok [45;73;47;97;32;45;68;88;61;49;61;50;9;45;68;89;10;45;79;50;8195;45;73;102;111;111]
      else Ok [32;45;76;47;108;32;32;45;108;109;32;45;112;116;104;114;101;97;100;10]
    else
      if str_eqb flag (stream_flag Cflags) then Ok [45;87;97;108;108] else Ok [45;108;122] in
  flags_from_pkgconfig call [[97]; [98]] =
  Ok [(kw_name IncludeDirs, VL [FStr [47;97]; FStr [102;111;111]]);
      (kw_name LibraryDirs, VL [FStr [47;108]]);
      (kw_name Libraries, VL [FStr [109]; FStr [122]]);
      (kw_name DefineMacros, VL [FTuple [Some [88]; Some [49;61;50]]; FTuple [Some [89]; None]]);
      (kw_name ExtraCompileArgs, VL [FStr [45;79;50]; FStr [45;87;97;108;108]]);
      (kw_name ExtraLinkArgs, VL [FStr [45;112;116;104;114;101;97;100]])].
Proof. vm_compute. reflexivity. Qed.

Example C35_example_error :
  flags_from_pkgconfig (fun lib flag => if str_eqb lib [98] then Err PkgConfigError else Ok [45;120])
                       [[97]; [98]; [99]] = Err PkgConfigError.
Proof. vm_compute. reflexivity. Qed.
