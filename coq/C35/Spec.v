(* C35 — specification of the routing of pkg-config tokens, written from the property text
   (and DESIGN Appendix B: a prefix designates a keyword within its own stream), independently
   of the regenerated model.  Definitions only. *)
From Coq Require Import List NArith ZArith Bool.
Import ListNotations.
From Cffi Require Import C35.PyStr C35.Model.
Open Scope N_scope.

Inductive kw := IncludeDirs | LibraryDirs | Libraries | DefineMacros | ExtraCompileArgs | ExtraLinkArgs.

Definition kw_eqb (a b : kw) : bool :=
  match a, b with
  | IncludeDirs, IncludeDirs | LibraryDirs, LibraryDirs | Libraries, Libraries
  | DefineMacros, DefineMacros | ExtraCompileArgs, ExtraCompileArgs | ExtraLinkArgs, ExtraLinkArgs => true
  | _, _ => false
  end.

(* the keyword's name as a Python str (code points) *)
Definition kw_name (k : kw) : str :=
  match k with
  | IncludeDirs      => [105;110;99;108;117;100;101;95;100;105;114;115]                      (* include_dirs *)
  | LibraryDirs      => [108;105;98;114;97;114;121;95;100;105;114;115]                       (* library_dirs *)
  | Libraries        => [108;105;98;114;97;114;105;101;115]                                  (* libraries *)
  | DefineMacros     => [100;101;102;105;110;101;95;109;97;99;114;111;115]                   (* define_macros *)
  | ExtraCompileArgs => [101;120;116;114;97;95;99;111;109;112;105;108;101;95;97;114;103;115] (* extra_compile_args *)
  | ExtraLinkArgs    => [101;120;116;114;97;95;108;105;110;107;95;97;114;103;115]            (* extra_link_args *)
  end.

Definition all_kw := [IncludeDirs; LibraryDirs; Libraries; DefineMacros; ExtraCompileArgs; ExtraLinkArgs].

Inductive stream := Cflags | Libs.

(* the pkg-config option that produces the stream *)
Definition stream_flag (s : stream) : str :=
  match s with
  | Cflags => [45;45;99;102;108;97;103;115]      (* --cflags *)
  | Libs   => [45;45;108;105;98;115]             (* --libs *)
  end.

Definition kw_stream (k : kw) : stream :=
  match k with
  | IncludeDirs | DefineMacros | ExtraCompileArgs => Cflags
  | LibraryDirs | Libraries | ExtraLinkArgs => Libs
  end.

Definition has_prefix (a b : N) (t : str) : Prop := exists r, t = a :: b :: r.

(* which keyword a token of a stream belongs to: '-' is 45, I 73, D 68, L 76, l 108 *)
Inductive token_kw : stream -> str -> kw -> Prop :=
| tk_I t : has_prefix 45 73 t -> token_kw Cflags t IncludeDirs
| tk_D t : has_prefix 45 68 t -> token_kw Cflags t DefineMacros
| tk_C t : ~ has_prefix 45 73 t -> ~ has_prefix 45 68 t -> token_kw Cflags t ExtraCompileArgs
| tk_L t : has_prefix 45 76 t -> token_kw Libs t LibraryDirs
| tk_l t : has_prefix 45 108 t -> token_kw Libs t Libraries
| tk_X t : ~ has_prefix 45 76 t -> ~ has_prefix 45 108 t -> token_kw Libs t ExtraLinkArgs.

(* -Dname=value -> (name, value), split at the first '=' (61); -Dname -> (name, None) *)
Inductive macro_of : str -> flag -> Prop :=
| macro_plain body : ~ In 61 body -> macro_of body (FTuple [Some body; None])
| macro_value name value : ~ In 61 name ->
    macro_of (name ++ 61 :: value) (FTuple [Some name; Some value]).

(* what is stored for a token under its keyword: prefix stripped *)
Definition stored (k : kw) (t : str) (f : flag) : Prop :=
  match k with
  | IncludeDirs | LibraryDirs | Libraries => exists a b r, t = a :: b :: r /\ f = FStr r
  | DefineMacros => exists a b r, t = a :: b :: r /\ macro_of r f
  | ExtraCompileArgs | ExtraLinkArgs => f = FStr t
  end.

(* `sub` is the order-preserving selection of the elements of `l` that satisfy P, each
   related to its image by R: the statement "partitioned, order preserved" for one keyword *)
Inductive selected {A B} (P : A -> Prop) (R : A -> B -> Prop) : list A -> list B -> Prop :=
| sel_nil : selected P R [] []
| sel_take a b l m : P a -> R a b -> selected P R l m -> selected P R (a :: l) (b :: m)
| sel_skip a l m : ~ P a -> selected P R l m -> selected P R (a :: l) m.

(* the list stored in a config dictionary under a key ([] when absent or not a list) *)
Definition lists_of (c : cfg) (k : str) : list flag :=
  match dict_get c k with Ok (VL l) => l | _ => [] end.

Definition all_lists (c : cfg) := Forall (fun kv => is_list (snd kv) = true) c.
Definition wf_cfg (c : cfg) := NoDup (map fst c).
