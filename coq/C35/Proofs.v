(* C35 — proofs about the regenerated model C35/Gen.v against C35/Spec.v *)
From Coq Require Import List NArith ZArith Bool Lia.
Import ListNotations.
From Cffi Require Import C35.PyStr C35.Model C35.Lemmas C35.Spec C35.Gen.
Open Scope N_scope.

(* ------------------------------------------------------------------ dictionaries
   (str_eqb_eq, str_eqb_refl, py_for_cons, ...: C35/Lemmas.v, independent of Gen.v) *)
Lemma str_eq_dec (a b : str) : {a = b} + {a <> b}.
Proof. destruct (str_eqb a b) eqn:E; [left; apply str_eqb_eq; auto | right; intros ->; rewrite str_eqb_refl in E; discriminate]. Qed.

Lemma dict_in_get d k : dict_in k d = true <-> exists v, dict_get d k = Ok v.
Proof.
  induction d as [|[k' v'] d IH]; cbn.
  - split; [discriminate | intros [v H]; discriminate].
  - destruct (str_eqb k k'); cbn; [split; eauto|]. exact IH.
Qed.

Lemma dict_in_false_get d k : dict_in k d = false -> dict_get d k = Err KeyError.
Proof.
  induction d as [|[k' v'] d IH]; cbn; auto.
  destruct (str_eqb k k'); cbn; [discriminate|]. exact IH.
Qed.

Lemma dict_in_In d k : dict_in k d = true <-> In k (map fst d).
Proof.
  induction d as [|[k' v'] d IH]; cbn; [split; [discriminate|tauto]|].
  rewrite orb_true_iff, IH, str_eqb_eq. intuition.
Qed.

Lemma dict_get_set d k v k' :
  dict_get (dict_set d k v) k' = if str_eqb k' k then Ok v else dict_get d k'.
Proof.
  induction d as [|[k0 v0] d IH]; cbn.
  - destruct (str_eqb k' k); auto.
  - destruct (str_eqb k k0) eqn:E; cbn.
    + apply str_eqb_eq in E. subst k0. destruct (str_eqb k' k); auto.
    + destruct (str_eqb k' k0) eqn:E2; auto.
      apply str_eqb_eq in E2. subst k0.
      destruct (str_eqb k' k) eqn:E3; auto. apply str_eqb_eq in E3. subst.
      rewrite str_eqb_refl in E. discriminate.
Qed.

Lemma dict_set_keys_in d k v : dict_in k d = true -> map fst (dict_set d k v) = map fst d.
Proof.
  induction d as [|[k0 v0] d IH]; cbn; [discriminate|].
  destruct (str_eqb k k0) eqn:E; cbn; auto. intros H. rewrite IH; auto.
Qed.

Lemma dict_set_keys_new d k v : dict_in k d = false -> map fst (dict_set d k v) = map fst d ++ [k].
Proof.
  induction d as [|[k0 v0] d IH]; cbn; auto.
  destruct (str_eqb k k0) eqn:E; cbn; [discriminate|]. intros H. rewrite IH; auto.
Qed.

Lemma NoDup_snoc {A} (l : list A) k : NoDup l -> ~ In k l -> NoDup (l ++ [k]).
Proof.
  induction l as [|a l IH]; cbn; intros H Hn.
  - repeat constructor; auto.
  - inversion H; subst. constructor.
    + rewrite in_app_iff. cbn. intros [?|[?|[]]]; [tauto|]. subst. apply Hn. left; auto.
    + apply IH; auto.
Qed.

Lemma dict_set_wf d k v : wf_cfg d -> wf_cfg (dict_set d k v).
Proof.
  unfold wf_cfg. intros H. destruct (dict_in k d) eqn:E.
  - rewrite dict_set_keys_in; auto.
  - rewrite dict_set_keys_new; auto. apply NoDup_snoc; auto.
    intros Hin. apply dict_in_In in Hin. congruence.
Qed.

Lemma dict_set_all_lists d k l : all_lists d -> all_lists (dict_set d k (VL l)).
Proof.
  unfold all_lists. induction d as [|[k0 v0] d IH]; cbn; intros H.
  - constructor; auto.
  - inversion H; subst. destruct (str_eqb k k0); constructor; auto.
Qed.

Lemma all_lists_get d k v : all_lists d -> dict_get d k = Ok v -> exists l, v = VL l.
Proof.
  unfold all_lists. induction d as [|[k0 v0] d IH]; cbn; intros H E; [discriminate|].
  inversion H; subst. destruct (str_eqb k k0).
  - inversion E; subst. cbn in H2. destruct v; [eauto|discriminate].
  - eauto.
Qed.

Lemma lists_of_set d k l k' :
  lists_of (dict_set d k (VL l)) k' = if str_eqb k' k then l else lists_of d k'.
Proof. unfold lists_of. rewrite dict_get_set. destruct (str_eqb k' k); auto. Qed.

Lemma dict_in_set d k v k' : dict_in k' (dict_set d k v) = str_eqb k' k || dict_in k' d.
Proof.
  destruct (dict_in k' (dict_set d k v)) eqn:E.
  - apply dict_in_get in E. destruct E as [w E]. rewrite dict_get_set in E.
    destruct (str_eqb k' k); auto. cbn. symmetry. apply dict_in_get. eauto.
  - apply dict_in_false_get in E. rewrite dict_get_set in E.
    destruct (str_eqb k' k); [discriminate|]. cbn.
    destruct (dict_in k' d) eqn:E2; auto. apply dict_in_get in E2. destruct E2 as [w E2]. congruence.
Qed.

(* ------------------------------------------------------------------ merge_flags *)

(* one iteration of the loop of merge_flags on list-valued dictionaries *)
Definition merge_body (cfg1 : cfg) (kv : str * cfgval) : res cfg :=
  let '(key, value) := kv in
  if negb (dict_in key cfg1) then Ok (dict_set cfg1 key value)
  else bind (dict_get cfg1 key) (fun t1 =>
       if negb (is_list t1) then Err TypeError
       else if negb (is_list value) then Err TypeError
       else bind (dict_get cfg1 key) (fun t2 =>
            bind (val_extend t2 value) (fun t3 => Ok (dict_set cfg1 key t3)))).

Lemma merge_flags_unfold c1 c2 :
  merge_flags c1 c2 = bind (py_for merge_body (dict_items c2) c1) (fun c => Ok c).
Proof. reflexivity. Qed.

Lemma merge_body_lists c1 k l : all_lists c1 ->
  merge_body c1 (k, VL l) = Ok (dict_set c1 k (VL (lists_of c1 k ++ l))) /\
  (dict_in k c1 = false -> lists_of c1 k = []).
Proof.
  intros Hl. unfold merge_body, lists_of. destruct (dict_in k c1) eqn:E; cbn.
  - apply dict_in_get in E. destruct E as [v E]. rewrite E. cbn.
    destruct (all_lists_get _ _ _ Hl E) as [l0 ->]. cbn. split; [auto|discriminate].
  - rewrite (dict_in_false_get _ _ E). cbn. auto.
Qed.

Theorem merge_flags_concat : forall c2 c1, wf_cfg c1 -> wf_cfg c2 -> all_lists c1 -> all_lists c2 ->
  exists c, merge_flags c1 c2 = Ok c /\ wf_cfg c /\ all_lists c /\
    (forall k, lists_of c k = lists_of c1 k ++ lists_of c2 k) /\
    (forall k, dict_in k c = dict_in k c1 || dict_in k c2).
Proof.
  intros c2 c1 W1 W2 L1 L2. rewrite merge_flags_unfold. unfold dict_items.
  revert c1 W1 L1. induction c2 as [|[k0 v0] c2 IH]; intros c1 W1 L1.
  - exists c1. split; [reflexivity|]. repeat split; auto.
    + intros k. change (lists_of [] k) with (@nil flag). rewrite app_nil_r. auto.
    + intros k. change (dict_in k []) with false. rewrite orb_false_r. auto.
  - inversion L2 as [|? ? Hv0 L2']; subst. cbn in Hv0. destruct v0 as [l0|]; [|discriminate].
    unfold wf_cfg in W2. cbn in W2. inversion W2 as [|? ? Hnin W2']; subst.
    rewrite py_for_cons. destruct (merge_body_lists c1 k0 l0 L1) as [-> Hnew]. cbn [bind].
    destruct (IH W2' L2' (dict_set c1 k0 (VL (lists_of c1 k0 ++ l0)))) as [c [E [Wc [Lc [Hc Hin]]]]].
    { apply dict_set_wf; auto. } { apply dict_set_all_lists; auto. }
    exists c. repeat split; auto.
    + intros k. rewrite Hc, lists_of_set.
      replace (lists_of ((k0, VL l0) :: c2) k) with (if str_eqb k k0 then l0 else lists_of c2 k)
        by (unfold lists_of; cbn [dict_get]; destruct (str_eqb k k0); auto).
      destruct (str_eqb k k0) eqn:Ek.
      * apply str_eqb_eq in Ek. subst k0.
        assert (dict_in k c2 = false) as Hf.
        { destruct (dict_in k c2) eqn:X; auto. apply dict_in_In in X. tauto. }
        assert (lists_of c2 k = []) as -> by (unfold lists_of; rewrite (dict_in_false_get _ _ Hf); auto).
        rewrite app_nil_r. auto.
      * reflexivity.
    + intros k. rewrite Hin, dict_in_set.
      replace (dict_in k ((k0, VL l0) :: c2)) with (str_eqb k k0 || dict_in k c2) by reflexivity.
      destruct (str_eqb k k0), (dict_in k c1), (dict_in k c2); auto.
Qed.

(* an exception of merge_flags is a TypeError, and it is raised only for a key present in both
   dictionaries whose value is not a list in one of them *)
Lemma merge_body_err c1 k v e : merge_body c1 (k, v) = Err e ->
  e = TypeError /\ dict_in k c1 = true /\
  ((exists w, dict_get c1 k = Ok w /\ is_list w = false) \/ is_list v = false).
Proof.
  unfold merge_body. destruct (dict_in k c1) eqn:E; cbn; [|discriminate].
  apply dict_in_get in E. destruct E as [w E]. rewrite E. cbn.
  destruct (is_list w) eqn:Lw; cbn.
  - destruct (is_list v) eqn:Lv; cbn.
    + destruct w, v; try discriminate.
    + intros H; inversion H; auto.
  - intros H; inversion H. repeat split; auto. left. eauto.
Qed.

Theorem merge_flags_error : forall c2 c1 e, merge_flags c1 c2 = Err e -> e = TypeError.
Proof.
  intros c2 c1 e. rewrite merge_flags_unfold. unfold dict_items.
  revert c1. induction c2 as [|[k0 v0] c2 IH]; intros c1; [discriminate|].
  rewrite py_for_cons. destruct (merge_body c1 (k0, v0)) as [c|e0] eqn:E; cbn [bind].
  - apply IH.
  - cbn. intros H. inversion H; subst. apply merge_body_err in E. tauto.
Qed.

Theorem merge_flags_rejects_nonlist : forall c1 k v w,
  dict_get c1 k = Ok w -> is_list w = false \/ is_list v = false ->
  merge_flags c1 [(k, v)] = Err TypeError.
Proof.
  intros c1 k v w Hg Hn. rewrite merge_flags_unfold. unfold dict_items.
  rewrite py_for_cons. unfold merge_body.
  assert (dict_in k c1 = true) as -> by (apply dict_in_get; eauto).
  cbn. rewrite Hg. cbn. destruct Hn as [-> | Hv]; cbn; auto.
  destruct (is_list w); cbn; auto. rewrite Hv. auto.
Qed.

(* ------------------------------------------------------------------ routing of tokens *)

Lemma startswith2 a b t : py_startswith t [a; b] = true <-> has_prefix a b t.
Proof.
  rewrite py_startswith_spec. unfold has_prefix. split; intros [r H]; exists r; exact H.
Qed.

Lemma startswith2_false a b t : py_startswith t [a; b] = false <-> ~ has_prefix a b t.
Proof.
  rewrite <- startswith2. destruct (py_startswith t [a; b]); split; intros H; try discriminate; auto.
  exfalso. apply H. reflexivity.
Qed.

Lemma macro_spec r : macro_of r (get_macros_macro (45 :: 68 :: r)).
Proof.
  unfold get_macros_macro, py_slice_from. cbn [skipn].
  destruct (py_contains_char 61 r) eqn:E.
  - destruct (py_split1_spec _ _ E) as [a [b [-> [-> Hn]]]]. cbn. apply macro_value. auto.
  - apply macro_plain. intros Hin. unfold py_contains_char in E.
    assert (existsb (N.eqb 61) r = true) as X; [|congruence].
    apply existsb_exists. exists 61. split; auto.
Qed.

Lemma selected_listcomp {A B} (P : A -> Prop) (R : A -> B -> Prop) (e : A -> B) (c : A -> bool) l :
  (forall a, c a = true -> P a /\ R a (e a)) -> (forall a, c a = false -> ~ P a) ->
  selected P R l (py_listcomp e c l).
Proof.
  intros H1 H2. unfold py_listcomp. induction l as [|a l IH]; cbn; [constructor|].
  destruct (c a) eqn:E; cbn.
  - destruct (H1 _ E). apply sel_take; auto.
  - apply sel_skip; auto.
Qed.

Lemma selected_map {A B C} (P : A -> Prop) (R : A -> B -> Prop) (g : B -> C) (R' : A -> C -> Prop) l m :
  (forall a b, R a b -> R' a (g b)) -> selected P R l m -> selected P R' l (map g m).
Proof. intros H. induction 1; cbn; [constructor | apply sel_take; auto | apply sel_skip; auto]. Qed.

(* the list built for keyword k from the text of k's stream *)
Definition component (k : kw) (text : str) : list flag :=
  match k with
  | IncludeDirs => map FStr (get_include_dirs text)
  | LibraryDirs => map FStr (get_library_dirs text)
  | Libraries => map FStr (get_libraries text)
  | DefineMacros => get_macros text
  | ExtraCompileArgs => map FStr (get_other_cflags text)
  | ExtraLinkArgs => map FStr (get_other_libs text)
  end.

Theorem component_routes : forall k text,
  selected (fun t => token_kw (kw_stream k) t k) (stored k) (py_split text) (component k text).
Proof.
  intros k text. destruct k; cbn [component kw_stream].
  - (* -I *) eapply selected_map with (R := fun t r => exists a b, t = a :: b :: r).
    { intros a b [x [y ->]]. cbn. eauto. }
    apply selected_listcomp.
    + intros t H. apply startswith2 in H. split; [constructor; auto|].
      destruct H as [r ->]. cbn. eauto.
    + intros t H. apply startswith2_false in H. intros X. inversion X; subst; tauto.
  - (* -L *) eapply selected_map with (R := fun t r => exists a b, t = a :: b :: r).
    { intros a b [x [y ->]]. cbn. eauto. }
    apply selected_listcomp.
    + intros t H. apply startswith2 in H. split; [constructor; auto|].
      destruct H as [r ->]. cbn. eauto.
    + intros t H. apply startswith2_false in H. intros X. inversion X; subst; tauto.
  - (* -l *) eapply selected_map with (R := fun t r => exists a b, t = a :: b :: r).
    { intros a b [x [y ->]]. cbn. eauto. }
    apply selected_listcomp.
    + intros t H. apply startswith2 in H. split; [constructor; auto|].
      destruct H as [r ->]. cbn. eauto.
    + intros t H. apply startswith2_false in H. intros X. inversion X; subst; tauto.
  - (* -D *) apply selected_listcomp.
    + intros t H. apply startswith2 in H. split; [constructor; auto|].
      destruct H as [r ->]. cbn. exists 45, 68, r. split; auto. apply macro_spec.
    + intros t H. apply startswith2_false in H. intros X. inversion X; subst; tauto.
  - (* other cflags *) eapply selected_map with (R := fun t r => r = t).
    { intros a b ->. reflexivity. }
    apply selected_listcomp.
    + intros t H. apply andb_true_iff in H. destruct H as [H1 H2].
      apply negb_true_iff in H1, H2. apply startswith2_false in H1, H2. split; auto. constructor; auto.
    + intros t H X. inversion X; subst. apply andb_false_iff in H.
      destruct H as [H|H]; apply negb_false_iff in H; apply startswith2 in H; tauto.
  - (* other libs *) eapply selected_map with (R := fun t r => r = t).
    { intros a b ->. reflexivity. }
    apply selected_listcomp.
    + intros t H. apply andb_true_iff in H. destruct H as [H1 H2].
      apply negb_true_iff in H1, H2. apply startswith2_false in H1, H2. split; auto. constructor; auto.
    + intros t H X. inversion X; subst. apply andb_false_iff in H.
      destruct H as [H|H]; apply negb_false_iff in H; apply startswith2 in H; tauto.
Qed.

(* every token of a stream belongs to exactly one keyword of that stream *)
Theorem token_kw_total s t : exists k, token_kw s t k /\ kw_stream k = s.
Proof.
  destruct s.
  - destruct (py_startswith t [45; 73]) eqn:E1.
    + apply startswith2 in E1. exists IncludeDirs. split; [constructor|]; auto.
    + destruct (py_startswith t [45; 68]) eqn:E2.
      * apply startswith2 in E2. exists DefineMacros. split; [constructor|]; auto.
      * apply startswith2_false in E1, E2. exists ExtraCompileArgs. split; [constructor|]; auto.
  - destruct (py_startswith t [45; 76]) eqn:E1.
    + apply startswith2 in E1. exists LibraryDirs. split; [constructor|]; auto.
    + destruct (py_startswith t [45; 108]) eqn:E2.
      * apply startswith2 in E2. exists Libraries. split; [constructor|]; auto.
      * apply startswith2_false in E1, E2. exists ExtraLinkArgs. split; [constructor|]; auto.
Qed.

Theorem token_kw_functional s t k1 k2 : token_kw s t k1 -> token_kw s t k2 -> k1 = k2.
Proof.
  intros H1 H2. inversion H1; subst; inversion H2; subst; auto; try tauto;
    repeat match goal with H : has_prefix _ _ _ |- _ => destruct H as [? H] end; subst;
    match goal with H : _ :: _ :: _ = _ :: _ :: _ |- _ => inversion H end.
Qed.

Lemma token_kw_stream s t k : token_kw s t k -> kw_stream k = s.
Proof. destruct 1; reflexivity. Qed.

(* ------------------------------------------------------------------ kwargs / flags_from_pkgconfig *)
Section WithCall.
Variable call : str -> str -> res str.

Definition kwargs_dict (cflags libs : str) : cfg :=
  map (fun k => (kw_name k, VL (component k (match kw_stream k with Cflags => cflags | Libs => libs end)))) all_kw.

Lemma kw_name_inj k1 k2 : kw_name k1 = kw_name k2 -> k1 = k2.
Proof. destruct k1, k2; cbn; intros H; try reflexivity; discriminate. Qed.

Lemma kwargs_ok lib cflags libs :
  call lib (stream_flag Cflags) = Ok cflags -> call lib (stream_flag Libs) = Ok libs ->
  exists c, kwargs call lib = Ok c /\ wf_cfg c /\ all_lists c /\
            forall k, lists_of c (kw_name k) =
                      component k (match kw_stream k with Cflags => cflags | Libs => libs end).
Proof.
  intros H1 H2. unfold kwargs. cbn [stream_flag] in H1, H2. rewrite H1. cbn [bind]. rewrite H2. cbn [bind].
  eexists. split; [reflexivity|]. split; [|split].
  - unfold wf_cfg. cbn. repeat constructor; cbn; intuition discriminate.
  - repeat constructor.
  - intros k. destruct k; reflexivity.
Qed.

Lemma kwargs_err lib e : kwargs call lib = Err e ->
  call lib (stream_flag Cflags) = Err e \/ call lib (stream_flag Libs) = Err e.
Proof.
  unfold kwargs. cbn [stream_flag].
  destruct (call lib [45; 45; 99; 102; 108; 97; 103; 115]) as [c|e1]; cbn [bind].
  - destruct (call lib [45; 45; 108; 105; 98; 115]) as [l|e2]; cbn [bind]; [discriminate|].
    intros H; inversion H; auto.
  - intros H; inversion H; auto.
Qed.

Lemma kwargs_ok_inv lib c : kwargs call lib = Ok c ->
  exists cflags libs, call lib (stream_flag Cflags) = Ok cflags /\ call lib (stream_flag Libs) = Ok libs.
Proof.
  unfold kwargs. cbn [stream_flag].
  destruct (call lib [45; 45; 99; 102; 108; 97; 103; 115]) as [cf|e1]; cbn [bind]; [|discriminate].
  destruct (call lib [45; 45; 108; 105; 98; 115]) as [l|e2]; cbn [bind]; [|discriminate]. eauto.
Qed.

Definition loop_body (ret : cfg) (libname : str) : res cfg :=
  bind (kwargs call libname) (fun t => bind (merge_flags ret t) (fun ret => Ok ret)).

Lemma flags_unfold libs :
  flags_from_pkgconfig call libs = bind (py_for loop_body libs []) (fun r => Ok r).
Proof. reflexivity. Qed.

Lemma bind_ok_id {A} (x : res A) : bind x (fun r => Ok r) = x.
Proof. destruct x; auto. Qed.

(* output of a package for stream s (only used for packages whose calls succeed) *)
Definition out (lib : str) (s : stream) : str :=
  match call lib (stream_flag s) with Ok t => t | Err _ => [] end.

Lemma loop_from : forall libs acc, wf_cfg acc -> all_lists acc ->
  (forall lib, In lib libs -> exists c l, call lib (stream_flag Cflags) = Ok c /\ call lib (stream_flag Libs) = Ok l) ->
  exists r, py_for loop_body libs acc = Ok r /\ wf_cfg r /\ all_lists r /\
    forall k, lists_of r (kw_name k) =
              lists_of acc (kw_name k) ++ concat (map (fun lib => component k (out lib (kw_stream k))) libs).
Proof.
  induction libs as [|lib libs IH]; intros acc W L Hc.
  - exists acc. cbn. repeat split; auto. intros k. rewrite app_nil_r. auto.
  - rewrite py_for_cons. destruct (Hc lib (or_introl eq_refl)) as [cf [lf [H1 H2]]].
    destruct (kwargs_ok lib cf lf H1 H2) as [c [Ek [Wc [Lc Hk]]]].
    unfold loop_body at 1. rewrite Ek. cbn [bind]. rewrite bind_ok_id.
    destruct (merge_flags_concat c acc W Wc L Lc) as [m [Em [Wm [Lm [Hm _]]]]].
    rewrite Em. cbn [bind].
    destruct (IH m Wm Lm) as [r [Er [Wr [Lr Hr]]]]. { intros; apply Hc; right; auto. }
    exists r. repeat split; auto. intros k. rewrite Hr, Hm, Hk. cbn [map concat].
    rewrite <- app_assoc. f_equal. f_equal. unfold out. destruct (kw_stream k); [rewrite H1 | rewrite H2]; auto.
Qed.

Theorem flags_concat : forall libs,
  (forall lib, In lib libs -> exists c l, call lib (stream_flag Cflags) = Ok c /\ call lib (stream_flag Libs) = Ok l) ->
  exists r, flags_from_pkgconfig call libs = Ok r /\
    forall k, lists_of r (kw_name k) = concat (map (fun lib => component k (out lib (kw_stream k))) libs).
Proof.
  intros libs Hc. rewrite flags_unfold, bind_ok_id.
  destruct (loop_from libs [] (NoDup_nil _) (Forall_nil _) Hc) as [r [E [_ [_ H]]]].
  exists r. split; auto.
Qed.

Lemma selected_app {A B} (P : A -> Prop) (R : A -> B -> Prop) l1 m1 l2 m2 :
  selected P R l1 m1 -> selected P R l2 m2 -> selected P R (l1 ++ l2) (m1 ++ m2).
Proof. induction 1; cbn; intros; [auto | apply sel_take; auto | apply sel_skip; auto]. Qed.

(* the statement of the property for flags_from_pkgconfig: for every keyword, the list returned is
   the order-preserving selection of that keyword's tokens from the concatenation, in call order,
   of the token lists of the packages' streams *)
Theorem flags_routes : forall libs,
  (forall lib, In lib libs -> exists c l, call lib (stream_flag Cflags) = Ok c /\ call lib (stream_flag Libs) = Ok l) ->
  exists r, flags_from_pkgconfig call libs = Ok r /\
    forall k, selected (fun t => token_kw (kw_stream k) t k) (stored k)
                (concat (map (fun lib => py_split (out lib (kw_stream k))) libs))
                (lists_of r (kw_name k)).
Proof.
  intros libs Hc. destruct (flags_concat libs Hc) as [r [E H]]. exists r. split; auto.
  intros k. rewrite H. clear. induction libs as [|lib libs IH]; cbn; [constructor|].
  apply selected_app; auto. apply component_routes.
Qed.

(* failures *)
Lemma py_for_err_inv : forall libs acc e, py_for loop_body libs acc = Err e ->
  exists lib, In lib libs /\ (kwargs call lib = Err e \/ e = TypeError).
Proof.
  induction libs as [|lib libs IH]; intros acc e; [discriminate|].
  rewrite py_for_cons. unfold loop_body at 1.
  destruct (kwargs call lib) as [c|e1] eqn:Ek; cbn [bind].
  - rewrite bind_ok_id. destruct (merge_flags acc c) as [m|e2] eqn:Em; cbn [bind].
    + intros H. destruct (IH _ _ H) as [l [Hin Hl]]. exists l. split; [right|]; auto.
    + intros H. inversion H; subst. exists lib. split; [left; auto|]. right.
      eapply merge_flags_error; eauto.
  - intros H. inversion H; subst. exists lib. split; [left|]; auto.
Qed.

Theorem flags_failure_propagates : forall libs lib e s,
  In lib libs -> call lib (stream_flag s) = Err e ->
  exists e', flags_from_pkgconfig call libs = Err e'.
Proof.
  intros libs lib e s Hin Hc. rewrite flags_unfold, bind_ok_id.
  assert (exists e1, kwargs call lib = Err e1) as [e1 Hk].
  { destruct (kwargs call lib) as [c|e1] eqn:E; eauto.
    apply kwargs_ok_inv in E. destruct E as [cf [lf [H1 H2]]]. destruct s; congruence. }
  generalize (@nil (str * cfgval)). induction libs as [|l0 libs IH]; intros acc; [destruct Hin|].
  rewrite py_for_cons. destruct Hin as [->|Hin].
  - unfold loop_body. rewrite Hk. cbn. eauto.
  - destruct (loop_body acc l0) as [m|e2]; cbn [bind]; eauto.
Qed.

End WithCall.

(* an exception of flags_from_pkgconfig is one of call()'s when the accumulated values are lists
   (they are: flags_routes); stated for calls that only raise PkgConfigError *)
Theorem flags_error_is_pkgconfig : forall call libs e,
  (forall lib flag e0, call lib flag = Err e0 -> e0 = PkgConfigError) ->
  flags_from_pkgconfig call libs = Err e -> e = PkgConfigError.
Proof.
  intros call libs e Hcall. rewrite flags_unfold, bind_ok_id.
  (* invariant: the accumulator is well-formed and list-valued, so merge_flags cannot fail *)
  assert (forall libs acc, wf_cfg acc -> all_lists acc ->
            py_for (loop_body call) libs acc = Err e -> e = PkgConfigError) as X.
  { clear libs. induction libs as [|lib libs IH]; intros acc W L; [discriminate|].
    rewrite py_for_cons. unfold loop_body at 1.
    destruct (kwargs call lib) as [c|e1] eqn:Ek; cbn [bind].
    - destruct (kwargs_ok_inv call _ _ Ek) as [cf [lf [H1 H2]]].
      destruct (kwargs_ok call lib cf lf H1 H2) as [c' [Ek' [Wc [Lc _]]]].
      rewrite Ek in Ek'. inversion Ek'; subst c'.
      rewrite bind_ok_id.
      destruct (merge_flags_concat c acc W Wc L Lc) as [m [Em [Wm [Lm _]]]]. rewrite Em. cbn [bind].
      apply IH; auto.
    - intros H. inversion H; subst. apply kwargs_err in Ek. destruct Ek as [Ek|Ek]; eapply Hcall; eauto. }
  apply X; [apply NoDup_nil | apply Forall_nil].
Qed.

(* ------------------------------------------------------------------ call() *)
Theorem call_post_ok_iff : forall decode alt sp s,
  call_post decode alt sp = Ok s <->
  exists b, sp = Some (0%Z, b) /\ decode b = Some s /\ (alt = true \/ py_contains_char 92 s = false).
Proof.
  intros decode alt sp s. unfold call_post. destruct sp as [[rc b]|].
  - destruct (Z.eqb rc 0) eqn:Erc; cbn.
    + apply Z.eqb_eq in Erc. subst. destruct (decode b) as [s'|] eqn:Ed.
      * destruct alt; cbn.
        -- split; [intros H; inversion H; subst; eauto|].
           intros [b' [H1 [H2 _]]]. inversion H1; subst. congruence.
        -- destruct (py_contains_char 92 s') eqn:Ebs.
           ++ split; [discriminate|]. intros [b' [H1 [H2 [H3|H3]]]]; [discriminate|].
              inversion H1; subst. congruence.
           ++ split; [intros H; inversion H; subst; eauto|].
              intros [b' [H1 [H2 _]]]. inversion H1; subst. congruence.
      * split; [discriminate|]. intros [b' [H1 [H2 _]]]. inversion H1; subst. congruence.
    + split; [discriminate|]. intros [b' [H1 _]]. inversion H1; subst. discriminate.
  - split; [discriminate|]. intros [b' [H1 _]]. discriminate.
Qed.

Theorem call_post_error : forall decode alt sp e, call_post decode alt sp = Err e -> e = PkgConfigError.
Proof.
  intros decode alt sp e. unfold call_post. destruct sp as [[rc b]|]; [|intros H; inversion H; auto].
  destruct (negb (Z.eqb rc 0)); [intros H; inversion H; auto|].
  destruct (decode b); [|intros H; inversion H; auto].
  destruct (negb alt && py_contains_char 92 s); intros H; inversion H; auto.
Qed.
