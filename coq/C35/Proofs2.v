(* C35 — composition of the regenerated pieces: the real call() = call_post applied to the child spawned with
   call_argv, inside flags_from_pkgconfig; and the key set of the result. *)
From Coq Require Import List NArith ZArith Bool.
Import ListNotations.
From Cffi Require Import C35.PyStr C35.Model C35.Lemmas C35.Spec C35.Gen C35.Proofs.
Open Scope N_scope.

(* pkgconfig.call(libname, flag): spawn pkg-config with call_argv, post-process (status, stdout) with call_post.
   spawn = subprocess.Popen(...).communicate() + returncode as a function of argv (None: EnvironmentError). *)
Definition real_call (spawn : list str -> spawn_result) (decode : list N -> option str) (alt : bool)
    (lib flag : str) : res str :=
  call_post decode alt (spawn (call_argv lib flag)).

Theorem end_to_end_errors : forall spawn decode alt libs e,
  flags_from_pkgconfig (real_call spawn decode alt) libs = Err e -> e = PkgConfigError.
Proof.
  intros spawn decode alt libs e. apply flags_error_is_pkgconfig.
  intros lib flag e0. unfold real_call. apply call_post_error.
Qed.

Definition good_run (spawn : list str -> spawn_result) (decode : list N -> option str) (alt : bool)
    (lib : str) (s : stream) (t : str) : Prop :=
  exists b, spawn (call_argv lib (stream_flag s)) = Some (0%Z, b) /\ decode b = Some t /\
            (alt = true \/ py_contains_char 92 t = false).

Lemma good_run_call spawn decode alt lib s t : good_run spawn decode alt lib s t ->
  real_call spawn decode alt lib (stream_flag s) = Ok t.
Proof. intros G. unfold real_call. apply call_post_ok_iff. exact G. Qed.

Theorem end_to_end_ok : forall spawn decode alt libs (text : str -> stream -> str),
  (forall lib s, In lib libs -> good_run spawn decode alt lib s (text lib s)) ->
  exists r, flags_from_pkgconfig (real_call spawn decode alt) libs = Ok r /\
    forall k, selected (fun t => token_kw (kw_stream k) t k) (stored k)
                (concat (map (fun lib => py_split (text lib (kw_stream k))) libs))
                (lists_of r (kw_name k)).
Proof.
  intros spawn decode alt libs text H.
  destruct (flags_routes (real_call spawn decode alt) libs) as [r [E S]].
  - intros lib I. exists (text lib Cflags), (text lib Libs). split; apply good_run_call; auto.
  - exists r. split; auto. intros k.
    replace (concat (map (fun lib => py_split (text lib (kw_stream k))) libs))
      with (concat (map (fun lib => py_split (out (real_call spawn decode alt) lib (kw_stream k))) libs)); [apply S|].
    f_equal. apply map_ext_in. intros lib I. unfold out. rewrite (good_run_call _ _ _ _ _ _ (H lib (kw_stream k) I)). reflexivity.
Qed.

(* an error of the whole is the error of some call, and conversely the first failing call decides *)
Theorem end_to_end_failure : forall spawn decode alt libs lib s,
  In lib libs -> (forall t, ~ good_run spawn decode alt lib s t) ->
  flags_from_pkgconfig (real_call spawn decode alt) libs = Err PkgConfigError.
Proof.
  intros spawn decode alt libs lib s I N.
  destruct (real_call spawn decode alt lib (stream_flag s)) as [t|e0] eqn:E.
  - exfalso. apply (N t). unfold real_call in E. apply call_post_ok_iff in E. exact E.
  - destruct (flags_failure_propagates _ libs lib e0 s I E) as [e' H].
    rewrite H. f_equal. eapply end_to_end_errors; eauto.
Qed.

(* ------------------------------------------------------------------ the key set of the result *)
Definition is_kw_name (k : str) : bool := existsb (fun kw => str_eqb k (kw_name kw)) all_kw.
Definition is_nil {A} (l : list A) : bool := match l with [] => true | _ => false end.

Lemma Ok_inj {A} (a b : A) : Ok a = Ok b -> a = b.
Proof. congruence. Qed.

Lemma kwargs_keys call lib c : kwargs call lib = Ok c -> map fst c = map kw_name all_kw.
Proof.
  unfold kwargs.
  destruct (call lib [45; 45; 99; 102; 108; 97; 103; 115]) as [cf|e1]; cbn [bind]; [|discriminate].
  destruct (call lib [45; 45; 108; 105; 98; 115]) as [l|e2]; cbn [bind]; [|discriminate].
  intros H. apply Ok_inj in H. subst c. reflexivity.
Qed.

Lemma dict_in_keys k (d : cfg) : dict_in k d = existsb (str_eqb k) (map fst d).
Proof. unfold dict_in. induction d as [|kv d IH]; cbn; [auto|]. now rewrite IH. Qed.

Lemma kwargs_dict_in call lib c k : kwargs call lib = Ok c -> dict_in k c = is_kw_name k.
Proof.
  intros H. rewrite dict_in_keys, (kwargs_keys _ _ _ H). unfold is_kw_name.
  induction all_kw as [|a l IH]; cbn; [auto|]. now rewrite IH.
Qed.

Lemma loop_keys call : forall libs acc r, wf_cfg acc -> all_lists acc ->
  py_for (loop_body call) libs acc = Ok r ->
  wf_cfg r /\ all_lists r /\ forall k, dict_in k r = dict_in k acc || (negb (is_nil libs) && is_kw_name k).
Proof.
  induction libs as [|lib libs IH]; intros acc r W L H.
  - rewrite py_for_nil in H. apply Ok_inj in H. subst r. repeat split; auto. intros k. cbn. now rewrite orb_false_r.
  - rewrite py_for_cons in H. unfold loop_body at 1 in H.
    destruct (kwargs call lib) as [c|e1] eqn:Ek; cbn [bind] in H; [|discriminate].
    destruct (kwargs_ok_inv call _ _ Ek) as [cf [lf [H1 H2]]].
    destruct (kwargs_ok call lib cf lf H1 H2) as [c' [Ek' [Wc [Lc _]]]].
    rewrite Ek in Ek'. apply Ok_inj in Ek'. subst c'.
    rewrite bind_ok_id in H.
    destruct (merge_flags_concat c acc W Wc L Lc) as [m [Em [Wm [Lm [_ Hin]]]]]. rewrite Em in H. cbn [bind] in H.
    destruct (IH m r Wm Lm H) as [Wr [Lr Hr]]. repeat split; auto.
    intros k. rewrite Hr, Hin, (kwargs_dict_in _ _ _ k Ek). cbn [is_nil negb andb].
    destruct (dict_in k acc), (is_kw_name k), (is_nil libs); reflexivity.
Qed.

Theorem result_keys : forall call libs r, flags_from_pkgconfig call libs = Ok r ->
  wf_cfg r /\ all_lists r /\
  (libs = [] -> r = []) /\
  (libs <> [] -> forall k, dict_in k r = true <-> exists kw, k = kw_name kw).
Proof.
  intros call libs r H. rewrite flags_unfold, bind_ok_id in H.
  destruct (loop_keys call libs [] r (NoDup_nil _) (Forall_nil _) H) as [W [L K]].
  repeat split; auto.
  - intros ->. rewrite py_for_nil in H. apply Ok_inj in H. auto.
  - intros Hk. rewrite K in Hk. cbn [dict_in existsb orb] in Hk. apply andb_true_iff in Hk. destruct Hk as [_ Hk].
    unfold is_kw_name in Hk. apply existsb_exists in Hk. destruct Hk as [kw [_ E]]. exists kw. now apply str_eqb_eq.
  - intros [kw ->]. rewrite K. cbn [dict_in existsb orb]. destruct libs; [congruence|]. cbn [is_nil negb andb].
    unfold is_kw_name. apply existsb_exists. exists kw. split; [destruct kw; cbn; auto 10|apply str_eqb_refl].
Qed.
