(* Python string primitives used by the code translated for C35 / C32 (tools/props/c35_trans.py).
   str is modelled as the list of its code points.  Every definition here is run against CPython
   on generated inputs at the start of each check (micro-suite in tools/props/c35.py: pystr_suite).

   Definitions first, then the lemmas the property proofs use; `tokenization` is the independent
   specification of str.split() (no argument): maximal runs of non-whitespace characters. *)
From Coq Require Import List NArith ZArith Bool Lia ZifyBool.
Import ListNotations.
Open Scope N_scope.

Definition str := list N.

(* str.isspace() / the separator set of str.split() in CPython 3 (Unicode White_Space plus
   the bidirectional types WS, B, S: 0x1c..0x1f). *)
Definition is_space (c : N) : bool :=
  ((9 <=? c) && (c <=? 13)) || ((28 <=? c) && (c <=? 32)) || (c =? 133) || (c =? 160)
  || (c =? 5760) || ((8192 <=? c) && (c <=? 8202)) || (c =? 8232) || (c =? 8233)
  || (c =? 8239) || (c =? 8287) || (c =? 12288).

Definition push (t : str) (ts : list str) : list str :=
  match t with [] => ts | _ => t :: ts end.

(* right-to-left scan: (token touching the left end, tokens after it) *)
Fixpoint split_go (s : str) : str * list str :=
  match s with
  | [] => ([], [])
  | c :: s' => let (t, ts) := split_go s' in
               if is_space c then ([], push t ts) else (c :: t, ts)
  end.

(* s.split() *)
Definition py_split (s : str) : list str := let (t, ts) := split_go s in push t ts.

(* x.startswith(p) *)
Fixpoint py_startswith (x p : str) : bool :=
  match p, x with
  | [], _ => true
  | _ :: _, [] => false
  | b :: p', a :: x' => (a =? b) && py_startswith x' p'
  end.

(* x[n:] for a constant n >= 0 *)
Definition py_slice_from (n : nat) (x : str) : str := skipn n x.

(* c in x, for a one-character string c *)
Definition py_contains_char (c : N) (x : str) : bool := existsb (N.eqb c) x.

Fixpoint break_at (sep : N) (x : str) : str * option str :=
  match x with
  | [] => ([], None)
  | c :: x' => if c =? sep then ([], Some x')
               else let (a, b) := break_at sep x' in (c :: a, b)
  end.

(* x.split(sep, 1) for a one-character sep *)
Definition py_split1 (sep : N) (x : str) : list str :=
  match break_at sep x with
  | (a, None) => [a]
  | (a, Some b) => [a; b]
  end.

(* [E for x in L if C] *)
Definition py_listcomp {A B} (e : A -> B) (c : A -> bool) (l : list A) : list B :=
  map e (filter c l).

Definition py_len {A} (l : list A) : Z := Z.of_nat (length l).

(* ------------------------------------------------------------------ lemmas *)

Lemma is_space_bound c : is_space c = true -> c <= 12288.
Proof. unfold is_space. lia. Qed.

Definition all_space (s : str) := Forall (fun c => is_space c = true) s.
Definition no_space (s : str) := Forall (fun c => is_space c = false) s.
Definition starts_sep (s : str) := s = [] \/ exists c r, s = c :: r /\ is_space c = true.

(* independent specification of split(): s = ws0 t1 ws1 t2 ... tn wsn, the t_i non-empty and
   whitespace-free, ws_i whitespace, ws_1..ws_{n-1} non-empty *)
Inductive tokenization : str -> list str -> Prop :=
| tk_nil : forall ws, all_space ws -> tokenization ws []
| tk_cons : forall ws t rest ts, all_space ws -> t <> [] -> no_space t -> starts_sep rest ->
            tokenization rest ts -> tokenization (ws ++ t ++ rest) (t :: ts).

Lemma tokenization_space_cons c r ts :
  is_space c = true -> tokenization r ts -> tokenization (c :: r) ts.
Proof.
  intros Hc H. inversion H; subst.
  - apply tk_nil. constructor; auto.
  - change (c :: ws ++ t ++ rest) with ((c :: ws) ++ t ++ rest).
    apply tk_cons; auto. constructor; auto.
Qed.

Lemma split_go_inv s : forall t ts, split_go s = (t, ts) ->
  no_space t /\ exists rest, s = t ++ rest /\ starts_sep rest /\ tokenization rest ts.
Proof.
  induction s as [|c s IH]; intros t ts H; cbn in H.
  - inversion H; subst. split; [constructor|]. exists []. repeat split.
    + left; reflexivity.
    + apply tk_nil. constructor.
  - destruct (split_go s) as [t0 ts0] eqn:E.
    destruct (IH _ _ eq_refl) as [Hns [rest [Hs [Hsep Htok]]]].
    destruct (is_space c) eqn:Hc; inversion H; subst; clear H.
    + split; [constructor|]. exists (c :: t0 ++ rest). repeat split.
      * right. exists c, (t0 ++ rest). auto.
      * destruct t0 as [|a t0]; cbn [push].
        -- cbn. apply tokenization_space_cons; auto.
        -- change (c :: (a :: t0) ++ rest) with ([c] ++ (a :: t0) ++ rest).
           apply tk_cons; auto; try discriminate; repeat constructor; auto.
    + split; [constructor; auto|]. exists rest. repeat split; auto.
Qed.

Theorem py_split_spec s : tokenization s (py_split s).
Proof.
  unfold py_split. destruct (split_go s) as [t ts] eqn:E.
  destruct (split_go_inv _ _ _ E) as [Hns [rest [Hs [Hsep Htok]]]]. subst s.
  destruct t as [|a t]; cbn [push]; [exact Htok|].
  change ((a :: t) ++ rest) with ([] ++ (a :: t) ++ rest).
  apply tk_cons; auto; try discriminate; repeat constructor; auto.
Qed.

(* the specification determines the token list *)
Lemma all_space_no_space_nil t : all_space t -> no_space t -> t = [].
Proof.
  destruct t; auto. intros H1 H2. inversion H1; inversion H2; subst. congruence.
Qed.

Lemma split_prefix_unique : forall ws1 t1 r1 ws2 t2 r2,
  all_space ws1 -> all_space ws2 -> t1 <> [] -> t2 <> [] -> no_space t1 -> no_space t2 ->
  starts_sep r1 -> starts_sep r2 ->
  ws1 ++ t1 ++ r1 = ws2 ++ t2 ++ r2 -> t1 = t2 /\ r1 = r2.
Proof.
  induction ws1 as [|a ws1 IH]; intros t1 r1 ws2 t2 r2 Hw1 Hw2 Hn1 Hn2 Hs1 Hs2 Hr1 Hr2 E.
  - destruct ws2 as [|b ws2].
    + cbn in E. clear Hw1 Hw2. revert t2 Hn1 Hn2 Hs2 E.
      induction t1 as [|x t1 IHt]; intros t2 Hn1 Hn2 Hs2 E; [congruence|].
      destruct t2 as [|y t2]; [congruence|]. cbn in E. inversion E; subst y.
      inversion Hs1; inversion Hs2; subst.
      destruct t1 as [|x1 t1], t2 as [|y2 t2].
      * cbn in H1. subst. auto.
      * exfalso. cbn in H1. destruct Hr1 as [->|[c [r [-> Hc]]]]; [discriminate|].
        inversion H1; subst. inversion H7; subst. congruence.
      * exfalso. cbn in H1. destruct Hr2 as [->|[c [r [-> Hc]]]]; [discriminate|].
        inversion H1; subst. inversion H3; subst. congruence.
      * destruct (IHt H3 (y2 :: t2)) as [A B]; auto; try discriminate. subst. rewrite A. auto.
    + exfalso. destruct t1 as [|x t1]; [congruence|]. cbn in E. inversion E; subst.
      inversion Hw2; inversion Hs1; subst. congruence.
  - destruct ws2 as [|b ws2].
    + exfalso. destruct t2 as [|x t2]; [congruence|]. cbn in E. inversion E; subst.
      inversion Hw1; inversion Hs2; subst. congruence.
    + cbn in E. inversion E; subst. inversion Hw1; inversion Hw2; subst.
      eapply IH; eauto.
Qed.

Lemma tokenization_nil_inv s : tokenization s [] -> all_space s.
Proof. intros H. inversion H; auto. Qed.

Lemma tokenization_cons_inv s t ts : tokenization s (t :: ts) ->
  exists ws rest, s = ws ++ t ++ rest /\ all_space ws /\ t <> [] /\ no_space t /\
                  starts_sep rest /\ tokenization rest ts.
Proof. intros H. inversion H; subst. exists ws, rest. auto 10. Qed.

Lemma all_space_mid ws t rest : all_space (ws ++ t ++ rest) -> no_space t -> t = [].
Proof.
  intros H Hn. apply all_space_no_space_nil; auto.
  unfold all_space in *. rewrite !Forall_app in H. tauto.
Qed.

Theorem tokenization_unique : forall s l1, tokenization s l1 -> forall l2, tokenization s l2 -> l1 = l2.
Proof.
  intros s l1 H1. induction H1 as [ws Hw | ws t rest ts Hw Hne Hns Hsep Htok IH]; intros l2 H2.
  - destruct l2 as [|t2 l2]; auto. exfalso.
    destruct (tokenization_cons_inv _ _ _ H2) as [ws2 [r2 [E [A [B [C [D F]]]]]]]. subst ws.
    apply B. eapply all_space_mid; eauto.
  - destruct l2 as [|t2 l2].
    + exfalso. apply tokenization_nil_inv in H2. apply Hne. eapply all_space_mid; eauto.
    + destruct (tokenization_cons_inv _ _ _ H2) as [ws2 [r2 [E [A [B [C [D F]]]]]]].
      destruct (split_prefix_unique ws t rest ws2 t2 r2) as [X Y]; auto.
      subst. f_equal. apply IH. auto.
Qed.

Corollary py_split_unique s l : tokenization s l -> l = py_split s.
Proof. intros H. eapply tokenization_unique; eauto. apply py_split_spec. Qed.

(* consequences used by the routing theorems *)
Lemma tokenization_tokens s l : tokenization s l -> Forall (fun t => t <> [] /\ no_space t) l.
Proof. induction 1; constructor; auto. Qed.

Lemma py_split_tokens s : Forall (fun t => t <> [] /\ no_space t) (py_split s).
Proof. apply (tokenization_tokens s). apply py_split_spec. Qed.

Lemma filter_app_all_space ws r : all_space ws ->
  filter (fun c => negb (is_space c)) (ws ++ r) = filter (fun c => negb (is_space c)) r.
Proof. induction 1; cbn; auto. rewrite H. cbn. auto. Qed.

Lemma filter_no_space t : no_space t -> filter (fun c => negb (is_space c)) t = t.
Proof. induction 1; cbn; auto. rewrite H. cbn. congruence. Qed.

(* no character is lost: the non-whitespace characters of s are the tokens, in order *)
Theorem py_split_concat s : concat (py_split s) = filter (fun c => negb (is_space c)) s.
Proof.
  generalize (py_split_spec s). generalize (py_split s). intros l H.
  induction H.
  - cbn. induction H; cbn; auto. rewrite H. cbn. auto.
  - cbn [concat]. rewrite filter_app_all_space by auto. rewrite filter_app.
    rewrite filter_no_space by auto. congruence.
Qed.

Lemma break_at_spec sep x : forall a b, break_at sep x = (a, b) ->
  ~ In sep a /\ match b with None => x = a | Some b' => x = a ++ sep :: b' end.
Proof.
  induction x as [|c x IH]; intros a b H; cbn in H.
  - inversion H; subst. auto.
  - destruct (c =? sep) eqn:E.
    + apply N.eqb_eq in E. inversion H; subst. auto.
    + apply N.eqb_neq in E. destruct (break_at sep x) as [a0 b0]. inversion H; subst.
      destruct (IH _ _ eq_refl) as [Hn Hx]. split.
      * intros [|]; auto.
      * destruct b; cbn; congruence.
Qed.

Lemma break_at_none sep x a : break_at sep x = (a, None) -> py_contains_char sep x = false.
Proof.
  intros H. destruct (break_at_spec _ _ _ _ H) as [Hn ->].
  unfold py_contains_char. destruct (existsb (N.eqb sep) a) eqn:E; auto.
  apply existsb_exists in E. destruct E as [c [Hc E]]. apply N.eqb_eq in E. subst. tauto.
Qed.

Lemma break_at_some sep x a b : break_at sep x = (a, Some b) -> py_contains_char sep x = true.
Proof.
  intros H. destruct (break_at_spec _ _ _ _ H) as [Hn ->].
  unfold py_contains_char. apply existsb_exists. exists sep. split.
  - apply in_or_app. right. left. auto.
  - apply N.eqb_refl.
Qed.

(* x.split(sep, 1) when sep occurs: the text before the first sep, the text after it *)
Lemma py_split1_spec sep x : py_contains_char sep x = true ->
  exists a b, py_split1 sep x = [a; b] /\ x = a ++ sep :: b /\ ~ In sep a.
Proof.
  intros H. unfold py_split1. destruct (break_at sep x) as [a [b|]] eqn:E.
  - destruct (break_at_spec _ _ _ _ E). exists a, b. auto.
  - apply break_at_none in E. congruence.
Qed.

Lemma py_startswith_spec x p : py_startswith x p = true <-> exists r, x = p ++ r.
Proof.
  revert x. induction p as [|b p IH]; intros x; cbn.
  - split; [intros _; exists x; reflexivity | intros _; destruct x; reflexivity].
  - destruct x as [|a x]; cbn.
    + split; [discriminate|]. intros [r H]. discriminate.
    + rewrite andb_true_iff, N.eqb_eq, IH. split.
      * intros [-> [r ->]]. eauto.
      * intros [r H]. inversion H; subst. eauto.
Qed.
