(* C35 — value universe and the Python primitives (dict, list, exceptions as values) that the
   regenerated model coq/C35/Gen.v of src/cffi/pkgconfig.py is written in.  Definitions only.

   Gen.v is produced on every run from the current source by tools/props/c35.py `regen`
   (translator: tools/props/c35_trans.py).  The operations below are the translator's target
   vocabulary; each is run against CPython in the micro-suite of the check.

   Modelled: pkgconfig.py:7 merge_flags, :66-103 the six get_* helpers, _macro, kwargs,
   :106-110 the merging loop of flags_from_pkgconfig, :24-63 call() (post-processing of the
   child's status/output; shape-matched).  Not modelled: aliasing of cfg2's list objects into
   cfg1 by `cfg1[key] = value` (the model is purely functional; flags_from_pkgconfig only
   passes fresh dictionaries), the state of cfg1 after a TypeError. *)
From Coq Require Import List NArith ZArith Bool.
Import ListNotations.
From Cffi Require Import C35.PyStr.

Inductive exc := TypeError | KeyError | ValueError | PkgConfigError | OutOfFuel | OtherError.

Inductive res (A : Type) : Type := Ok (a : A) | Err (e : exc).
Arguments Ok {A} a.
Arguments Err {A} e.

Definition bind {A B} (x : res A) (f : A -> res B) : res B :=
  match x with Ok a => f a | Err e => Err e end.

(* for x in l: body   — with the variables assigned in the body threaded as state; an
   exception stops the loop *)
Definition py_for {S X} (body : S -> X -> res S) (l : list X) (st : S) : res S :=
  fold_left (fun acc x => bind acc (fun s => body s x)) l (Ok st).

(* elements of the keyword lists: a str, or a tuple of str/None (define_macros) *)
Inductive flag := FStr (s : str) | FTuple (l : list (option str)).

(* values of a cffi config dictionary: a list, or any non-list object (identified by a tag) *)
Inductive cfgval := VL (l : list flag) | VX (tag : N).

(* dict with str keys, in insertion order, keys distinct *)
Definition cfg := list (str * cfgval).

Fixpoint str_eqb (a b : str) : bool :=
  match a, b with
  | [], [] => true
  | x :: a', y :: b' => N.eqb x y && str_eqb a' b'
  | _, _ => false
  end.

(* key in d *)
Definition dict_in (k : str) (d : cfg) : bool := existsb (fun kv => str_eqb k (fst kv)) d.

(* d[k] *)
Fixpoint dict_get (d : cfg) (k : str) : res cfgval :=
  match d with
  | [] => Err KeyError
  | (k', v) :: d' => if str_eqb k k' then Ok v else dict_get d' k
  end.

(* d[k] = v *)
Fixpoint dict_set (d : cfg) (k : str) (v : cfgval) : cfg :=
  match d with
  | [] => [(k, v)]
  | (k', v') :: d' => if str_eqb k k' then (k', v) :: d' else (k', v') :: dict_set d' k v
  end.

(* d.items() *)
Definition dict_items (d : cfg) : list (str * cfgval) := d.

(* isinstance(v, list) *)
Definition is_list (v : cfgval) : bool := match v with VL _ => true | VX _ => false end.

(* v.extend(w) on list objects; on anything else the behaviour is not modelled *)
Definition val_extend (v w : cfgval) : res cfgval :=
  match v, w with
  | VL a, VL b => Ok (VL (a ++ b))
  | _, _ => Err OtherError
  end.

(* tuple(l) for a list of str *)
Definition tuple_of_strs (l : list str) : flag := FTuple (map Some l).

(* the child process as seen by call(): None = Popen raised OSError *)
Definition spawn_result := option (Z * list N).
