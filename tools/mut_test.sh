#!/bin/sh
# tools/mut_test.sh <seed-id> <check-id> [tier]: run ./check against a scratch copy of /repo/src with seeded/<seed-id>/patch.diff applied
set -e
S=$1; C=$2; T=${3:-quick}
D=$(mktemp -d /var/tmp/mut-$S-XXXX)
# regenerated models are written into coq/Cxx/Gen.v: keep the real ones and put them back afterwards
G=$(mktemp -d /var/tmp/mut-gen-XXXX)
(cd /verif/coq && for f in */Gen.v; do mkdir -p "$G/$(dirname $f)"; cp -p "$f" "$G/$f"; done)
trap 'rm -rf "$D"; (cd /verif/coq && for f in */Gen.v; do cmp -s "$G/$f" "$f" || { cp "$G/$f" "$f"; touch "$f"; }; done); rm -rf "$G"' EXIT
mkdir -p "$D" && cp -r /repo/src "$D/src" && rm -f "$D"/src/*.so
(cd "$D" && patch -s -p1 < /verif/seeded/$S/patch.diff)
cd /verif && VERIF_REPO="$D" ./check "$C" --tier "$T" 2>&1 | grep -E "^(OK|VIOLATION|CHECK-ERROR|BUILD-ERROR|  )" | head -12
