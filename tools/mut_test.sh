#!/bin/sh
# tools/mut_test.sh <seed-id> <check-id> [tier]: run ./check against a scratch copy of /repo/src with seeded/<seed-id>/patch.diff applied
set -e
S=$1; C=$2; T=${3:-quick}
D=$(mktemp -d /var/tmp/mut-$S-XXXX)
trap 'rm -rf "$D"' EXIT
mkdir -p "$D" && cp -r /repo/src "$D/src" && rm -f "$D"/src/*.so
(cd "$D" && patch -s -p1 < /verif/seeded/$S/patch.diff)
cd /verif && VERIF_REPO="$D" ./check "$C" --tier "$T" 2>&1 | grep -E "^(OK|VIOLATION|KNOWN-FINDING|CHECK-ERROR|BUILD-ERROR|  )" | head -12
