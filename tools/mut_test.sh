#!/bin/sh
# tools/mut_test.sh <seed-id> <check-id> [tier]: run ./check against a scratch copy of /repo/src with
# seeded/<seed-id>/patch.diff applied (VERIF_REPO).  Regenerated models are written into coq/Cxx/Gen.v: the
# Gen.v files in the closure of the check under test (only those: other checks may be running) are saved
# first and put back afterwards, with a fresh timestamp so that make rebuilds the .vo.
set -e
S=$1; C=$2; T=${3:-quick}
D=$(mktemp -d /var/tmp/mut-$S-XXXX)
G=$(mktemp -d /var/tmp/mut-gen-XXXX)
GENS=$(cd /verif && /venv/bin/python -c "
import sys; sys.path.insert(0, 'tools')
from lib import vlib
print(' '.join(f for f in vlib.coq_closure('$C/Props.v') if f.endswith('/Gen.v')))")
(cd /verif/coq && for f in $GENS; do mkdir -p "$G/$(dirname $f)"; cp -p "$f" "$G/$f"; done)
trap 'rm -rf "$D"; (cd /verif/coq && for f in $GENS; do cmp -s "$G/$f" "$f" || { cp "$G/$f" "$f"; touch "$f"; }; done); rm -rf "$G"' EXIT
mkdir -p "$D" && cp -r /repo/src "$D/src" && rm -f "$D"/src/*.so
(cd "$D" && patch -s -p1 < /verif/seeded/$S/patch.diff)
cd /verif && VERIF_REPO="$D" ./check "$C" --tier "$T" 2>&1 | grep -E "^(OK|VIOLATION|CHECK-ERROR|BUILD-ERROR|  )" | head -12
