"""C16 worker (inside the scratch build): runs operation sequences on real cdata and reports canonical
outcomes plus the bytes of the base allocation after every operation."""
import os
import pickle
import struct

import cffi
from lib.vlib import worker_main

CDEF = "struct s3 { char a[3]; }; struct s0 { };"


def val_of(ffi, v):
    tag = v[0]
    if tag == "int":
        return v[1]
    if tag == "bytes":
        return bytes.fromhex(v[1])
    if tag == "float":
        return struct.unpack("<d", struct.pack("<Q", v[1]))[0]
    if tag == "str":
        return v[1]
    raise ValueError(tag)


def item_bytes(ffi, itemtype, x):
    """canonical bytes of a value read by indexing"""
    if isinstance(x, ffi.CData):
        return None
    name = itemtype.cname
    size = ffi.sizeof(itemtype)
    if isinstance(x, bool):
        return None
    if isinstance(x, int):
        return (x % (1 << (8 * size))).to_bytes(size, "little")
    if isinstance(x, bytes):
        return x
    if isinstance(x, float):
        return struct.pack("<d", x) if size == 8 else struct.pack("<f", x)
    return None


def addr(ffi, cd):
    return int(ffi.cast("uintptr_t", cd))


def cd_out(ffi, cd):
    t = ffi.typeof(cd)
    if t.kind == "array":
        return ["cd", "arr", len(cd), addr(ffi, cd), t.item.cname]
    if t.kind == "pointer":
        return ["cd", "ptr", None, addr(ffi, cd), t.item.cname]
    return ["cd", t.kind, None, 0, t.cname]


def run_case(ffi, c):
    itemtype = ffi.typeof(c["item"])
    n = c["n"]
    init = bytes.fromhex(c["init"])
    if c.get("owned"):
        x = ffi.new(ffi.getctype(c["item"], "*"))
    else:
        x = ffi.new(ffi.getctype(c["item"], "[]"), n)
    base = addr(ffi, x)
    raw = ffi.buffer(ffi.cast("char *", x), len(init))
    raw[:] = init
    views = [x]
    outs, mems = [], []
    for op in c["ops"]:
        kind = op[0]
        try:
            if kind == "ir":
                r = views[op[1]][op[2]]
                if isinstance(r, ffi.CData):
                    a = addr(ffi, ffi.addressof(r)) if ffi.typeof(r).kind in ("struct", "union") else addr(ffi, r)
                    out = ["view", a]
                else:
                    b = item_bytes(ffi, itemtype, r)
                    out = ["bytes", b.hex()] if b is not None else ["unknown", repr(r)]
            elif kind == "iw":
                views[op[1]][op[2]] = val_of(ffi, op[3])
                out = ["done"]
            elif kind == "sl":
                r = views[op[1]][slice(op[2], op[3], op[4])]
                views.append(r)
                out = cd_out(ffi, r)
            elif kind == "as":
                src = op[5]
                if src[0] == "del":
                    del views[op[1]][slice(op[2], op[3], op[4])]
                else:
                    if src[0] == "list":
                        v = [val_of(ffi, e) for e in src[1]]
                        if src[2] == "tuple":
                            v = tuple(v)
                        elif src[2] == "gen":
                            v = iter(v)
                    elif src[0] == "bytes":
                        v = bytes.fromhex(src[1]) if src[2] == "bytes" else bytearray.fromhex(src[1])
                    else:
                        v = views[src[1]]
                    views[op[1]][slice(op[2], op[3], op[4])] = v
                out = ["done"]
            elif kind == "add":
                r = (views[op[1]] + op[2]) if not op[3] else (op[2] + views[op[1]])
                views.append(r)
                out = cd_out(ffi, r)
            elif kind == "subi":
                r = views[op[1]] - op[2]
                views.append(r)
                out = cd_out(ffi, r)
            elif kind == "psub":
                out = ["int", views[op[1]] - views[op[2]]]
            elif kind == "addr":
                r = ffi.addressof(views[op[1]], op[2])
                views.append(r)
                out = cd_out(ffi, r)
            else:
                out = ["badop"]
        except Exception as e:
            out = ["err", type(e).__name__]
        outs.append(out)
        mems.append(bytes(raw).hex())
    return dict(base=base, outs=outs, mems=mems)


def in_child(fn):
    """run fn() in a forked child; returns its result or ['crash', signal]"""
    r, w = os.pipe()
    pid = os.fork()
    if pid == 0:
        os.close(r)
        try:
            try:
                res = fn()
            except Exception as e:
                res = ["err", type(e).__name__]
            os.write(w, pickle.dumps(res))
        finally:
            os._exit(0)
    os.close(w)
    data = b""
    while True:
        chunk = os.read(r, 65536)
        if not chunk:
            break
        data += chunk
    os.close(r)
    _, status = os.waitpid(pid, 0)
    if os.WIFSIGNALED(status):
        return ["crash", os.WTERMSIG(status)]
    return pickle.loads(data) if data else ["crash", -1]


def run_static(ffi, c):
    T = c["item"]
    if c["what"] == "offsetof":
        def fn():
            return ["int", ffi.offsetof(ffi.getctype(T, "[]"), c["i"])]
    elif c["what"] == "offsetof_fixed":
        def fn():
            return ["int", ffi.offsetof(ffi.getctype(T, "[%d]" % c["len"]), c["i"])]
    else:   # addressof(x, i) vs x + i on a fresh array
        def fn():
            x = ffi.new(ffi.getctype(T, "[]"), c["len"])
            try:
                a = ["int", addr(ffi, ffi.addressof(x, c["i"])) - addr(ffi, x)]
            except Exception as e:
                a = ["err", type(e).__name__]
            try:
                b = ["int", (addr(ffi, x + c["i"]) - addr(ffi, x))]
            except Exception as e:
                b = ["err", type(e).__name__]
            return ["pair", a, b]
    try:
        out = fn()
    except Exception as e:
        out = ["err", type(e).__name__]
    return dict(out=out, size=ffi.sizeof(T))


def main(payload):
    """Sequences run in forked children, `chunk` cases per child (fork is the dominant cost on a loaded
    machine).  A child that dies is re-run case by case, so a crash is attributed to one case; the harness
    re-runs every case that shows a violation with chunk = 1 (fresh child each) before reporting it."""
    ffi = cffi.FFI()
    ffi.cdef(CDEF)
    cases = payload["cases"]
    chunk = max(1, int(payload.get("chunk", 1)))
    res = [None] * len(cases)

    def one(c):
        try:
            return run_static(ffi, c) if c["kind"] == "static" else run_case(ffi, c)
        except Exception as e:
            return dict(error="%s: %s" % (type(e).__name__, e))

    def single(i):
        r = in_child(lambda: one(cases[i]))
        if isinstance(r, list):
            if cases[i]["kind"] == "static":
                r = dict(out=r, size=ffi.sizeof(cases[i]["item"]))       # ['crash', signal]
            else:
                r = dict(crash=r[1]) if r[0] == "crash" else dict(error="child raised %s" % r[1])
        res[i] = r

    seq = list(range(len(cases)))
    for k in range(0, len(seq), chunk):
        idx = seq[k:k + chunk]
        if len(idx) == 1:
            single(idx[0])
            continue
        r = in_child(lambda: [one(cases[i]) for i in idx])
        if isinstance(r, list) and len(r) == len(idx) and all(isinstance(x, dict) for x in r):
            for i, x in zip(idx, r):
                res[i] = x
        else:                     # the child died: isolate
            for i in idx:
                single(i)
    return dict(results=res, sizes={t: ffi.sizeof(t) for t in payload["types"]})


worker_main(main)
