"""C35 — pkg-config output is translated to build keywords without loss.

Tie A (regeneration): coq/C35/Gen.v is rebuilt on every run from src/cffi/pkgconfig.py (merge_flags, the
helpers of flags_from_pkgconfig, kwargs, the merging loop: generic translator tools/props/c35_trans.py;
call(): shape-matching driver below) and the theorems of coq/C35/Props.v are re-checked against it.
Tie B (correspondence): the real functions, imported from the scratch copy, are run on generated inputs
(flags_from_pkgconfig with a stub `pkg-config` first on PATH) and compared with the regenerated model
evaluated inside Coq; the property predicate itself is evaluated on the implementation by an independent
Python oracle (re-tokenisation with a regular expression over the 29 whitespace code points).
"""
import ast
import copy
import json
import os
import re
import stat
import subprocess

from lib import py2coq, vlib
from lib.py2coq import Untranslatable, strlit
from lib.vlib import cbool, cbytes, clist, cn, copt, cpair, cstr, cz
from props import c35_trans as T

ID = "C35"
GEN = os.path.join(vlib.COQ, "C35", "Gen.v")
SRC = "src/cffi/pkgconfig.py"

HELPERS = {   # nested helpers of flags_from_pkgconfig: name -> (params, ret, pure)
    "get_include_dirs": ([T.STR], T.LIST(T.STR), True),
    "get_library_dirs": ([T.STR], T.LIST(T.STR), True),
    "get_libraries": ([T.STR], T.LIST(T.STR), True),
    "get_macros": ([T.STR], T.LIST(T.FLAG), True),
    "get_other_cflags": ([T.STR], T.LIST(T.STR), True),
    "get_other_libs": ([T.STR], T.LIST(T.STR), True),
}

# skeleton of call() with the translated parts replaced by HOLE_n (computed by call_skeleton below on
# the pinned source; a source whose skeleton differs is not translated: fallback to the snapshot)
CALL_SKELETON = None   # filled at the bottom of the file


# ---------------------------------------------------------------------------- regeneration

def _hole(i):
    return ast.Name(id="HOLE_%d" % i, ctx=ast.Load())


def call_skeleton(fdef):
    """-> (skeleton dump, holes) for pkgconfig.call; raises Untranslatable when the coarse shape differs"""
    f = copy.deepcopy(fdef)
    body = [s for s in f.body if not (isinstance(s, ast.Expr) and isinstance(s.value, ast.Constant))]
    holes = {}
    try:
        # a = [..consts..]; a.append(X)*
        i = 0
        assert isinstance(body[0], ast.Assign) and isinstance(body[0].value, ast.List)
        argv_name = body[0].targets[0].id
        argv = list(body[0].value.elts)
        i = 1
        while isinstance(body[i], ast.Expr) and isinstance(body[i].value, ast.Call) \
                and isinstance(body[i].value.func, ast.Attribute) and body[i].value.func.attr == "append" \
                and body[i].value.func.value.id == argv_name and len(body[i].value.args) == 1:
            argv.append(body[i].value.args[0])
            i += 1
        holes["argv"] = argv
        holes["argv_name"] = argv_name
        rest = body[i:]
        tr, comm, if_rc, if_dec, if_bs, ret = rest
        # try: pc = subprocess.Popen(a, ...) except OSError as e: raise X(...)
        assert isinstance(tr, ast.Try) and len(tr.handlers) == 1 and not tr.orelse and not tr.finalbody
        popen = tr.body[0].value
        assert popen.args[0].id == argv_name
        holes["spawn_exc_caught"] = tr.handlers[0].type
        holes["spawn_exc_raised"] = tr.handlers[0].body[0].exc.func
        tr.handlers[0].type = _hole(1)
        tr.handlers[0].body[0].exc = _hole(2)
        # if pc.returncode != 0: try: berr = berr.decode(..) except Exception: pass ; raise X(...)
        assert isinstance(if_rc, ast.If) and not if_rc.orelse
        holes["rc_test"] = if_rc.test
        if_rc.test = _hole(3)
        assert isinstance(if_rc.body[-1], ast.Raise)
        holes["rc_raised"] = if_rc.body[-1].exc.func
        if_rc.body[-1].exc = _hole(4)
        # if sys.version_info >= (3,) and not isinstance(bout, str): try: bout = bout.decode(encoding) except E: raise X
        assert isinstance(if_dec, ast.If) and not if_dec.orelse and len(if_dec.body) == 1
        t2 = if_dec.body[0]
        assert isinstance(t2, ast.Try) and len(t2.handlers) == 1 and len(t2.handlers[0].body) == 1
        holes["dec_exc_caught"] = t2.handlers[0].type
        holes["dec_raised"] = t2.handlers[0].body[0].exc.func
        t2.handlers[0].type = _hole(5)
        t2.handlers[0].body[0].exc = _hole(6)
        # if os.altsep != '\\' and '\\' in bout: raise X
        assert isinstance(if_bs, ast.If) and not if_bs.orelse and len(if_bs.body) == 1
        holes["bs_test"] = if_bs.test
        if_bs.test = _hole(7)
        holes["bs_raised"] = if_bs.body[0].exc.func
        if_bs.body[0].exc = _hole(8)
        assert isinstance(ret, ast.Return)
        holes["ret"] = ret.value
    except (AssertionError, AttributeError, IndexError, ValueError, TypeError) as e:
        raise Untranslatable("pkgconfig.call: unexpected shape (%s)" % type(e).__name__)
    skel = "\n".join(py2coq.shape(s) for s in rest)
    return skel, holes


def exc_name(node):
    if isinstance(node, ast.Name) and node.id in T.EXCEPTIONS | {"OSError", "UnicodeDecodeError", "Exception"}:
        return node.id
    raise Untranslatable("exception class " + ast.dump(node)[:80])


def translate_call(tree):
    fdef = py2coq.find_function(tree, "call")
    skel, h = call_skeleton(fdef)
    if skel != CALL_SKELETON:
        raise Untranslatable("pkgconfig.call: control skeleton differs from the recorded one")
    params = [a.arg for a in fdef.args.args]
    if params[:2] != ["libname", "flag"]:
        raise Untranslatable("pkgconfig.call parameters")
    tr = T.Trans()
    env = {"libname": T.STR, "flag": T.STR}
    items = []
    for e in h["argv"]:
        t, ty = tr.ex(e, env, None)
        if ty != T.STR:
            raise Untranslatable("argv element")
        items.append(t)
    if exc_name(h["spawn_exc_caught"]) != "OSError":
        raise Untranslatable("Popen failure is no longer caught as OSError")
    if exc_name(h["dec_exc_caught"]) not in ("UnicodeDecodeError", "Exception"):
        raise Untranslatable("decode failure is no longer caught as UnicodeDecodeError")
    e_spawn, e_rc = exc_name(h["spawn_exc_raised"]), exc_name(h["rc_raised"])
    e_dec, e_bs = exc_name(h["dec_raised"]), exc_name(h["bs_raised"])
    for e in (e_spawn, e_rc, e_dec, e_bs):
        if e not in T.EXCEPTIONS:
            raise Untranslatable("raise of " + e)
    ex = py2coq.Expr(names={"pc.returncode": "returncode"})
    rc = ex.b(h["rc_test"])
    # backslash test: conjunction whose atoms are `os.altsep != '\\'` and `'\\' in bout`
    def bs(node):
        if isinstance(node, ast.BoolOp):
            op = "andb" if isinstance(node.op, ast.And) else "orb"
            out = bs(node.values[0])
            for v in node.values[1:]:
                out = "(%s %s %s)" % (op, out, bs(v))
            return out
        if isinstance(node, ast.UnaryOp) and isinstance(node.op, ast.Not):
            return "(negb %s)" % bs(node.operand)
        if isinstance(node, ast.Compare) and len(node.ops) == 1:
            l, op, r = node.left, node.ops[0], node.comparators[0]
            if isinstance(l, ast.Attribute) and py2coq.Expr().dotted(l) == "os.altsep" \
                    and isinstance(r, ast.Constant) and r.value == "\\":
                if isinstance(op, ast.NotEq):
                    return "(negb altsep_is_backslash)"
                if isinstance(op, ast.Eq):
                    return "altsep_is_backslash"
            if isinstance(op, (ast.In, ast.NotIn)) and isinstance(r, ast.Name) and r.id == "bout":
                t = "(py_contains_char %d bout)" % tr.const_char(l)
                return t if isinstance(op, ast.In) else "(negb %s)" % t
        raise Untranslatable("backslash test " + ast.dump(node)[:120])
    bst = bs(h["bs_test"])
    if not (isinstance(h["ret"], ast.Name) and h["ret"].id == "bout"):
        raise Untranslatable("call() no longer returns the decoded output")
    return (
        "(* %s:%d call(): argv, and the post-processing of the child's (status, stdout) *)\n"
        "Definition call_argv (libname flag : str) : list str :=\n  [%s].\n\n"
        "Definition call_post (decode : list N -> option str) (altsep_is_backslash : bool)\n"
        "    (sp : spawn_result) : res str :=\n"
        "  match sp with\n  | None => Err %s\n  | Some (returncode, bout) =>\n"
        "    if %s then Err %s else\n"
        "    match decode bout with\n    | None => Err %s\n    | Some bout =>\n"
        "      if %s then Err %s else Ok bout\n    end\n  end.\n"
        % (SRC, py2coq.find_function(tree, "call").lineno, "; ".join(items), e_spawn, rc, e_rc, e_dec, bst, e_bs))


def translate(repo):
    tree = py2coq.parse_source(os.path.join(repo, SRC))
    out = ["(* GENERATED by tools/props/c35.py from %s — do not edit; regenerated on every run. *)" % SRC,
           "From Coq Require Import List NArith ZArith Bool.", "Import ListNotations.",
           "From Cffi Require Import C35.PyStr C35.Model.", ""]
    # merge_flags(cfg1, cfg2): mutates its first argument and returns it
    mf = py2coq.find_function(tree, "merge_flags")
    p0 = mf.args.args[0].arg if mf.args.args else None
    for sub in ast.walk(mf):
        if isinstance(sub, ast.Return) and not (isinstance(sub.value, ast.Name) and sub.value.id == p0):
            raise Untranslatable("merge_flags no longer returns its first argument")
        if isinstance(sub, ast.Name) and sub.id == p0 and isinstance(sub.ctx, ast.Store):
            raise Untranslatable("merge_flags rebinds its first argument")
    sig_mf = T.Fn("merge_flags", [T.CFG, T.CFG], T.CFG, monadic=True, mutates=0)
    out.append("(* %s:7 *)" % SRC)
    out.append(T.Trans().function(mf, sig_mf))
    # helpers
    ff = py2coq.find_function(tree, "flags_from_pkgconfig")
    nested = T.nested_functions(ff)
    if set(nested) != set(HELPERS) | {"kwargs"}:
        raise Untranslatable("helpers of flags_from_pkgconfig: %s" % sorted(nested))
    fns = {}
    for name in nested:
        if name == "kwargs":
            continue
        params, ret, pure = HELPERS[name]
        fd = nested[name]
        inner = T.nested_functions(fd)
        sub_fns = {}
        for iname, ifd in inner.items():
            if T.free_names(ifd) - {"tuple", "len"}:
                raise Untranslatable("closure in " + iname)
            gname = "%s_%s" % (name, iname.lstrip("_"))
            isig = T.Fn(gname, [T.STR], T.FLAG, monadic=False)
            out.append(T.Trans().function(ifd, isig, pure=True))
            sub_fns[iname] = isig
        if T.free_names(fd) - {"tuple", "len"} - set(inner):
            raise Untranslatable("closure in " + name)
        sig = T.Fn(name, params, ret, monadic=False)
        out.append(T.Trans(functions=sub_fns).function(fd, sig, pure=True))
        fns[name] = sig
    out.append(translate_call(tree))
    out.append("Section WithPkgConfig.\n(* the result of call(libname, flag): pkgconfig.py:%d — a function of its arguments *)\n"
               "Variable call : str -> str -> res str.\n" % py2coq.find_function(tree, "call").lineno)
    fns["call"] = T.Fn("call", [T.STR, T.STR], T.STR, monadic=True)
    kw = nested["kwargs"]
    if T.free_names(kw) - set(fns) - {"sys"}:
        raise Untranslatable("closure in kwargs: %s" % sorted(T.free_names(kw) - set(fns)))
    sig_kw = T.Fn("kwargs", [T.STR], T.CFG, monadic=True)
    out.append(T.Trans(functions=fns).function(kw, sig_kw))
    fns2 = {"kwargs": sig_kw, "merge_flags": sig_mf}
    sig_ff = T.Fn("flags_from_pkgconfig", [T.LIST(T.STR)], T.CFG, monadic=True)
    out.append(T.Trans(functions=fns2).function(ff, sig_ff))
    out.append("End WithPkgConfig.\n")
    return "\n".join(out)


def regen_file(ctx, gen, translate_fn):
    """Rebuild `gen` from the current source.  `gen + '.snapshot'` is the committed translation of the
    pinned source: it is what Gen.v falls back to when the current source is outside the translator's
    subset (a previous run on another tree may have left a different Gen.v behind)."""
    rel = os.path.relpath(gen, vlib.COQ)
    if os.path.realpath(vlib.REPO) != "/repo" and os.path.exists(gen + ".snapshot"):
        # a run against another tree (VERIF_REPO, mutation tests) must not leave its model in the committed file
        import atexit
        atexit.register(_restore_snapshot, gen)
    try:
        text = translate_fn(vlib.REPO)
    except Untranslatable as e:
        snap = gen + ".snapshot"
        with vlib.CoqLock():
            if os.path.exists(snap):
                py2coq.write_if_changed(gen, open(snap).read())
        ctx.translator(rel, "fallback: %s" % e)
        fresh_vo(gen)
        return False
    with vlib.CoqLock():
        ctx.translator(rel, py2coq.write_if_changed(gen, text))
    fresh_vo(gen)
    return True


def _restore_snapshot(gen):
    try:
        with vlib.CoqLock():
            py2coq.write_if_changed(gen, open(gen + ".snapshot").read())
    except OSError:
        pass


def fresh_vo(gen):
    """the model is evaluated from Gen.vo: rebuild it when Gen.v is newer (replays skip the Coq re-check)"""
    vo = gen[:-2] + ".vo"
    if not os.path.exists(vo) or os.path.getmtime(vo) < os.path.getmtime(gen):
        vlib.coq_make([os.path.relpath(vo, vlib.COQ)], timeout=600)


def regen(ctx):
    regen_file(ctx, GEN, translate)


# ---------------------------------------------------------------------------- generators

WS = [9, 10, 11, 12, 13, 28, 29, 30, 31, 32, 133, 160, 5760] + list(range(8192, 8203)) + \
     [8232, 8233, 8239, 8287, 12288]
NOT_WS = [0x200b, 0xfeff, 0x180e, 0x2060, 0x1b, 0x7f, 0x8, 0x0, 0x84, 0x86, 0xa1, 0x167f, 0x1681, 0x1fff,
          0x200c, 0x2027, 0x202a, 0x202e, 0x2030, 0x205e, 0x2060, 0x2fff, 0x3001, 0xe9, 0x4e2d, 0x1f600, 0x10ffff]
TOKENS_C = ["-I/usr/include", "-I", "-Ifoo", "-I-I", "-D", "-DX", "-DX=1", "-DX=", "-D=1", "-DX=1=2", "-D=",
            "-DA=-I/x", "-I=", "-ID", "-DI"]
TOKENS_L = ["-L/usr/lib", "-L", "-Lfoo", "-lm", "-l", "-lfoo", "-l-L", "-L-l", "-l=x"]
TOKENS_X = ["-pthread", "-O2", "-Wall", "--I", "I", "-", "--", "-i", "-d", "x-I", "x-D", "-Wl,-rpath,/x", "-framework",
            "Cocoa", "-std=c99", "=", "a=b", "-é", "-Ié", "-Dé=中", "-L\U0001f600", "-", "-IL", " "]


def gen_text(rng, stream):
    """a pkg-config output: tokens separated by random whitespace of the 29 kinds"""
    n = rng.choice([0, 0, 1, 1, 2, 3, 4, 5, 8, 13])
    toks = []
    own, other = (TOKENS_C, TOKENS_L) if stream == "--cflags" else (TOKENS_L, TOKENS_C)
    for _ in range(n):
        r = rng.random()
        if r < 0.45:
            t = rng.choice(own)
        elif r < 0.6:
            t = rng.choice(other)
        elif r < 0.85:
            t = rng.choice(TOKENS_X).strip() or "-x"
        else:
            t = "".join(chr(rng.choice(NOT_WS + [45, 45, 73, 68, 76, 108, 61, 61, 97])) for _ in range(rng.randrange(1, 6)))
        if rng.random() < 0.1:
            t += chr(rng.choice(NOT_WS))
        toks.append(t)

    def sep(min_len):
        k = rng.choice([min_len, 1, 1, 1, 2, 3])
        return "".join(chr(rng.choice(WS if rng.random() < 0.5 else [32, 10, 9])) for _ in range(max(k, min_len)))
    s = sep(0)
    for i, t in enumerate(toks):
        s += t + (sep(1) if i + 1 < len(toks) else sep(0))
    return s


LIBS = ["a", "b", "libfoo", "libbar >= 1.8.3", "python-3.12", "x y", "é"]


def gen_flags_case(rng, stub):
    nlibs = rng.choice([0, 1, 1, 2, 2, 3, 4])
    libs = [rng.choice(LIBS) for _ in range(nlibs)]
    table = {}
    for lib in set(libs):
        for flag in ("--cflags", "--libs"):
            e = dict(rc=0)
            text = gen_text(rng, flag)
            if stub:
                data = text.encode("utf-8", "surrogatepass")
                r = rng.random()
                if r < 0.06:
                    e["rc"] = rng.choice([1, 2, 127, 255, -9, -15])
                elif r < 0.12:
                    bad = rng.choice([b"\xff", b"\xc3", b"\xed\xa0\x80", b"\xc0\xaf", b"\xf4\x90\x80\x80", b"\x80"])
                    i = rng.randrange(len(data) + 1)
                    data = data[:i] + bad + data[i:]
                elif r < 0.16:
                    i = rng.randrange(len(data) + 1)
                    data = data[:i] + b"\\" + data[i:]
                e["out"] = data.hex()
            else:
                if rng.random() < 0.08:
                    e["rc"] = 1
                e["text"] = [ord(c) for c in text]
            table[lib + "\0" + flag] = e
    return dict(kind="flags-stub" if stub else "flags", libs=libs, table=table)


NONLIST_TAGS = 5


def gen_cfg(rng, keys):
    d = []
    for k in rng.sample(keys, rng.randrange(0, len(keys) + 1)):
        if rng.random() < 0.15:
            d.append([k, dict(x=rng.randrange(1, NONLIST_TAGS + 1))])
        else:
            fl = []
            for _ in range(rng.choice([0, 1, 2, 3])):
                if rng.random() < 0.3:
                    fl.append([rng.choice(["A", "B"]), rng.choice([None, "1", ""])])
                else:
                    fl.append(rng.choice(["x", "y", "m", "-O2", ""]))
            d.append([k, fl])
    return d


def gen_merge_case(rng):
    keys = ["libraries", "include_dirs", "define_macros", "k", "é", ""]
    return dict(kind="merge", cfg1=gen_cfg(rng, keys), cfg2=gen_cfg(rng, keys))


def gen_call_case(rng):
    flag = rng.choice(["--cflags", "--libs", "--modversion"])
    lib = rng.choice(LIBS)
    c = gen_flags_case(rng, True)
    text = gen_text(rng, "--cflags")
    data = text.encode("utf-8", "surrogatepass")
    mode = rng.choice(["ok", "ok", "ok", "rc", "undecodable", "backslash", "nostub", "noexec"])
    e = dict(rc=0)
    if mode == "rc":
        e["rc"] = rng.choice([1, 2, 3, 127, 255, -9, -15])
    elif mode == "undecodable":
        i = rng.randrange(len(data) + 1)
        data = data[:i] + rng.choice([b"\xff", b"\xc3", b"\xed\xa0\x80", b"\xc0\xaf", b"\xf4\x90\x80\x80"]) + data[i:]
    elif mode == "backslash":
        i = rng.randrange(len(data) + 1)
        data = data[:i] + b"\\" + data[i:]
    e["out"] = data.hex()
    return dict(kind="call", lib=lib, flag=flag, entry=e, spawn=mode if mode in ("nostub", "noexec") else "ok")


def gen_pystr_case(rng):
    r = rng.random()
    if r < 0.5:
        s = gen_text(rng, rng.choice(["--cflags", "--libs"]))
    else:
        s = "".join(chr(rng.choice(WS + NOT_WS + [45, 73, 61, 61, 97, 98])) for _ in range(rng.randrange(0, 12)))
    return dict(kind="pystr", s=[ord(c) for c in s])


def generate(ctx, big=False):
    rng = ctx.rng
    cases = [dict(kind="isspace")]
    cases += [gen_pystr_case(rng) for _ in range(250 if not big else 1500)]
    cases += [gen_flags_case(rng, False) for _ in range(300 if not big else 2500)]
    cases += [gen_merge_case(rng) for _ in range(200 if not big else 1500)]
    cases += [gen_flags_case(rng, True) for _ in range(60 if not big else 300)]
    cases += [gen_call_case(rng) for _ in range(80 if not big else 400)]
    return cases


# ---------------------------------------------------------------------------- oracle (property predicate)

_WS_RE = re.compile("[" + "".join("\\u%04x" % c for c in WS) + "]+")


def oracle_tokens(text):
    """tokens of a pkg-config output, written independently of str.split(): maximal runs of characters
    outside the 29 whitespace code points"""
    return [t for t in _WS_RE.split(text) if t]


def oracle_macro(body):
    i = body.find("=")
    return [body, None] if i < 0 else [body[:i], body[i + 1:]]


def oracle_kwargs(cflags, libs):
    tc, tl = oracle_tokens(cflags), oracle_tokens(libs)
    return [
        ["include_dirs", [t[2:] for t in tc if t[:2] == "-I"]],
        ["library_dirs", [t[2:] for t in tl if t[:2] == "-L"]],
        ["libraries", [t[2:] for t in tl if t[:2] == "-l"]],
        ["define_macros", [oracle_macro(t[2:]) for t in tc if t[:2] == "-D"]],
        ["extra_compile_args", [t for t in tc if t[:2] not in ("-I", "-D")]],
        ["extra_link_args", [t for t in tl if t[:2] not in ("-L", "-l")]],
    ]


def entry_result(e):
    """what call() must return for a table entry: ('ok', text) | ('err',)"""
    if e["rc"] != 0:
        return ("err",)
    if "text" in e:
        return ("ok", "".join(chr(c) for c in e["text"]))
    try:
        text = bytes.fromhex(e["out"]).decode("utf-8")
    except UnicodeDecodeError:
        return ("err",)
    if "\\" in text:
        return ("err",)
    return ("ok", text)


def oracle_flags(case):
    """expected outcome of flags_from_pkgconfig per the property text: dict items | 'PkgConfigError'"""
    acc = {}
    order = []
    for lib in case["libs"]:
        rc = entry_result(case["table"][lib + "\0--cflags"])
        if rc[0] == "err":
            return "PkgConfigError"
        rl = entry_result(case["table"][lib + "\0--libs"])
        if rl[0] == "err":
            return "PkgConfigError"
        for k, v in oracle_kwargs(rc[1], rl[1]):
            if k not in acc:
                acc[k] = []
                order.append(k)
            acc[k] += v
    return [[k, acc[k]] for k in order]


def oracle_merge(case):
    c1 = [[k, v] for k, v in case["cfg1"]]
    keys1 = [k for k, _ in c1]
    for k, v in case["cfg2"]:
        if k in keys1:
            i = keys1.index(k)
            if isinstance(c1[i][1], dict) or isinstance(v, dict):
                return "TypeError"
            c1[i][1] = c1[i][1] + v
        else:
            c1.append([k, v])
            keys1.append(k)
    return c1


# ---------------------------------------------------------------------------- Coq literals

PRELUDE = """
From Cffi Require Import C35.PyStr C35.Model C35.Gen.
Definition ostr_eqb (a b : option str) := match a, b with Some x, Some y => str_eqb x y | None, None => true | _, _ => false end.
Definition flag_eqb (a b : flag) := match a, b with FStr x, FStr y => str_eqb x y | FTuple x, FTuple y => list_eqb ostr_eqb x y | _, _ => false end.
Definition cfgval_eqb (a b : cfgval) := match a, b with VL x, VL y => list_eqb flag_eqb x y | VX x, VX y => N.eqb x y | _, _ => false end.
Definition cfg_eqb : cfg -> cfg -> bool := list_eqb (pair_eqb str_eqb cfgval_eqb).
Definition exc_eqb (a b : exc) := match a, b with TypeError, TypeError | KeyError, KeyError | ValueError, ValueError
  | PkgConfigError, PkgConfigError | OutOfFuel, OutOfFuel | OtherError, OtherError => true | _, _ => false end.
Definition res_eqb {A} (e : A -> A -> bool) (x y : res A) := match x, y with Ok a, Ok b => e a b | Err a, Err b => exc_eqb a b | _, _ => false end.
Definition table_call (t : list ((str * str) * res str)) (lib flag : str) : res str :=
  match find (fun e => str_eqb lib (fst (fst e)) && str_eqb flag (snd (fst e))) t with Some e => snd e | None => Err OtherError end.
Definition pystr_all (s : str) := (py_split s, (py_slice_from 2 s, (py_split1 61 s, (py_contains_char 61 s,
   (py_startswith s [45;73]%N, py_startswith s (@nil N)))))).
Definition pystr_eqb := pair_eqb (list_eqb str_eqb) (pair_eqb str_eqb (pair_eqb (list_eqb str_eqb) (pair_eqb Bool.eqb (pair_eqb Bool.eqb Bool.eqb)))).
Definition spaces_below (n : nat) : list N := filter is_space (map N.of_nat (seq 0 n)).
"""
EXCS = ("TypeError", "KeyError", "ValueError", "PkgConfigError")


def cexc(name):
    return name if name in EXCS else "OtherError"


def cflag(f):
    if isinstance(f, str):
        return "(FStr %s)" % cstr(f)
    return "(FTuple %s)" % clist(["None" if x is None else "(Some %s)" % cstr(x) for x in f])


def ccfg(items):
    out = []
    for k, v in items:
        val = "(VX %s)" % cn(v["x"]) if isinstance(v, dict) else "(VL %s)" % clist([cflag(f) for f in v])
        out.append(cpair(cstr(k), val))
    return "(%s : cfg)" % clist(out)


def cres(r, ok):
    """r: exception class name (str) or a value rendered by ok()"""
    return "(Err %s)" % cexc(r) if isinstance(r, str) else "(Ok %s)" % ok(r)


def ctable(case):
    rows = []
    for key, e in sorted(case["table"].items()):
        lib, flag = key.split("\0")
        r = entry_result(e)
        rows.append(cpair(cpair(cstr(lib), cstr(flag)),
                          "(Ok %s)" % cstr(r[1]) if r[0] == "ok" else "(Err PkgConfigError)"))
    return clist(rows)


# ---------------------------------------------------------------------------- evaluation

def multi_mismatches(groups, prelude, per_file=500, jobs=6, timeout=900):
    """Like vlib.coq_mismatches for several (name, fexpr, eqb, cases) groups at once, packed into as few coqc
    runs as possible (coqc start-up dominates).  Returns {name: (bad indices, {index: model output}, error)}."""
    header = ("From Coq Require Import ZArith NArith List Bool String.\nImport ListNotations.\n"
              "From Cffi Require Import Base.Corr.\n" + prelude + "\n")
    chunks = []
    for name, fexpr, eqb, cases in groups:
        for st in range(0, len(cases), per_file):
            chunks.append((name, fexpr, eqb, st, cases[st:st + per_file]))
    files, cur, n = [], [], 0
    for ch in chunks:
        if cur and n + len(ch[4]) > per_file:
            files.append(cur)
            cur, n = [], 0
        cur.append(ch)
        n += len(ch[4])
    if cur:
        files.append(cur)
    res = {name: ([], {}, None) for name, _, _, _ in groups}
    if not files:
        return res
    d = vlib.mkscratch("coq")
    try:
        procs = []
        for k, chs in enumerate(files):
            path = os.path.join(d, "m%d.v" % k)
            with open(path, "w") as f:
                f.write(header)
                for j, (name, fexpr, eqb, st, cs) in enumerate(chs):
                    f.write("Definition cases_%d := [\n%s\n].\n" % (j, ";\n".join("(%s, %s)" % c for c in cs)))
                    f.write("Eval vm_compute in mismatches (%s) (%s) cases_%d.\n" % (eqb, fexpr, j))
            procs.append((chs, path))
        running = []

        def reap():
            chs, p = running.pop(0)
            out, _ = p.communicate()
            found = re.findall(r"=\s*\[(.*?)\]\s*:\s*list N", out, re.S)
            if p.returncode != 0 or len(found) != len(chs):
                for name, _, _, _, _ in chs:
                    res[name] = (res[name][0], res[name][1], "coqc failed: " + out[-1500:])
                return
            for (name, fexpr, eqb, st, cs), body in zip(chs, found):
                for tok in body.replace("%N", "").split(";"):
                    if tok.strip():
                        res[name][0].append(st + int(tok))
        for chs, path in procs:
            while len(running) >= jobs:
                reap()
            running.append((chs, subprocess.Popen(
                ["timeout", str(timeout), "coqc"] + vlib.COQ_FLAGS + ["-Q", d, "Scratch", path],
                stdout=subprocess.PIPE, stderr=subprocess.STDOUT, text=True, cwd=d)))
        while running:
            reap()
        # model outputs at (a few) mismatches, for the replay files
        detail = []
        for name, fexpr, eqb, cases in groups:
            for i in sorted(res[name][0])[:5]:
                detail.append((name, i, "Eval vm_compute in (%s) (%s).\n" % (fexpr, cases[i][0])))
        if detail:
            ok, out = vlib.coq_eval([], header.split("Import ListNotations.\n", 1)[1] + "".join(x[2] for x in detail),
                                    timeout=timeout, workdir=d, name="detail")
            parts = re.split(r"^\s*= ", out, flags=re.M)[1:]
            for (name, i, _), c in zip(detail, parts):
                res[name][1][i] = " ".join(c.split())[:1500]
    finally:
        import shutil
        shutil.rmtree(d, ignore_errors=True)
        if d in vlib._scratch_dirs:
            vlib._scratch_dirs.remove(d)
    for name in res:
        res[name] = (sorted(res[name][0]), res[name][1], res[name][2])
    return res


def canon_items(items):
    return json.dumps(items, sort_keys=False, ensure_ascii=True)


def evaluate(ctx, cases):
    by = {}
    for c in cases:
        by.setdefault(c["kind"], []).append(c)
    groups = []      # (name, fexpr, eqb, coq cases, owners, correspondence name)
    # --- Python primitives of PyStr.v against CPython (trusted-base validation, every run)
    sp_cases = by.get("isspace", [])
    for c in sp_cases:
        ws = [cp for cp in range(0x110000) if chr(cp).isspace()]
        via_split = [cp for cp in range(0x3100) if ("a" + chr(cp) + "b").split() != ["a" + chr(cp) + "b"]]
        ctx.count()
        if ws != WS or via_split != WS:
            ctx.mismatch(c, "CPython's whitespace set differs from the recorded one", "PyStr.is_space vs CPython")
    groups.append(("is_space", "spaces_below", "list_eqb N.eqb",
                   [("12400%nat", cbytes(WS)) for c in sp_cases], sp_cases, "C35.PyStr.is_space vs CPython str.isspace"))
    pcases, pcoq = by.get("pystr", []), []
    for c in pcases:
        s = "".join(chr(x) for x in c["s"])
        exp = cpair(clist([cstr(t) for t in s.split()]), cpair(cstr(s[2:]), cpair(
            clist([cstr(t) for t in s.split("=", 1)]), cpair(cbool("=" in s), cpair(
                cbool(s.startswith("-I")), cbool(s.startswith("")))))))
        pcoq.append((cbytes(c["s"]), exp))
        ctx.count()
        if s.split() != oracle_tokens(s):
            ctx.mismatch(c, "regex tokenisation oracle differs from str.split() on %r" % s, "oracle vs CPython")
        if len(s.split()) > 1 and any(ord(ch) > 127 for ch in s):
            ctx.nontrivial(("pystr", c["s"]))
    groups.append(("pystr", "pystr_all", "pystr_eqb", pcoq, pcases, "C35.PyStr vs CPython str methods"))
    # --- real functions
    work = [c for c in cases if c["kind"] in ("flags", "flags-stub", "merge", "call")]
    fl_coq, fl_own, mg_coq, mg_own, cl_coq, cl_own, av_coq, av_own = [], [], [], [], [], [], [], []
    results = []
    if work:
        s = ctx.scratch()
        out, p = s.run_worker("c35_worker.py", dict(cases=work), timeout=1800)
        if out is None:
            ctx.violation(work[0], "worker failed: " + (p.stderr[-1500:] or p.stdout[-500:]))
            return
        results = out["results"]
    for c, r in zip(work, results):
        ctx.count()
        ctx.hist("kind", c["kind"])
        res = r["result"]      # items list | exception class name
        if isinstance(res, dict) and "unexpected" in res:
            ctx.violation(c, "%s returned an object outside the documented shape: %s" % (c["kind"], res["unexpected"]))
            continue
        if c["kind"] in ("flags", "flags-stub"):
            want = oracle_flags(c)
            ctx.hist("flags_outcome", want if isinstance(want, str) else "ok/%d libs" % len(c["libs"]))
            if canon_items(res) != canon_items(want):
                ctx.violation(c, "flags_from_pkgconfig(%r) = %s; the property requires %s" % (
                    c["libs"], canon_items(res)[:400], canon_items(want)[:400]))
            elif not isinstance(want, str) and len(c["libs"]) >= 2 and sum(len(v) for _, v in want) >= 3:
                ctx.nontrivial((c["libs"], sorted(c["table"].items())))
            if c["kind"] == "flags-stub":
                for argv in r.get("argv", []):
                    if len(argv) != 3 or argv[0] != "--print-errors" or argv[1] not in ("--cflags", "--libs") \
                            or argv[2] not in c["libs"]:
                        ctx.violation(c, "pkg-config was run with unexpected arguments %r" % (argv,))
            fl_coq.append((cpair(ctable(c), clist([cstr(l) for l in c["libs"]])), cres(res, ccfg)))
            fl_own.append(c)
        elif c["kind"] == "merge":
            want = oracle_merge(c)
            ctx.hist("merge_outcome", want if isinstance(want, str) else "ok")
            if canon_items(res) != canon_items(want):
                ctx.violation(c, "merge_flags(%s, %s) = %s; the property requires %s" % (
                    canon_items(c["cfg1"])[:200], canon_items(c["cfg2"])[:200], canon_items(res)[:300],
                    canon_items(want)[:300]))
            elif not isinstance(want, str) and {k for k, _ in c["cfg1"]} & {k for k, _ in c["cfg2"]}:
                ctx.nontrivial((c["cfg1"], c["cfg2"]))
            mg_coq.append((cpair(ccfg(c["cfg1"]), ccfg(c["cfg2"])), cres(res, ccfg)))
            mg_own.append(c)
        elif c["kind"] == "call":
            e = c["entry"]
            want = entry_result(e) if c["spawn"] == "ok" else ("err",)
            ctx.hist("call_outcome", c["spawn"] if c["spawn"] != "ok" else want[0] + "/rc=%d" % e["rc"])
            got = ("ok", res["text"]) if isinstance(res, dict) else ("err",) if res == "PkgConfigError" else ("exc", res)
            if got != want:
                ctx.violation(c, "call(%r, %r) with exit status %d and output %s gave %r; the property requires %r"
                              % (c["lib"], c["flag"], e["rc"], e["out"][:120], got, want))
            else:
                ctx.nontrivial((c["lib"], c["flag"], e["rc"], e["out"], c["spawn"]))
            if c["spawn"] == "ok" and r.get("argv") != [["--print-errors", c["flag"], c["lib"]]]:
                ctx.violation(c, "pkg-config was run with arguments %r" % (r.get("argv"),))
            data = bytes.fromhex(e["out"])
            try:
                dec = "(Some %s)" % cstr(data.decode("utf-8"))
            except UnicodeDecodeError:
                dec = "None"
            sp = "None" if c["spawn"] != "ok" else "(Some %s)" % cpair(cz(e["rc"]), cbytes(data))
            cl_coq.append((cpair(dec, sp), cres(res if isinstance(res, str) else [ord(ch) for ch in res["text"]],
                                                 cbytes)))
            cl_own.append(c)
            if c["spawn"] == "ok":
                av_coq.append((cpair(cstr(c["lib"]), cstr(c["flag"])),
                               clist([cstr(a) for a in ["pkg-config"] + (r.get("argv") or [[]])[0]])))
                av_own.append(c)
    groups += [
        ("call_argv", "fun a => call_argv (fst a) (snd a)", "list_eqb str_eqb", av_coq, av_own,
         "C35.Gen.call_argv vs argv received by the stub"),
        ("flags_from_pkgconfig", "fun a => flags_from_pkgconfig (table_call (fst a)) (snd a)", "res_eqb cfg_eqb",
         fl_coq, fl_own, "C35.Gen.flags_from_pkgconfig vs cffi.pkgconfig.flags_from_pkgconfig"),
        ("merge_flags", "fun a => merge_flags (fst a) (snd a)", "res_eqb cfg_eqb", mg_coq, mg_own,
         "C35.Gen.merge_flags vs cffi.pkgconfig.merge_flags"),
        ("call", "fun a => call_post (fun _ => fst a) false (snd a)", "res_eqb str_eqb", cl_coq, cl_own,
         "C35.Gen.call_post vs cffi.pkgconfig.call")]
    groups = [g for g in groups if g[3]]
    res = multi_mismatches([g[:4] for g in groups], PRELUDE)
    for name, fexpr, eqb, cs, own, corr in groups:
        bad, outs, err = res[name]
        if err:
            ctx.obligation_broken("C35 model evaluation (%s)" % name, err)
        for i in bad:
            ctx.mismatch(own[i], "model %s = %s; implementation: %s" % (name, outs.get(i), cs[i][1][:600]), corr)
    for k in ("flags", "merge", "flags-stub", "call"):
        for c in by.get(k, [])[:1]:
            ctx.sample(c)
    # report the smallest failing inputs first
    ctx.violations.sort(key=lambda v: len(json.dumps(v[0], default=str)))
    ctx.mismatches.sort(key=lambda v: len(json.dumps(v[0], default=str)))


def impl_fails(ctx, cases):
    """-> list of failure descriptions (or None) for flags / merge cases, decided on the implementation"""
    out, p = ctx.scratch().run_worker("c35_worker.py", dict(cases=cases), timeout=600)
    if out is None:
        return [None] * len(cases)
    res = []
    for c, r in zip(cases, out["results"]):
        want = oracle_merge(c) if c["kind"] == "merge" else oracle_flags(c)
        got = r["result"]
        res.append(None if canon_items(got) == canon_items(want) else
                   "%s: result %s; the property requires %s" % (
                       "merge_flags(%s, %s)" % (canon_items(c["cfg1"]), canon_items(c["cfg2"])) if c["kind"] == "merge"
                       else "flags_from_pkgconfig(%r) with pkg-config outputs %s" % (
                           c["libs"], {k.replace("\0", " "): "".join(map(chr, e["text"])) for k, e in c["table"].items()}),
                       canon_items(got)[:500], canon_items(want)[:500]))
    return res


def reductions(c):
    out = []
    if c["kind"] == "flags":
        for i in range(len(c["libs"])):
            libs = c["libs"][:i] + c["libs"][i + 1:]
            out.append(dict(c, libs=libs, table={k: v for k, v in c["table"].items() if k.split("\0")[0] in libs}))
        for k, e in c["table"].items():
            toks = oracle_tokens("".join(map(chr, e["text"])))
            for i in range(len(toks)):
                t2 = dict(c["table"])
                t2[k] = dict(e, text=[ord(ch) for ch in " ".join(toks[:i] + toks[i + 1:])])
                out.append(dict(c, table=t2))
            if " ".join(toks) != "".join(map(chr, e["text"])):
                t2 = dict(c["table"])
                t2[k] = dict(e, text=[ord(ch) for ch in " ".join(toks)])
                out.append(dict(c, table=t2))
    elif c["kind"] == "merge":
        for name in ("cfg1", "cfg2"):
            for i in range(len(c[name])):
                out.append(dict(c, **{name: c[name][:i] + c[name][i + 1:]}))
                k, v = c[name][i]
                if isinstance(v, list):
                    for j in range(len(v)):
                        out.append(dict(c, **{name: c[name][:i] + [[k, v[:j] + v[j + 1:]]] + c[name][i + 1:]}))
    return out


def shrink_violations(ctx, limit=2):
    done = 0
    for idx, (case, what, key) in enumerate(list(ctx.violations)):
        if done >= limit or not isinstance(case, dict) or case.get("kind") not in ("flags", "merge"):
            continue
        done += 1
        for _ in range(12):
            cands = reductions(case)
            if not cands:
                break
            fails = impl_fails(ctx, cands)
            better = [(len(json.dumps(c)), i) for i, (c, f) in enumerate(zip(cands, fails)) if f]
            if not better:
                break
            _, i = min(better)
            case, what = cands[i], fails[i]
        ctx.violations[idx] = (case, what, key)
    ctx.violations.sort(key=lambda v: len(json.dumps(v[0], default=str)))


def run(ctx):
    ctx.cov["rule"] = (
        "pystr: random strings over the 29 whitespace code points, near-miss non-whitespace code points and flag "
        "characters, every PyStr.v primitive vs CPython; flags: flags_from_pkgconfig on random package lists "
        "(0-4, repeats) whose --cflags/--libs outputs are random token sequences (own-stream, cross-stream, "
        "degenerate and non-ASCII tokens) separated by random Unicode whitespace, with pkgconfig.call replaced by a "
        "table; flags-stub/call: the same through a real stub `pkg-config` first on PATH, with exit statuses, "
        "signals, undecodable bytes, backslashes, missing/non-executable program; merge: merge_flags on random "
        "dictionaries with shared keys and non-list values. Each result is compared with an independent Python "
        "statement of the property (violation) and with the regenerated Coq model (mismatch). Non-trivial = >= 2 "
        "packages and >= 3 routed tokens / shared key / any call case; distinct by full input.")
    ctx.assumptions += [
        "translator tools/props/c35_trans.py + driver for call() (shape-matched); primitives C35/PyStr.v and dict "
        "operations C35/Model.v, validated against CPython on every run",
        "pkgconfig.call is a function of (libname, flag) during one flags_from_pkgconfig call",
        "the model is purely functional: aliasing of cfg2's lists into cfg1 and the partially merged cfg1 after a "
        "TypeError are not modelled",
        "bytes.decode is an oracle (Section variable) in call_post; os.altsep != '\\\\' on this platform"]
    evaluate(ctx, generate(ctx))
    # thorough tier, or a proof obligation / correspondence no longer checks and no failing input yet
    if not ctx.violations and (ctx.thorough or ctx.tier_search == "thorough" or ctx.mismatches):
        evaluate(ctx, generate(ctx, big=True))
    if ctx.violations:
        shrink_violations(ctx)


MANIFEST = dict(
    technique="Coq proof about a model regenerated from pkgconfig.py by a fail-closed Python-AST translator on every "
              "run + differential correspondence (real functions, stub pkg-config on PATH) + independent oracle",
    text="Proof (all inputs): str.split() is the unique tokenisation into maximal whitespace-free runs; every token of a "
         "stream belongs to exactly one keyword of that stream; flags_from_pkgconfig returns under each keyword the "
         "order-preserving selection of its tokens (prefix stripped, -D split at the first '=') from the concatenation "
         "over the packages in call order; merge_flags concatenates per-key lists (cfg1 first) and raises only TypeError; "
         "any failing call gives an exception, PkgConfigError when call raises nothing else; call() returns the output "
         "iff status 0, decodable, backslash-free. End to end, with the real call() = regenerated call_post applied to the "
         "child spawned with the regenerated call_argv (real_call, C35/Proofs2.v; spawn and decode arbitrary): "
         "flags_from_pkgconfig raises nothing but PkgConfigError (C35_end_to_end_errors: discharges the hypothesis of "
         "C35_failure_raises part 2); when every run is good the result routes the tokens of the decoded texts in call order "
         "(C35_end_to_end_ok); one run that cannot be started / exits non-zero / is undecodable / has a backslash makes the "
         "whole call raise PkgConfigError (C35_end_to_end_failure). Key set of the result (C35_result_keys): {} for no "
         "package, otherwise exactly the six keywords, each once, each a list. The model is rebuilt from the source each "
         "run, so an edit changes the Gallina the theorems are checked against (merge_flags included: a change of what "
         "extend() receives is outside the translator's subset -> fallback = broken obligation, or changes the Gallina "
         "and breaks C35_merge_flags_concat).",
    note="Trusted: Coq kernel; the translator and its primitive library (validated against CPython each run); "
         "decode as an oracle (harness: utf-8; the code binds sys.getfilesystemencoding() at import); spawn "
         "(subprocess.Popen + communicate) is an input; the shape of call() around the 8 translated holes is a pinned "
         "skeleton (CALL_SKELETON), call_post is a Gallina template filled from it; the stderr branch (message only) and "
         "list aliasing between merge_flags arguments are not modelled; which call fails FIRST is not named by a theorem "
         "(C35_end_to_end_failure gives the class, which is the same for every failure). Reading: a prefix designates a "
         "keyword within its own stream (DESIGN Appendix B).",
    design_ref="DESIGN.md §4 C35")


CALL_SKELETON = r"""Try([Assign([Name('pc', Store())], Call(Attribute(Name('subprocess', Load()), 'Popen', Load()), [Name('a', Load())], [keyword('stdout', Attribute(Name('subprocess', Load()), 'PIPE', Load())), keyword('stderr', Attribute(Name('subprocess', Load()), 'PIPE', Load()))]))], [ExceptHandler(Name('HOLE_1', Load()), 'e', [Raise(Name('HOLE_2', Load()))])], [], [])
Assign([Tuple([Name('bout', Store()), Name('berr', Store())], Store())], Call(Attribute(Name('pc', Load()), 'communicate', Load()), [], []))
If(Name('HOLE_3', Load()), [Try([Assign([Name('berr', Store())], Call(Attribute(Name('berr', Load()), 'decode', Load()), [Name('encoding', Load())], []))], [ExceptHandler(Name('Exception', Load()), body=[Pass()])], [], []), Raise(Name('HOLE_4', Load()))], [])
If(BoolOp(And(), [Compare(Attribute(Name('sys', Load()), 'version_info', Load()), [GtE()], [Tuple([Constant(3)], Load())]), UnaryOp(Not(), Call(Name('isinstance', Load()), [Name('bout', Load()), Name('str', Load())], []))]), [Try([Assign([Name('bout', Store())], Call(Attribute(Name('bout', Load()), 'decode', Load()), [Name('encoding', Load())], []))], [ExceptHandler(Name('HOLE_5', Load()), body=[Raise(Name('HOLE_6', Load()))])], [], [])], [])
If(Name('HOLE_7', Load()), [Raise(Name('HOLE_8', Load()))], [])
Return(Name('bout', Load()))"""
