"""C13 — all call paths to a C function agree.

Tie: random signatures are compiled ONCE per batch as recording functions (tools/props/c13_common.py) into an
API-mode module and a plain .so; every call is made through the four paths (lib attribute, ffi.addressof(lib, name),
in-line ABI dlopen, out-of-line ABI lib) by tools/props/c13_worker.py.  Property predicate (decides violations):
the four outcomes are equal — return value or exception class, bytes received by the callee, pointed-to memory
afterwards, errno afterwards.  Correspondence: the Coq model (coq/C13/Model.v) predicts the exception class or the
exact bytes the callee records for its arguments on the API path and on the libffi paths, and the Python result
for primitive result types.
"""
import ctypes
import os
import struct

from lib import vlib
from lib.vlib import cz, clist, cbool
import props.c13_common as cc

ID = "C13"


def regen(ctx):
    """coq/C13/Model.v takes the bound expressions of _cffi_to_c_SIGNED_FN/_UNSIGNED_FN from coq/C03/Gen.v (A1's
    regenerated model): re-run that regenerator so that the C13 theorems are checked against today's source text"""
    from props import c03_regen, c13_regen
    c03_regen.regen(ctx, vlib)
    c13_regen.regen(ctx, vlib)       # coq/C13/Gen.v: the array-flattening loops of fb_fill_type


class Unmodelled(Exception):
    pass


# ------------------------------------------------------------------ Coq literals

def zl(xs):
    return "[" + ";".join("%d" % x for x in xs) + "]"


def prim_lit(t):
    k = cc.kind(t)
    if k == 'int':
        s, sg = cc.INTS[t]
        return "(PI %d %s)" % (s, cbool(sg))
    if k == 'bool':
        return "PB"
    if k == 'char':
        return "(PC %d)" % cc.CHARS[t]
    if k == 'float':
        return {'float': "PF32", 'double': "PF64", 'long double': "PF80"}[t]
    raise Unmodelled(t)


def struct_id(t):
    return sorted(cc.STRUCTS).index(t) + 1


NOMINAL = sorted(cc.INTS) + ['_Bool'] + sorted(cc.CHARS) + sorted(cc.FLOATS)


def item_lit(it):
    if it == 'void':
        return "IVoid"
    if it in cc.STRUCTS:
        return "(IStruct %d %s)" % (struct_id(it), clist([prim_lit(ft) for fn, ft in cc.STRUCTS[it]]))
    return "(IPrim %d %s)" % (NOMINAL.index(it), prim_lit(it))


def ctype_lit(t):
    k = cc.kind(t)
    if k in ('int', 'bool', 'char', 'float'):
        return "(Prim %s)" % prim_lit(t)
    if k == 'ptr':
        return "(Ptr %s)" % item_lit(cc.PTRS[t][0])
    if k == 'struct':
        return "(Struct %d %s)" % (struct_id(t), clist([prim_lit(ft) for fn, ft in cc.STRUCTS[t]]))
    if k == 'fnptr':
        return "FnPtr"
    if k == 'astruct':      # array fields flattened (no padding): the model sees the items as consecutive fields
        return "(Struct %d %s)" % (100 + sorted(cc.ASTRUCTS).index(t), clist([prim_lit(ft) for ft in cc.ASTRUCTS[t][1]]))
    raise Unmodelled(t)


def flatten_init(spec):
    """nested list initializer -> flat list of item specs"""
    if spec[0] in ("list", "tuple"):
        out = []
        for x in spec[1]:
            out += flatten_init(x)
        return out
    return [spec]


def dbits(x):
    return struct.unpack("<Q", struct.pack("<d", x))[0]


def f32(x):
    """(bits of (float)x, bits of (double)(float)x) — the C cast, done by ctypes"""
    f = ctypes.c_float(x).value
    return struct.unpack("<I", struct.pack("<f", f))[0], dbits(f)


def hex2d(h):
    return struct.unpack("<d", bytes.fromhex(h))[0]


def d2hex(x):
    return struct.pack("<d", x).hex()


def parse_ctype(s):
    """'int[4]' -> ('int', 4) ; 'int *' -> ('int', None)"""
    s = s.strip()
    if s.endswith("]"):
        base, n = s[:-1].split("[")
        return base.strip(), int(n)
    assert s.endswith("*")
    return s[:-1].strip(), None


def encode_item(t, spec):
    """object representation (bytes) of an in-range initializer of item type t"""
    k = cc.kind(t)
    if k == 'int':
        s, sg = cc.INTS[t]
        assert spec[0] == "int"
        return (spec[1] % (1 << (8 * s))).to_bytes(s, "little")
    if k == 'bool':
        return bytes([spec[1]])
    if k == 'char':
        s = cc.CHARS[t]
        if spec[0] == "bytes":
            return bytes.fromhex(spec[1])
        if spec[0] == "str":
            return spec[1][0].to_bytes(s, "little")
    if k == 'float':
        x = hex2d(spec[1])
        if t == 'double':
            return struct.pack("<d", x)
        if t == 'float':
            return struct.pack("<I", f32(x)[0])
    if k == 'astruct':
        return b"".join(encode_item(ft, fs) for ft, fs in zip(cc.ASTRUCTS[t][1], flatten_init(spec)))
    if k == 'struct':
        out = b""
        off = 0
        for (fn, ft), fs in zip(cc.STRUCTS[t], spec[1]):
            a = cc.alignof(ft)
            pad = (-off) % a
            out += b"\0" * pad + encode_item(ft, fs)
            off = len(out)
        return out + b"\0" * (cc.sizeof(t) - len(out))
    raise Unmodelled("encode %s %r" % (t, spec))


def new_mem(ctype, init):
    base, n = parse_ctype(ctype)
    if n is None:
        if init[0] == "none":
            return base, b"\0" * cc.sizeof(base)
        return base, encode_item(base, init)
    if init[0] == "bytes":
        b = bytes.fromhex(init[1])
        return base, b + b"\0" * (n - len(b))
    assert init[0] == "list"
    out = b"".join(encode_item(base, s) for s in init[1])
    return base, out + b"\0" * (n * cc.sizeof(base) - len(out))


def pyval_lit(spec):
    t = spec[0]
    if t == "int":
        return "(PyInt %s)" % cz(spec[1])
    if t == "bool":
        return "(PyBool %s)" % cbool(spec[1])
    if t == "float":
        x = hex2d(spec[1])
        b32, w64 = f32(x)
        return "(PyFloat %d %d %d)" % (dbits(x), b32, w64)
    if t == "bytes":
        return "(PyBytes %s)" % zl(bytes.fromhex(spec[1]))
    if t == "str":
        return "(PyStr %s)" % zl(spec[1])
    if t == "none":
        return "PyNone"
    if t == "obj":
        return "PyObj"
    if t == "intlike":
        return "(PyIntLike %s)" % cz(spec[1])
    if t in ("list", "tuple"):
        return "(PyList %s)" % clist([pyval_lit(s) for s in spec[1]])
    if t == "cast":
        ct, inner = spec[1], spec[2]
        k = cc.kind(ct)
        if k == 'int' and inner[0] == "int":
            s, sg = cc.INTS[ct]
            return "(PyCPrim %s %d 0)" % (prim_lit(ct), inner[1] % (1 << (8 * s)))
        if k == 'bool' and inner[0] == "int":
            return "(PyCPrim PB %d 0)" % (1 if inner[1] else 0)
        if k == 'char' and inner[0] == "int":
            return "(PyCPrim %s %d 0)" % (prim_lit(ct), inner[1] % (1 << (8 * cc.CHARS[ct])))
        if ct == 'double' and inner[0] == "float":
            b = dbits(hex2d(inner[1]))
            return "(PyCPrim PF64 %d %d)" % (b, b)
        if ct == 'float' and inner[0] == "float":
            b32, w64 = f32(hex2d(inner[1]))
            return "(PyCPrim PF32 %d %d)" % (b32, w64)
        raise Unmodelled(spec)
    if t == "ld":
        return "(PyCPrim PF80 0 %d)" % dbits(hex2d(spec[1]))
    if t == "new":
        base, mem = new_mem(spec[1], spec[2])
        if parse_ctype(spec[1])[1] is None:
            return "(PyCPtr %s false %s)" % (item_lit(base), zl(mem))
        return "(PyCArr %s %s)" % (item_lit(base), zl(mem))
    if t == "null":
        return "(PyCPtr IVoid true [])"
    if t == "deref" and spec[1] in cc.ASTRUCTS:
        vals = [int.from_bytes(encode_item(ft, fs), "little") for ft, fs in zip(cc.ASTRUCTS[spec[1]][1], flatten_init(spec[2]))]
        return "(PyCStruct %d %s)" % (100 + sorted(cc.ASTRUCTS).index(spec[1]), zl(vals))
    if t == "deref":
        vals = []
        for (fn, ft), fs in zip(cc.STRUCTS[spec[1]], spec[2][1]):
            vals.append(int.from_bytes(encode_item(ft, fs), "little"))
        return "(PyCStruct %d %s)" % (struct_id(spec[1]), zl(vals))
    if t == "fnptr":
        return "PyCFn"
    raise Unmodelled(spec)


# ------------------------------------------------------------------ generators

def irange(t):
    s, sg = cc.INTS[t]
    return (-(1 << (8 * s - 1)), (1 << (8 * s - 1)) - 1) if sg else (0, (1 << (8 * s)) - 1)


WRONG = [["float", d2hex(1.5)], ["none"], ["str", [97]], ["bytes", "6162"], ["list", []], ["obj"],
         ["cast", "double", ["float", d2hex(2.0)]], ["new", "int *", ["int", 0]], ["ld", d2hex(1.0)]]
FLOATS = [0.0, -0.0, 1.5, -1.0, 1.0, float("inf"), float("-inf"), float("nan"), 1e300, -1e300, 3.4028235e38,
          1e-45, 5e-324, 0.1, 16777217.0, 2.0 ** 63]


def gen_int_value(rng, t, cat):
    lo, hi = irange(t)
    if cat == "valid":
        v = rng.choice([lo, hi, 0, 1, lo + 1, hi - 1, rng.randint(lo, hi), rng.randint(lo, hi), -1 if lo < 0 else 2,
                        (hi + 1) // 2])
        r = rng.random()
        if r < 0.08 and v in (0, 1):
            return ["bool", v]
        if r < 0.16:
            return ["intlike", v]
        if r < 0.28:
            ct = rng.choice(sorted(cc.INTS))
            l2, h2 = irange(ct)
            if l2 <= v <= h2:
                return ["cast", ct, ["int", v]]
        if r < 0.31:
            return ["cast", "char", ["int", v % 256]] if 0 <= v % 256 <= hi else ["int", v]
        return ["int", v]
    if cat == "oor":
        v = rng.choice([lo - 1, hi + 1, 1 << 63, -(1 << 63) - 1, 1 << 64, (1 << 64) - 1, 1 << 70, -(1 << 70),
                        lo - rng.randint(1, 1000), hi + rng.randint(1, 1000), -(1 << 63), (1 << 63) - 1, -1])
        if lo <= v <= hi:
            v = hi + 1
        return ["intlike", v] if rng.random() < 0.15 else ["int", v]
    return rng.choice(WRONG)


def gen_value(rng, t, cat):
    k = cc.kind(t)
    if k == 'int':
        return gen_int_value(rng, t, cat)
    if k == 'bool':
        if cat == "valid":
            return rng.choice([["int", 0], ["int", 1], ["bool", 0], ["bool", 1], ["intlike", 1],
                               ["cast", "_Bool", ["int", 1]], ["cast", "int", ["int", 0]]])
        if cat == "oor":
            return rng.choice([["int", 2], ["int", -1], ["int", 1 << 64], ["int", -(1 << 63)], ["int", 256],
                               ["int", (1 << 64) - 1], ["intlike", 2], ["int", -(1 << 70)], ["int", 1 << 63],
                               ["cast", "int", ["int", -1]], ["cast", "short", ["int", 2]]])
        return rng.choice(WRONG)
    if k == 'char':
        s = cc.CHARS[t]
        if cat == "valid":
            if s == 1:
                return rng.choice([["bytes", "%02x" % rng.choice([0, 65, 127, 128, 255, rng.randrange(256)])],
                                   ["cast", "char", ["int", rng.choice([0, 255, 65])]]])
            cps = [0, 65, 0xFFFF, 0xD800, 0xDFFF, 0xE9] + ([0x10000, 0x10FFFF, 0x1F600] if s == 4 else [])
            r = rng.random()
            if r < 0.2:
                return ["cast", t, ["int", rng.choice([0, 65, 0xFFFF])]]
            return ["str", [rng.choice(cps)]]
        if cat == "oor" and s == 2:
            return ["str", [rng.choice([0x10000, 0x10FFFF])]]
        return rng.choice([["bytes", ""], ["bytes", "6162"], ["int", 65], ["none"], ["str", []], ["str", [97, 98]],
                           ["str", [97]] if s == 1 else ["bytes", "61"], ["float", d2hex(65.0)],
                           ["cast", "int", ["int", 65]], ["obj"],
                           ["cast", "char", ["int", 65]] if s != 1 else ["cast", "wchar_t", ["int", 65]]])
    if k == 'float':
        if cat == "valid":
            r = rng.random()
            x = rng.choice(FLOATS)
            if r < 0.55:
                return ["float", d2hex(x)]
            if r < 0.75:
                return ["int", rng.choice([0, 1, -1, 2, -7, 255, 16777215, -16777215, 1 << 20])]
            if r < 0.8:
                return ["bool", rng.choice([0, 1])]
            if r < 0.9 or t == 'float':
                return ["cast", "float", ["float", d2hex(x)]] if t != 'double' or True else None
            if t == 'long double' and r < 0.97:
                return ["ld", d2hex(x)]
            return ["cast", "double", ["float", d2hex(x)]]
        if cat == "oor":
            return ["int", rng.choice([1 << 1100, -(1 << 1100), 1 << 1024])]
        return rng.choice([["none"], ["str", [97]], ["obj"], ["intlike", 3], ["list", []], ["bytes", "61"],
                           ["new", "int *", ["int", 0]], ["cast", "int", ["int", 3]]])
    if k == 'struct':
        return gen_struct_value(rng, t, cat)
    if k == 'astruct':
        return gen_astruct_value(rng, t, cat)
    if k == 'ptr':
        return gen_ptr_value(rng, t, cat)
    if k == 'fnptr':
        if cat == "valid":
            return rng.choice([["fnptr"], ["fnptr"], ["null"]])
        return rng.choice([["int", 0], ["none"], ["new", "int *", ["int", 0]], ["float", d2hex(0.0)],
                           ["bytes", "00"], ["list", []]])
    raise KeyError(t)


def gen_field_inits(rng, t, cat):
    vals = []
    flds = cc.STRUCTS[t]
    bad = rng.randrange(len(flds)) if cat != "valid" else -1
    for i, (fn, ft) in enumerate(flds):
        c = "valid" if i != bad else cat
        # only plain initializers inside aggregates (keeps the encoder simple)
        v = gen_value(rng, ft, c)
        tries = 0
        while c == "valid" and v[0] not in ("int", "float", "bytes", "str") and tries < 20:
            v = gen_value(rng, ft, c)
            tries += 1
        if c == "valid" and cc.kind(ft) == 'float' and v[0] != "float":
            v = ["float", d2hex(1.25)]
        vals.append(v)
    return vals


def nest(items, dims):
    """shape a flat list of item specs into nested ['list', ...] initializers"""
    if not dims:
        return items[0]
    step = len(items) // dims[0]
    return ["list", [nest(items[i * step:(i + 1) * step], dims[1:]) for i in range(dims[0])]]


def astruct_init(rng, t):
    flat = cc.ASTRUCTS[t][1]
    items = [plain_item(rng, ft) for ft in flat]
    out, pos = [], 0
    for dims in cc.ASHAPES[t]:
        n = 1
        for d in dims:
            n *= d
        out.append(nest(items[pos:pos + n], dims))
        pos += n
    return ["list", out]


def gen_astruct_value(rng, t, cat):
    if cat == "valid":
        init = astruct_init(rng, t)
        return ["deref", t, init] if rng.random() < 0.65 else init
    other = rng.choice([s for s in sorted(cc.ASTRUCTS) if s != t])
    return rng.choice([["int", 0], ["none"], ["deref", other, astruct_init(rng, other)], ["float", d2hex(0.0)],
                       ["deref", "struct s1", ["list", [["int", 1], ["int", 2]]]]])


def gen_struct_value(rng, t, cat):
    if cat == "valid":
        vals = gen_field_inits(rng, t, "valid")
        r = rng.random()
        if r < 0.4:
            return ["deref", t, ["list", vals]]
        if r < 0.5 and len(vals) > 1:
            return ["list", vals[:rng.randrange(0, len(vals))]]      # partial initializer
        return [rng.choice(["list", "tuple"]), vals]
    if cat == "oor":
        r = rng.random()
        if r < 0.5:
            return ["list", gen_field_inits(rng, t, "oor")]
        return ["list", gen_field_inits(rng, t, "valid") + [["int", 0]]]       # too many initializers
    other = rng.choice([s for s in sorted(cc.STRUCTS) if s != t])
    return rng.choice([["int", 0], ["none"], ["deref", other, ["list", gen_field_inits(rng, other, "valid")]],
                       ["float", d2hex(0.0)], ["bytes", "00"], ["list", gen_field_inits(rng, t, "wrong")],
                       ["new", t + " *", ["list", gen_field_inits(rng, t, "valid")]]])


def plain_item(rng, it, cat="valid"):
    v = gen_value(rng, it, cat)
    tries = 0
    while cat == "valid" and v[0] not in ("int", "float", "bytes", "str") and tries < 30:
        v = gen_value(rng, it, cat)
        tries += 1
    if cat == "valid" and cc.kind(it) == 'float' and v[0] != "float":
        v = ["float", d2hex(-2.5)]
    if cat == "valid" and it == 'float' and v[0] == "float":
        pass
    return v


def gen_ptr_value(rng, t, cat):
    it, const = cc.PTRS[t]
    isz = cc.item_size(t)
    if cat == "valid":
        r = rng.random()
        if it in cc.STRUCTS:
            if r < 0.2:
                return ["null"]
            return ["new", it + " *", ["list", gen_field_inits(rng, it, "valid")]]
        if it == 'void':
            src = rng.choice(["int", "unsigned char", "short", "double"])
            if r < 0.15:
                return ["null"]
            if r < 0.4 and const:
                return ["bytes", bytes(rng.randrange(256) for _ in range(rng.randrange(0, 6))).hex()]
            return ["new", "%s[4]" % src, ["list", [plain_item(rng, src) for _ in range(rng.randrange(0, 5))]]]
        if r < 0.1:
            return ["null"]
        if r < 0.4:
            n = rng.choice([4, 4, 5, 8])
            return ["new", "%s[%d]" % (it, n), ["list", [plain_item(rng, it) for _ in range(rng.randrange(0, n + 1))]]]
        if r < 0.5:
            return ["new", it + " *", plain_item(rng, it)]
        if r < 0.62 and const and isz == 1 and cc.kind(it) != 'bool':
            return ["bytes", bytes(rng.randrange(256) for _ in range(rng.randrange(0, 7))).hex()]
        if r < 0.62 and const and cc.kind(it) == 'bool':
            return ["bytes", bytes(rng.randrange(2) for _ in range(rng.randrange(0, 7))).hex()]
        if r < 0.7 and const and cc.kind(it) == 'char' and isz > 1:
            pool = [65, 0xE9, 0xFFFF, 0x20AC] + [0x10000, 0x1F600, 0x10FFFF]
            return ["str", [rng.choice(pool) for _ in range(rng.randrange(0, 5))]]
        if r < 0.72 and it in ('char', 'unsigned char', 'signed char', 'int8_t'):
            other = rng.choice([x for x in ('char', 'unsigned char', 'signed char') if x != it])
            return ["new", "%s[4]" % other, ["list", []]]
        n = rng.choice([0, 1, 2, 4, 5, 7, 200 if isz <= 2 else 70])      # 512/640-byte alloca thresholds in reach
        n = min(n, 1000 // max(1, isz))
        return [rng.choice(["list", "tuple"]), [plain_item(rng, it) for _ in range(n)]]
    if cat == "oor":
        if it == 'void' or it in cc.STRUCTS:
            return ["list", [["int", 0]]] if it == 'void' else ["int", 0]
        n = rng.randrange(1, 6)
        items = [plain_item(rng, it) for _ in range(n)]
        items[rng.randrange(n)] = gen_value(rng, it, rng.choice(["oor", "wrong"]))
        if cc.kind(it) == 'bool' and rng.random() < 0.4 and const:
            return ["bytes", bytes([1, 0, 2]).hex()]
        return ["list", items]
    others = [x for x in ("short", "double", "uint64_t", "int") if x != it and cc.sizeof(x) != isz or it == 'void']
    wrong = [["int", 0], ["none"], ["float", d2hex(0.0)], ["obj"], ["cast", "int", ["int", 0]], ["fnptr"]]
    if it != 'void' and others:
        wrong.append(["new", "%s[4]" % rng.choice(others), ["list", []]])
        wrong.append(["new", "%s[4]" % rng.choice(others), ["list", []]])
    if not (it == 'void' or isz == 1) or not const:
        wrong.append(["bytes", "616263"] if not (it in ('void', 'char') or (cc.kind(it) in ('int', 'bool') and isz == 1))
                     else ["str", [97, 98]])
    if not (cc.kind(it) == 'char' and isz > 1):
        wrong.append(["str", [97, 98, 99]])
    return rng.choice(wrong)


def avail_bytes(t, spec):
    """pointee bytes the callee may read for this argument"""
    isz = cc.item_size(t)
    k = spec[0]
    if k == "new":
        base, n = parse_ctype(spec[1])
        return cc.sizeof(base) * (n if n is not None else 1)
    if k in ("list", "tuple"):
        return max(1, len(spec[1]) * isz)
    if k == "bytes":
        return len(bytes.fromhex(spec[1])) + 1
    if k == "str":
        units = sum(2 if (c > 0xFFFF and isz == 2) else 1 for c in spec[1])
        return (units + 1) * isz
    return 0


ALLT = sorted(cc.INTS) + ['_Bool'] + sorted(cc.CHARS) + sorted(cc.FLOATS) + sorted(cc.PTRS) + sorted(cc.STRUCTS) \
    + sorted(cc.ASTRUCTS) + [cc.FNPTR]


def const_for(rng, t):
    k = cc.kind(t)
    if k == 'int':
        lo, hi = irange(t)
        return rng.choice([lo, hi, 0, -1 if lo < 0 else hi, rng.randint(lo, hi), 1, hi // 2 + 1])
    if k == 'bool':
        return rng.choice([0, 1])
    if k == 'char':
        s = cc.CHARS[t]
        return rng.choice([0, 65, 255, 200] if s == 1 else [65, 0xFFFF, 0xD7FF, 0x20AC] + ([0x10FFFF, 0x1F600] if s == 4 and t != 'char16_t' else []))
    if k == 'float':
        x = rng.choice([v for v in FLOATS if v == v])
        if t == 'float':
            x = ctypes.c_float(x).value
        return d2hex(x)
    if k == 'struct':
        return [const_for(rng, ft) for fn, ft in cc.STRUCTS[t]]
    if k == 'astruct':
        return [const_for(rng, ft) for ft in cc.ASTRUCTS[t][1]]
    if k == 'ptr':
        return rng.choice([None, 0, 8, 24])
    raise KeyError(t)


def gen_sig(rng, i):
    if rng.random() < 0.1:
        return dict(name="vf%d" % i, variadic=True, res="long long", args=["int", "const char *"], ret=["expr"])
    nargs = rng.choice([0, 1, 1, 2, 2, 3, 3, 4, 5, 6, 7])
    weights = rng.choice(["mixed", "mixed", "ints", "ptrs", "small", "fp"])
    pool = {"mixed": ALLT, "ints": sorted(cc.INTS) + ['_Bool'] + sorted(cc.CHARS), "ptrs": sorted(cc.PTRS) + ['int', cc.FNPTR],
            "small": ['int8_t', 'uint8_t', 'int16_t', 'uint16_t', '_Bool', 'char', 'char16_t', 'struct s4', 'float'],
            "fp": sorted(cc.FLOATS) + ['struct s5', 'struct s2', 'int', 'struct s3', 'struct s6'] + sorted(cc.ASTRUCTS)}[weights]
    args = [rng.choice(pool) for _ in range(nargs)]
    r = rng.random()
    rpool = [t for t in ALLT if t != cc.FNPTR] + ['void']
    if args and r < 0.45:
        cand = [j for j, t in enumerate(args) if t != cc.FNPTR]
        if cand:
            j = rng.choice(cand)
            return dict(name="f%d" % i, res=args[j], args=args, ret=["arg", j])
    res = rng.choice(rpool)
    ret = ["void"] if res == 'void' else ["const", const_for(rng, res)]
    return dict(name="f%d" % i, res=res, args=args, ret=ret)


VARARGS = [
    (["cast", "int", ["int", -5]], "i"), (["cast", "short", ["int", -3]], "i"), (["cast", "unsigned char", ["int", 250]], "i"),
    (["cast", "signed char", ["int", -128]], "i"), (["cast", "char", ["int", 200]], "i"), (["cast", "_Bool", ["int", 1]], "i"),
    (["cast", "unsigned short", ["int", 65535]], "i"), (["cast", "unsigned int", ["int", 4294967295]], "u"),
    (["cast", "long", ["int", -(1 << 62)]], "l"), (["cast", "unsigned long long", ["int", (1 << 64) - 1]], "l"),
    (["cast", "double", ["float", d2hex(-1.5)]], "d"), (["cast", "double", ["float", d2hex(1e300)]], "d"),
    (["new", "int[4]", ["list", [["int", 1], ["int", 2], ["int", 3], ["int", 4]]]], "p"), (["null"], "p"),
    (["new", "unsigned char[8]", ["list", []]], "p"),
    (["deref", "struct s1", ["list", [["int", -7], ["int", 9]]]], "s"),
    (["cast", "int64_t", ["int", 1 << 40]], "l"), (["cast", "int", ["int", 2147483647]], "i"),
]
VAR_WRONG = [["int", 5], ["none"], ["float", d2hex(1.0)], ["bytes", "6162"], ["list", []], ["str", [97]]]


def gen_call(rng, sigs, si, cid):
    sig = sigs[si]
    errno = rng.choice([0, 1, 2, 11, 4095, rng.randrange(0, 5000)])
    if sig.get("variadic"):
        n = rng.randrange(0, 6)
        va, fmt = [], ""
        for _ in range(n):
            v, ch = rng.choice(VARARGS)
            va.append(v)
            fmt += ch
        cats = ["valid"]
        if rng.random() < 0.25 and n:
            va[rng.randrange(n)] = rng.choice(VAR_WRONG)
            cats = ["wrong"]
        a0 = gen_value(rng, "int", rng.choice(["valid"] * 5 + ["oor", "wrong"]))
        args = [a0, ["bytes", fmt.encode().hex()]] + va
        plen = [0, 0] + [avail_bytes("void *", v) if v[0] == "new" else 0 for v in va]
        plen = (plen + [0] * 8)[:8]
        return dict(id=cid, sig=si, args=args, plen=plen, errno=errno, cats=cats, fmt=fmt)
    args, cats, plen = [], [], []
    mode = rng.choice(["valid"] * 5 + ["onebad"] * 4 + ["anybad"])
    bad = rng.randrange(len(sig["args"])) if sig["args"] and mode == "onebad" else -1
    for j, t in enumerate(sig["args"]):
        if j == bad:
            cat = rng.choice(["oor", "wrong"])
        elif mode == "anybad":
            cat = rng.choice(["valid", "valid", "oor", "wrong"])
        else:
            cat = "valid"
        v = gen_value(rng, t, cat)
        args.append(v)
        cats.append(cat)
        if cc.kind(t) == 'ptr':
            plen.append(min(avail_bytes(t, v), 4 * cc.item_size(t) if cc.PTRS[t][0] not in cc.STRUCTS else 8))
        else:
            plen.append(0)
    if rng.random() < 0.04:          # arity errors
        if args and rng.random() < 0.5:
            args.pop()
            plen.pop()
        else:
            args.append(["int", 0])
            plen.append(0)
        cats.append("arity")
    plen = (plen + [0] * 8)[:8]
    return dict(id=cid, sig=si, args=args, plen=plen, errno=errno, cats=cats)


def directed_values(t):
    """model-directed sweep: every comparison of the two conversion families, on/just below/just above the boundary"""
    k = cc.kind(t)
    if k == 'int':
        lo, hi = irange(t)
        vs = [lo, hi, lo - 1, hi + 1, -1, 1 << 63, -(1 << 63) - 1, 1 << 64]
        out = [(["int", v], "valid" if lo <= v <= hi else "oor") for v in dict.fromkeys(vs)]
        out += [(["intlike", hi + 1], "oor"), (["float", d2hex(1.0)], "wrong"),
                (["cast", "unsigned long long", ["int", (1 << 64) - 1]], "valid" if hi == (1 << 64) - 1 else "oor")]
        return out
    if k == 'bool':
        return [(["int", v], "valid" if v in (0, 1) else "oor") for v in (0, 1, 2, -1, 255, 256, 1 << 63, (1 << 64) - 1, 1 << 64, -(1 << 63), -(1 << 64))] + \
            [(["bool", 1], "valid"), (["bool", 0], "valid"), (["intlike", 2], "oor"), (["intlike", 1], "valid"),
             (["cast", "int", ["int", 2]], "oor"), (["cast", "short", ["int", -1]], "oor"), (["float", d2hex(1.0)], "wrong"), (["none"], "wrong")]
    if k == 'char':
        s = cc.CHARS[t]
        if s == 1:
            return [(["bytes", "%02x" % c], "valid") for c in (0, 1, 127, 128, 255)] + \
                [(["bytes", ""], "wrong"), (["bytes", "6162"], "wrong"), (["int", 65], "wrong"), (["str", [97]], "wrong"),
                 (["cast", "char", ["int", 255]], "valid"), (["cast", "wchar_t", ["int", 65]], "wrong"), (["none"], "wrong")]
        cps = [0, 65, 0xD7FF, 0xD800, 0xDFFF, 0xFFFE, 0xFFFF, 0x10000, 0x10FFFF]
        return [(["str", [c]], "valid" if (s == 4 or c <= 0xFFFF) else "oor") for c in cps] + \
            [(["str", []], "wrong"), (["str", [97, 98]], "wrong"), (["bytes", "61"], "wrong"), (["int", 65], "wrong"),
             (["cast", t, ["int", 0xFFFF]], "valid"), (["cast", "char", ["int", 65]], "wrong"), (["none"], "wrong")]
    if k == 'float':
        out = [(["float", d2hex(x)], "valid") for x in FLOATS[:10]]
        out += [(["int", v], "valid") for v in (-1, 16777215)]
        out += [(["int", 1 << 1024], "oor"), (["int", -(1 << 1024)], "oor"), (["bool", 1], "valid"), (["none"], "wrong"),
                (["intlike", 1], "wrong"), (["str", [49]], "wrong"), (["cast", "float", ["float", d2hex(-1.0)]], "valid"),
                (["cast", "int", ["int", 1]], "wrong")]
        if t == 'long double':
            out += [(["ld", d2hex(-1.0)], "valid"), (["ld", d2hex(1e300)], "valid")]
        return out
    return []


def generate(ctx):
    rng = ctx.rng
    batches = []
    for b in range(ctx.n(1, 4)):
        nsig = ctx.n(56, 110)
        sigs = [gen_sig(rng, i) for i in range(nsig)]
        # directed: one signature per integer type echoing its argument, so every bound is exercised
        for t in sorted(cc.INTS) + ['_Bool', 'char', 'wchar_t', 'char16_t', 'float', 'double', 'long double']:
            sigs.append(dict(name="f%d" % len(sigs), res=t, args=[t], ret=["arg", 0], directed=True))
        # structs whose array fields fb_fill_type has to flatten (2 and 3 dimensions; <= 16 bytes in registers, 17..32 in
        # memory), as argument and as result, alone and after/before another argument
        for t in sorted(cc.ASTRUCTS):
            sigs.append(dict(name="f%d" % len(sigs), res=t, args=[t], ret=["arg", 0]))
            sigs.append(dict(name="f%d" % len(sigs), res=t, args=["int", t, "double"], ret=["const", const_for(rng, t)]))
        # temporary arrays of structs built from lists of PARTIAL initializers, below / at / above the 512- and 640-byte
        # alloca thresholds of the two callers (the heap path must clear the block too): each call is preceded by a
        # same-sized call with every field set, so that a recycled heap block is not zero by accident
        big = []
        for t, full, part in (("struct s1", [["int", -1], ["int", -1]], [["int", 7]]),
                              ("struct s6", [["int", 255], ["int", 65535], ["int", (1 << 64) - 1], ["int", -1]], [["int", 9]])):
            sz = cc.sizeof(t)
            sigs.append(dict(name="f%d" % len(sigs), res="int", args=["const %s *" % t, "int"], ret=["const", 0]))
            for n in sorted({8, 512 // sz, 512 // sz + 1, 640 // sz, 640 // sz + 1, 64, 100, 300}):
                for items in (full, part, []):
                    big.append((len(sigs) - 1, ["list", [["list", items]] * n], n * sz))
        calls = []
        for si, arg, nbytes in big:
            calls.append(dict(id=len(calls), sig=si, args=[arg, ["int", len(arg[1])]], plen=[nbytes] + [0] * 7,
                              errno=rng.choice([0, 5]), cats=["valid", "valid"]))
        for si in range(len(sigs)):
            if any(si == b_[0] for b_ in big):
                continue
            if sigs[si].get("directed") and b == 0:
                for v, cat in directed_values(sigs[si]["args"][0]):
                    calls.append(dict(id=len(calls), sig=si, args=[v], plen=[0] * 8, errno=rng.choice([0, 7, 4000]), cats=[cat]))
                continue
            for _ in range(ctx.n(7, 12)):
                calls.append(gen_call(rng, sigs, si, len(calls)))
        batches.append(dict(kind="batch", tag="b%d" % b, sigs=sigs, calls=calls))
    batches.append(gen_layout(rng, ctx.n(400, 3000)))
    return batches


# ------------------------------------------------------------------ exchange layout (fb_build) observed on the real ctype

LAYOUT_DECLS = cc.PRELUDE_DECLS + """
struct L1 { long double x; char c; };
struct L2 { char c[3]; };
struct L3 { short h; char c[5]; };
struct L4 { long double a[3]; int k; };
"""
LAYOUT_TYPES = (sorted(cc.INTS) + ['_Bool'] + sorted(cc.CHARS) + sorted(cc.FLOATS) + sorted(cc.STRUCTS) + sorted(cc.ASTRUCTS)
                + sorted(cc.PTRS) + [cc.FNPTR, 'struct L1', 'struct L2', 'struct L3', 'struct L4'])
LAYOUT_SMALL = ['char', 'signed char', 'short', '_Bool', 'struct s4', 'struct L2', 'struct L3', 'char16_t', 'struct a7']
LAYOUT_BIG = ['long double', 'struct L1', 'struct L4', 'struct s3', 'struct a6', 'struct a8']


def gen_layout(rng, n):
    """signatures for the fb_build observation: 0..14 arguments; result void / small / 16-aligned; runs of 1-3-5-7-byte and of
    16-aligned arguments so that both ALIGN_TO and ALIGN_ARG have work to do at every position"""
    sigs = [dict(res='void', args=[]), dict(res='long double', args=[]), dict(res='struct L1', args=['char']),
            dict(res='char', args=['struct L2', 'long double', 'struct L3', 'struct L1', 'char'])]
    while len(sigs) < n:
        pool = rng.choice([LAYOUT_TYPES, LAYOUT_TYPES, LAYOUT_SMALL, LAYOUT_BIG, LAYOUT_SMALL + LAYOUT_BIG])
        k = rng.choice([0, 1, 1, 2, 2, 3, 3, 4, 5, 6, 7, 8, 11, 14])
        res = rng.choice(['void'] + LAYOUT_TYPES) if rng.random() < 0.6 else rng.choice(LAYOUT_SMALL + LAYOUT_BIG)
        args = [rng.choice(pool) for _ in range(k)]
        if rng.random() < 0.1 and args:
            args[rng.randrange(len(args))] = rng.choice(['int[3]', 'char[]', 'struct s1[2]'])     # arrays decay to pointers
        sigs.append(dict(res=res, args=args))
    return dict(kind="layout", tag="L", sigs=sigs)


def layout_unsafe(sig, L):
    """the property-level predicate, decided on the OBSERVED numbers: every region cdata_call/ffi_call writes (the array
    of argument pointers, the result slot of max(size, sizeof(ffi_arg)) bytes, every argument) lies inside
    [0, exchange_size), regions are pairwise disjoint, and every slot is aligned as its ffi_type requires"""
    n = len(L["args"])
    regions = [("argument pointers", 0, 8 * n), ("result", L["res_off"], max(L["rsize"], 8))]
    regions += [("argument %d" % i, o, sa[0]) for i, (o, sa) in enumerate(zip(L["arg_offs"], L["args"]))]
    for name, o, sz in regions:
        if o < 0 or o + sz > L["exchange_size"]:
            return "%s [%d, %d) is outside the exchange buffer of %d bytes" % (name, o, o + sz, L["exchange_size"])
    if L["res_off"] % L["ralign"]:
        return "result slot %d is not aligned to %d" % (L["res_off"], L["ralign"])
    for i, (o, sa) in enumerate(zip(L["arg_offs"], L["args"])):
        if o % sa[1]:
            return "argument %d at %d is not aligned to %d" % (i, o, sa[1])
    rs = sorted(regions, key=lambda r: (r[1], r[1] + r[2]))
    for a, b in zip(rs, rs[1:]):
        if a[1] + a[2] > b[1]:
            return "%s [%d, %d) overlaps %s [%d, %d)" % (a[0], a[1], a[1] + a[2], b[0], b[1], b[1] + b[2])
    return None


def evaluate_layout(ctx, batch):
    s = ctx.scratch()
    out, p = s.run_worker("c13_layout_worker.py", dict(cdef=LAYOUT_DECLS, sigs=batch["sigs"]), timeout=900)
    if out is None:
        raise vlib.BuildError("C13 layout worker failed (rc=%s): %s" % (p.returncode, (p.stderr or p.stdout or "")[-1500:]))
    cases, owner = [], []
    for sig, L in zip(batch["sigs"], out["layouts"]):
        one = dict(kind="layout", tag="L", sigs=[sig])
        ctx.count(1)
        if "unreadable" in L or "error" in L:
            ctx.obligation_broken("C13 exchange-layout observation",
                                  "cannot read cif_description_t of %s(*)(%s): %r" % (sig["res"], ", ".join(sig["args"]), L))
            return
        ctx.hist("layout_nargs", len(sig["args"]))
        if len(sig["args"]) >= 2:
            ctx.nontrivial("L:%s:%s" % (sig["res"], ",".join(sig["args"])))
        why = layout_unsafe(sig, L)
        if why:
            ctx.violation(one, "fb_build laid out %s(*)(%s) unsafely: %s (observed %r)"
                          % (sig["res"], ", ".join(sig["args"]), why, L), None)
            continue
        inp = "(%s, %s, [%s])" % (cz(L["rsize"]), cz(L["ralign"]), ";".join("(%s, %s)" % (cz(a), cz(b)) for a, b in L["args"]))
        exp = zl([L["res_off"], L["exchange_size"]] + L["arg_offs"])
        cases.append((inp, exp))
        owner.append((one, sig, L))
    prelude = ("Definition zl_eqb := list_eqb Z.eqb.\n"
               "Definition lay (x : Z * Z * list (Z * Z)) : list Z := let '(rs, ra, args) := x in\n"
               "  match exec_fb_raw fb_build_prog rs ra args with Some (r, _, offs, sz) => r :: sz :: offs | None => [] end.\n")
    bad, outs_, err = vlib.coq_mismatches(["C13.FbLang", "C13.Gen"], "lay", "zl_eqb", cases,
                                          prelude=prelude, shard=400)
    if err:
        ctx.obligation_broken("C13 layout model evaluation", err)
    for b in bad:
        one, sig, L = owner[b]
        ctx.mismatch(one, "the translated fb_build statements give [res_off; exchange_size; arg offsets] = %s, the real "
                     "cif_description_t of %s(*)(%s) holds %s" % (outs_.get(b), sig["res"], ", ".join(sig["args"]),
                                                                  [L["res_off"], L["exchange_size"]] + L["arg_offs"]),
                     "C13.Gen.fb_build_prog (translated fb_build statements) vs cif_description_t read back from the ctype")
    ctx.cov.setdefault("layout_cases", 0)
    ctx.cov["layout_cases"] += len(cases)


# ------------------------------------------------------------------ evaluation

def partial_struct_arg(sig, call):
    for t, a in zip(sig["args"], call["args"]):
        if cc.kind(t) == 'struct' and a[0] in ("list", "tuple") and len(a[1]) < len(cc.STRUCTS[t]):
            return True
    return False


def rec_sizes(sig, call):
    """bytes each argument occupies in the callee's record (after the 4 errno bytes)"""
    out = []
    for j, t in enumerate(sig["args"]):
        k = cc.kind(t)
        if t == 'long double':
            out.append(8)
        elif k == 'struct':
            out.append(sum(8 if ft == 'long double' else cc.sizeof(ft) for fn, ft in cc.STRUCTS[t]))
        elif k == 'ptr':
            a = call["args"][j] if j < len(call["args"]) else ["null"]
            n = call["plen"][j] if a[0] not in ("null",) else 0
            out.append(1 + (8 if n > 64 else n))
        elif k == 'fnptr':
            out.append(5)
        else:
            out.append(cc.sizeof(t))
    return out


def locate_rec_diff(sig, call, a, b):
    """human-readable position of the first difference between two records (hex strings)"""
    x, y = bytes.fromhex(a), bytes.fromhex(b)
    if len(x) != len(y):
        return "record lengths %d vs %d" % (len(x), len(y))
    i = next((i for i in range(len(x)) if x[i] != y[i]), None)
    if i is None:
        return "records equal"
    if i < 4:
        return "errno seen by the callee: %s vs %s" % (x[:4].hex(), y[:4].hex())
    pos = 4
    if not sig.get("variadic"):
        for j, n in enumerate(rec_sizes(sig, call)):
            if pos <= i < pos + n:
                return "argument %d (%s), byte %d of its %d recorded bytes: %s vs %s" % (
                    j, sig["args"][j], i - pos, n, x[pos:pos + n].hex(), y[pos:pos + n].hex())
            pos += n
    return "record byte %d: %s vs %s" % (i, x[max(0, i - 4):i + 8].hex(), y[max(0, i - 4):i + 8].hex())


def eightbyte_classes(t):
    """x86-64 SysV classification of an argument type: list of 'I' (INTEGER) / 'S' (SSE) per eightbyte, or None when
    the argument is passed in memory"""
    k = cc.kind(t)
    if k in ('int', 'bool', 'char', 'ptr', 'fnptr'):
        return ['I']
    if t in ('float', 'double'):
        return ['S']
    if t == 'long double':
        return None
    if k == 'struct':
        leaves, off = [], 0
        for fn, ft in cc.STRUCTS[t]:
            off += (-off) % cc.alignof(ft)
            leaves.append((off, ft))
            off += cc.sizeof(ft)
    elif k == 'astruct':
        leaves, off = [], 0
        for ft in cc.ASTRUCTS[t][1]:
            leaves.append((off, ft))
            off += cc.sizeof(ft)
    else:
        return None
    size = cc.sizeof(t)
    if size > 16 or any(ft == 'long double' for o, ft in leaves):
        return None
    cls = ['S'] * ((size + 7) // 8)
    for o, ft in leaves:
        if ft not in ('float', 'double'):
            cls[o // 8] = 'I'
    return cls


def libffi_gpr5_spill(sig):
    """libffi 3.4.4 (ffi64.c, ffi_call_int) copies the REMAINING size of a struct into the general register slot
    of an INTEGER eightbyte: when a 9..16-byte struct (INTEGER, SSE) gets the sixth and last general register, the
    copy runs over into sse[0] and destroys the first SSE argument assigned earlier.  True when this signature
    meets exactly that condition."""
    gpr = sse = 0
    for t in sig["args"]:
        cls = eightbyte_classes(t)
        if cls is None:
            continue
        ng, ns = cls.count('I'), cls.count('S')
        if gpr + ng > 6 or sse + ns > 8:
            continue                     # in memory
        if cc.kind(t) in ('struct', 'astruct') and cls == ['I', 'S'] and gpr == 5 and sse >= 1:
            return True
        gpr += ng
        sse += ns
    return False


def finding_key(sig, call, outs=None):
    """known-finding class of a disagreement, or None"""
    if outs is not None and not sig.get("variadic") and libffi_gpr5_spill(sig):
        # narrow: only the API path differs from the three libffi paths, and only in what the callee received (and a
        # value echoed back); same exception status, errno and memory effects
        lib = outs[1:]
        if all(outcome_key(o) == outcome_key(lib[0]) for o in lib) and outs[0].get("exc") is None and lib[0].get("exc") is None \
                and outs[0].get("errno") == lib[0].get("errno") and outs[0].get("mem") == lib[0].get("mem") \
                and len(outs[0].get("rec", "")) == len(lib[0].get("rec", "")):
            return "libffi_gpr5_struct_spill"
    return None


def outcome_key(o):
    return (o.get("exc"), o.get("ret"), o.get("rec"), o.get("mem"), o.get("errno"))


def describe(sig, call):
    a = repr(call["args"])
    if len(a) > 500:
        a = a[:480] + " ...(%d chars)" % len(a)
    return "%s %s(%s) args=%s" % (sig["res"], sig["name"], ", ".join(sig["args"]), a)


def single_case(batch, call):
    """a self-contained replayable case: one signature, one call"""
    sig = dict(batch["sigs"][call["sig"]])
    c = dict(call, sig=0, id=0)
    return dict(kind="batch", tag="r", sigs=[sig], calls=[c])


def expected_ret_literal(res, o):
    """impl's Python result as a Model.pyres literal (primitive result types only)"""
    r = o["ret"]
    k = cc.kind(res) if res != 'void' else 'void'
    if r is None:
        return None
    if r[0] == "int":
        return "(@inr Z (list Z) [0; %d])" % r[1]
    if r[0] == "bool":
        return "(@inr Z (list Z) [1; %d])" % r[1]
    if r[0] == "float":
        x = hex2d(r[1])
        if res == 'float':
            b32, w64 = f32(x)
            if w64 != dbits(x) and x == x:
                return "(@inr Z (list Z) [2; 0; 0])"          # not a float value: cannot be right
            return "(@inr Z (list Z) [2; 4; %d])" % b32
        return "(@inr Z (list Z) [2; 8; %d])" % dbits(x)
    if r[0] == "bytes":
        b = bytes.fromhex(r[1])
        return "(@inr Z (list Z) [3; %d])" % b[0] if len(b) == 1 else "(@inr Z (list Z) [5])"
    if r[0] == "str":
        return "(@inr Z (list Z) [4; %d])" % r[1][0] if len(r[1]) == 1 else "(@inr Z (list Z) [5])"
    if r[0] == "none":
        return "(@inr Z (list Z) [5])"
    return "(@inr Z (list Z) [6])"


def evaluate(ctx, cases):
    for batch in cases:
        if batch.get("kind") == "layout":
            evaluate_layout(ctx, batch)
            continue
        evaluate_batch(ctx, batch, asan=False)
        if ctx.thorough and batch["tag"] in ("b0", "r"):
            evaluate_batch(ctx, batch, asan=True)


def evaluate_batch(ctx, batch, asan):
    s = ctx.scratch(asan=asan)
    sigs, calls = batch["sigs"], batch["calls"]
    tag = batch["tag"] + ("a" if asan else "")
    payload = dict(sigs=sigs, calls=calls, tag=tag, asan=asan)
    out, p = s.run_worker("c13_worker.py", payload, timeout=1500)
    if out is None:
        # crash or sanitizer report: find the call that was executing
        where = None
        try:
            txt = open(os.path.join(s.work, "c13_progress_%s.txt" % tag)).read().split()
            where = (int(txt[0]), int(txt[1]))
        except Exception:
            pass
        tail = (p.stderr or "")[-3000:]
        if where is not None and p.returncode != 0 and ("Sanitizer" in tail or p.returncode < 0 or p.returncode in (77, 78)):
            call = calls[where[0]]
            ctx.violation(single_case(batch, call),
                          "call through path %d crashed or was stopped by the sanitizer (rc=%s): %s\n%s"
                          % (where[1], p.returncode, describe(sigs[call["sig"]], call), tail[-1200:]),
                          finding_key(sigs[call["sig"]], call))
            return
        raise vlib.BuildError("C13 worker failed (rc=%s): %s" % (p.returncode, tail or p.stdout[-1500:]))
    outcomes = out["outcomes"]
    arg_cases, arg_owner, res_cases, res_owner = [], [], [], []
    for call, outs in zip(calls, outcomes):
        sig = sigs[call["sig"]]
        ctx.count(len(outs))
        herr = [o for o in outs if "harness_error" in o]
        if herr:
            raise RuntimeError("C13 harness cannot build arguments: %r %r" % (herr[0], call))
        keys = [outcome_key(o) for o in outs]
        ctx.hist("outcome", outs[0]["exc"] or "ok")
        ctx.hist("nargs", len(sig["args"]))
        for c in call["cats"]:
            ctx.hist("arg_category", c)
        # ---- property predicate: the four paths agree
        if any(k != keys[0] for k in keys[1:]):
            diffs = []
            for o in outs[1:]:
                for f in ("exc", "ret", "rec", "mem", "errno"):
                    if o.get(f) != outs[0].get(f):
                        if f == "rec" and o.get("rec") and outs[0].get("rec"):
                            diffs.append("%s vs api: callee received different bytes: %s" % (
                                o["path"], locate_rec_diff(sig, call, o["rec"], outs[0]["rec"])))
                        else:
                            diffs.append("%s: %s=%r vs api %r" % (o["path"], f, str(o.get(f))[:160], str(outs[0].get(f))[:160]))
            ctx.violation(single_case(batch, call), "paths disagree for %s: %s" % (describe(sig, call), "; ".join(diffs[:4])),
                          finding_key(sig, call, outs))
            continue
        o = outs[0]
        # ---- harness-level facts, same on every path: errno protocol, pointee effects
        e_in = call["errno"]
        if o["called"]:
            want = (e_in * 3 + call["sig"] + 1) & 0x3fff
            seen = int.from_bytes(bytes.fromhex(o["rec"][:8]), "little")
            if o["errno"] != want or seen != e_in:
                ctx.violation(single_case(batch, call), "errno not passed to/from the call: callee saw %d (set %d), "
                              "ffi.errno after = %d (callee set %d): %s" % (seen, e_in, o["errno"], want, describe(sig, call)))
        elif o["errno"] != e_in:
            ctx.violation(single_case(batch, call), "errno changed by a call that was refused: %s" % describe(sig, call))
        if o["exc"] is not None and o["called"]:
            ctx.violation(single_case(batch, call), "the C function was called although %s was raised: %s"
                          % (o["exc"], describe(sig, call)))
        if any("bad" in c or c in ("oor", "wrong", "arity") for c in call["cats"]):
            ctx.nontrivial(("err", sig["res"], sig["args"], call["args"]))
        elif any(cc.kind(t) in ('ptr', 'struct', 'astruct') for t in sig["args"]) or sig.get("variadic"):
            ctx.nontrivial(("agg", sig["res"], sig["args"], call["args"]))
        # ---- correspondence with the model
        if partial_struct_arg(sig, call):
            ctx.hist("struct_init", "partial")      # regression for the fixed finding partial_struct_init
        if any(cc.kind(t) == 'astruct' and a[0] in ("list", "tuple") for t, a in zip(sig["args"], call["args"])):
            ctx.hist("model", "unmodelled")         # nested-list initializers of array fields: four-path comparison only
            continue
        try:
            if sig.get("variadic"):
                ts = clist(["(Prim (PI 4 true))", "(Ptr %s)" % item_lit("char")])
                inp = "%s %s %s %s" % (ts, clist([pyval_lit(a) for a in call["args"][:2]]),
                                       clist([pyval_lit(a) for a in call["args"][2:]]), zl(call["plen"]))
                kindtag = "var"
            else:
                ts = clist([ctype_lit(t) for t in sig["args"]])
                inp = "%s %s %s" % (ts, clist([pyval_lit(a) for a in call["args"]]), zl(call["plen"]))
                kindtag = "fix"
        except Unmodelled:
            ctx.hist("model", "unmodelled")
            continue
        ctx.hist("model", "modelled")
        for api, oo in ((True, outs[0]), (False, outs[1])):
            if oo["exc"] is not None:
                code = {"TypeError": 1, "OverflowError": 2, "ValueError": 3, "IndexError": 4, "SystemError": 5}.get(oo["exc"], 98)
                exp = "(@inl Z (list Z) %d)" % code
            else:
                exp = "(@inr Z (list Z) %s)" % zl(bytes.fromhex(oo["rec"])[4:])
            if kindtag == "var":
                arg_cases.append(("(Var %s)" % inp, exp, "var"))
            else:
                arg_cases.append(("(Fix %s %s)" % (cbool(api), inp), exp, "fix"))
            arg_owner.append((call, api))
        if o["exc"] is None and not sig.get("variadic") and sig["res"] != 'void' and sig["ret"][0] == "const" \
                and cc.kind(sig["res"]) in ('int', 'bool', 'char', 'float') and sig["res"] != 'long double':
            v = sig["ret"][1]
            res = sig["res"]
            if cc.kind(res) == 'float':
                raw = dbits(hex2d(v)) if res == 'double' else f32(hex2d(v))[0]
            else:
                raw = v % (1 << (8 * cc.sizeof(res)))
            for api, oo in ((True, outs[0]), (False, outs[1])):
                res_cases.append(("(Res %s %s %d)" % (cbool(api), prim_lit(res), raw), expected_ret_literal(res, oo)))
                res_owner.append((call, api))
    prelude = ("Definition zl_eqb := list_eqb Z.eqb.\n"
               "Inductive anycase := Fix (api : bool) (ts : list ctype) (xs : list pyval) (pl : list Z)\n"
               "  | Var (ts : list ctype) (xs vs : list pyval) (pl : list Z) | Res (api : bool) (p : prim) (raw : Z).\n"
               "Definition enc_res (r : pyres) : list Z := match r with RInt z => [0; z] | RBool b => [1; if b then 1 else 0]\n"
               "  | RFloatOf s b => [2; s; b] | RBytes1 c => [3; c] | RStr1 c => [4; c] | RNone => [5] | RCData => [6]\n"
               "  | RErr e => [7; exn_code e] end.\n"
               "Definition run_any (c : anycase) : Z + list Z := match c with\n"
               "  | Fix api ts xs pl => call_record api ts xs pl | Var ts xs vs pl => call_record_var ts xs vs pl\n"
               "  | Res api p raw => inr (enc_res (if api then api_result p raw else ffi_result p raw)) end.\n")
    allc = [(c[0], c[1]) for c in arg_cases] + res_cases
    bad, outs_, err = vlib.coq_mismatches(["C13.Model"], "run_any", "sum_eqb Z.eqb zl_eqb", allc, prelude=prelude,
                                          shard=150)
    if err:
        ctx.obligation_broken("C13 model evaluation", err)
    for b in bad:
        if b < len(arg_cases):
            call, api = arg_owner[b]
            sig = sigs[call["sig"]]
            ctx.mismatch(single_case(batch, call), "model %s path predicts %s, implementation gave %s for %s"
                         % ("API" if api else "libffi", outs_.get(b), arg_cases[b][1][:300], describe(sig, call)),
                         "C13.Model.call_record vs generated wrapper / cdata_call")
        else:
            call, api = res_owner[b - len(arg_cases)]
            sig = sigs[call["sig"]]
            ctx.mismatch(single_case(batch, call), "model %s result conversion predicts %s, implementation returned %s for %s"
                         % ("API" if api else "libffi", outs_.get(b), res_cases[b - len(arg_cases)][1], describe(sig, call)),
                         "C13.Model.api_result/ffi_result vs _cffi_from_c_* / convert_to_object")
    ctx.cov.setdefault("model_cases", 0)
    ctx.cov["model_cases"] += len(arg_cases) + len(res_cases)
    if not asan:
        for c in calls[:2]:
            ctx.sample(dict(sig=sigs[c["sig"]], call=c))


def run(ctx):
    ctx.cov["rule"] = ("one batch = ~60-130 random signatures (0..7 arguments over 22 integer types, _Bool, char/wchar_t/"
                       "char16_t/char32_t, float/double/long double, 19 pointer types, 6 structs by value, a function "
                       "pointer; 10% variadic) compiled once as recording functions; 6-12 calls each with in-range "
                       "(boundary), out-of-range, wrong-type, list/tuple/bytes/str-for-pointer, cdata, NULL, arity-error "
                       "arguments; each call made through the four paths and compared (exception class, return value, "
                       "bytes received by the callee, pointed-to memory, errno). Non-trivial = call with an out-of-range/"
                       "wrong-type/arity argument, or with pointer/struct/variadic arguments; distinct by (signature, arguments).")
    ctx.assumptions += [
        "hand-written model C13/Model.v of the generated-wrapper conversions and of convert_from_object/convert_to_object/"
        "_prepare_pointer_call_argument; tied to the code by this run's differential test (not by translation)",
        "fb_build: the layout statements and the ALIGN_TO/ALIGN_ARG bodies are TRANSLATED from the source on every run "
        "(C13/Gen.v fb_build_prog) and proved equal to the model (C13_gen_fb_build_is_model); the control skeleton around them "
        "is matched literally; evaluation is over unbounded integers (no Py_ssize_t overflow is assumed, not proved); the "
        "translated program is also compared with the exchange_size/exchange_offset_arg[] read back (ctypes, no hook) from "
        "the cif_description_t of real function ctypes (sizes/alignments taken from the real ffi_type structs)",
        "libffi, the C calling convention and gcc are exercised by sampling only (x86-64 SysV)",
        "PyObject_Malloc returns memory aligned to at least the largest argument alignment (16)"]
    evaluate(ctx, generate(ctx))


MANIFEST = dict(
    technique="Coq proof (conversion equivalence API vs libffi for all values; exchange-buffer layout safety by induction over "
              "the argument list, about the fb_build statements translated from the source) + four-path differential execution "
              "of compiled random signatures + read-back of the real exchange layout",
    text="Proved for all inputs: C13_conv_agree / C13_call_paths_agree / C13_no_pending_exception (two hand models — generated-"
         "wrapper conversions; convert_from_object/cdata_call — give for every argument type and every Python value of the "
         "modelled universe the same C value or the same exception class, and never let a call proceed with an exception "
         "pending; reflexive for pointer/struct arguments, where both paths call the same backend function; int->float "
         "arguments with |z| >= 2^24 are outside the modelled universe); C13_source_bounds (the API bounds are the regenerated "
         "source expressions of C03/Gen.v); C13_result_agree (primitive results); C13_variadic_rejects_non_cdata / "
         "_promotion_is_C / _narrow_promoted, C13_variadic_float_refuted (replayed, finding); C13_gen_fb_build_is_model: the "
         "ALIGN_TO/ALIGN_ARG bodies and the layout statements of fb_build, translated from _cffi_backend.c on every run "
         "(C13/Gen.v fb_build_prog, language C13/FbLang.v), store for EVERY signature exactly C13.Model.fb_build; hence "
         "C13_exchange_layout_safe / C13_gen_exchange_layout_safe (slots pairwise disjoint, aligned, inside exchange_size, "
         "result slot >= sizeof(ffi_arg)) speak about the source text; C13_flatten_covers / C13_flatten_count (fb_fill_type's "
         "elements[] = the scalar leaves of the C struct, over the two regenerated flattening loops). Regenerated facts with "
         "one obligation each: C13_paths_use_modelled_code (which converter each of the four paths calls; the three libffi "
         "paths all end in cdata_call), C13_api_macros_resolve (_cffi_exports slots), C13_api_sentinels (the wrapper's in-band "
         "error values -1 / NULL read from the branch that sets them; a variadic API function is a constant function-pointer "
         "cdata, i.e. goes through cdata_call). Correspondence on every run: model vs generated wrapper and vs cdata_call "
         "(callee-received bytes / exception class / primitive results); translated fb_build program vs the cif_description_t "
         "read back from real function ctypes. Execution only (no theorem): errno, pointed-to memory, struct/pointer results, "
         "libffi and the ABI.",
    note="Trusted: Coq kernel; hand model C13/Model.v (tied by differential testing); the literal match of fb_build's control "
         "skeleton and the unbounded-integer reading of its arithmetic; gcc; libffi; CPython number protocol as modelled "
         "(PyLong_AsLongLong, PyFloat_AsDouble). Theorems closed under the global context.",
    design_ref="DESIGN.md §4 C13")
