"""C06 worker (runs inside the scratch build): resolve every primitive spelling through the in-line FFI,
_cffi_backend.FFI(), an out-of-line ABI module and (optionally) an API module; report facts and identities."""
import importlib
import importlib.util
import os
import sys

import cffi
import _cffi_backend
from cffi import model, cffi_opcode
from lib.vlib import worker_main

KEEP = []          # keeps every ctype alive so that id() tokens stay unique
IDS = {}


def tok(obj):
    if obj is None:
        return None
    k = id(obj)
    if k not in IDS:
        IDS[k] = len(IDS)
        KEEP.append(obj)
    return IDS[k]


def exc(e):
    return type(e).__name__


BOUNDS = sorted(set(v for s in (1, 2, 4, 8) for v in
                    (-(1 << (8 * s - 1)) - 1, -(1 << (8 * s - 1)), (1 << (8 * s - 1)) - 1, 1 << (8 * s - 1),
                     (1 << (8 * s)) - 1, 1 << (8 * s))) | {-2, -1, 0, 1, 2, 3})


def observed(fn, *a):
    """the value, or the exception class as the observed value"""
    try:
        return fn(*a)
    except Exception as e:
        return "raises " + type(e).__name__


def facts(ffi, t):
    if t.kind != "primitive":
        return dict(cname=t.cname, tkind=t.kind)
    r = dict(cname=t.cname, size=observed(ffi.sizeof, t), align=observed(ffi.alignof, t), tkind=t.kind)
    try:
        p = ffi.new(ffi.getctype(t, "*"))
        v = p[0]
    except Exception as e:
        r["cls"] = "raises " + type(e).__name__
        return r
    if isinstance(v, bool):
        cls = "b"
    elif isinstance(v, int):
        cls = "i"
    elif isinstance(v, float):
        cls = "f"
    elif isinstance(v, complex):
        cls = "j"
    elif isinstance(v, (bytes, str)):
        cls = "c"
    elif isinstance(v, ffi.CData):
        cls = "F"          # long double is returned as a cdata
    else:
        cls = "?" + type(v).__name__
    r["cls"] = cls
    try:
        if cls in "ibc":
            r["neg"] = int(ffi.cast(t, -1)) < 0
        if cls in "ib":
            acc = []
            for b in BOUNDS:
                try:
                    q = ffi.new(ffi.getctype(t, "*"), b)
                    acc.append([str(b), True, str(int(q[0]))])
                except OverflowError:
                    acc.append([str(b), False, None])
            r["accept"] = acc
        if cls in "fF":
            q = ffi.new(ffi.getctype(t, "*"), 0.1)
            r["exact01"] = float(q[0]) == 0.1
        if cls == "j":
            q = ffi.new(ffi.getctype(t, "*"), complex(0.1, 0.1))
            r["exact01"] = q[0] == complex(0.1, 0.1)
    except Exception as e:
        r["probe_error"] = type(e).__name__ + ": " + str(e)[:120]
    return r


def layout(ffi, tag):
    """struct <tag> { char c; T f; }: offsetof(f), sizeof, alignof - or the exception class"""
    return dict(offset=observed(ffi.offsetof, tag, "f"), size=observed(ffi.sizeof, tag),
                align=observed(ffi.alignof, tag))


def load_abi(ffi, name):
    work = os.environ["VERIF_WORK"]
    ffi.set_source(name, None)
    path = os.path.join(work, name + ".py")
    ffi.emit_python_code(path)
    spec = importlib.util.spec_from_file_location(name, path)
    mod = importlib.util.module_from_spec(spec)
    spec.loader.exec_module(mod)
    return mod


def main(payload):
    spellings = list(payload["spellings"])
    for n in sorted(set(model.PrimitiveType.ALL_PRIMITIVE_TYPES) | set(cffi_opcode.PRIMITIVE_TO_INDEX)):
        if n not in spellings:
            spellings.append(n)
    inline = cffi.FFI()
    backend = _cffi_backend.FFI()
    out = []
    accepted = []
    for sp in spellings:
        r = dict(spelling=sp)
        try:
            t = inline.typeof(sp)
            r["inline"] = tok(t)
            r["facts"] = facts(inline, t)
            accepted.append(sp)
        except (cffi.FFIError, cffi.CDefError) as e:
            r["inline_err"] = exc(e)
            t = None
        try:
            r["backend"] = tok(backend.typeof(sp))
        except Exception as e:
            r["backend_err"] = exc(e)
        if t is not None and t.kind == "primitive":
            try:
                r["newprim"] = tok(_cffi_backend.new_primitive_type(t.cname))
            except Exception as e:
                r["newprim_err"] = exc(e)
            # a second, fresh in-line FFI must give the same object (cache keyed by name, not by FFI)
            r["inline2"] = tok(cffi.FFI().typeof(sp))
        out.append(r)
    by = dict((r["spelling"], r) for r in out)

    # out-of-line ABI module: typedef -> OP_PRIMITIVE index -> primitive_name[index];
    # plus one struct { char c; T f; } per primitive: the layout shows the alignment the backend really uses
    prim_ok = [sp for sp in accepted if by[sp]["facts"]["tkind"] == "primitive"]
    ffi2 = cffi.FFI()
    ffi2.cdef("\n".join("typedef %s c06_t%d;\nstruct c06_s%d { char c; %s f; };" % (sp, i, i, sp)
                        for i, sp in enumerate(prim_ok)))
    mod = load_abi(ffi2, "_c06_abi")
    for i, sp in enumerate(prim_ok):
        r = by[sp]
        r["routes"] = {}
        for route, ff in (("in-line FFI (typedef)", ffi2), ("_cffi_backend.FFI()", backend), ("out-of-line ABI module", mod.ffi)):
            name = sp if route == "_cffi_backend.FFI()" else "c06_t%d" % i
            r["routes"][route] = dict(size=observed(ff.sizeof, name), align=observed(ff.alignof, name))
        r["layout"] = {"in-line FFI": layout(ffi2, "struct c06_s%d" % i),
                       "out-of-line ABI module": layout(mod.ffi, "struct c06_s%d" % i)}
    for i, sp in enumerate(prim_ok):
        r = by[sp]
        try:
            r["ool_typedef"] = tok(mod.ffi.typeof("c06_t%d" % i))
            r["ool_parse"] = tok(mod.ffi.typeof(sp))
            r["ool_inline_typedef"] = tok(ffi2.typeof("c06_t%d" % i))
        except Exception as e:
            r["ool_err"] = exc(e) + ": " + str(e)[:200]

    res = dict(results=out, api=None)
    if payload.get("api"):
        # API mode: (a) exact typedefs -> _CFFI_OP(_CFFI_OP_PRIMITIVE, idx) checked by the C compiler
        #           (b) `typedef int... t;` -> _cffi_prim_int(sizeof, sign); `typedef float... t;` -> _cffi_prim_float
        work = os.environ["VERIF_WORK"]
        cmap = payload["cspell"]
        ints = [sp for sp in prim_ok if by[sp]["facts"].get("cls") in ("i", "b")]
        flts = [sp for sp in prim_ok if by[sp]["facts"].get("cls") in ("f",)]
        ffi3 = cffi.FFI()
        cdef, src = [], ["#include <stddef.h>\n#include <stdint.h>\n#include <stdbool.h>\n#include <uchar.h>\n"
                         "#include <wchar.h>\n#include <sys/types.h>\n"]
        for i, sp in enumerate(prim_ok):
            cdef.append("typedef %s c06_e%d;" % (sp, i))
            src.append("typedef %s c06_e%d;" % (cmap.get(sp, sp), i))
        for i, sp in enumerate(ints):
            cdef.append("typedef int... c06_i%d;" % i)
            src.append("typedef %s c06_i%d;" % (cmap.get(sp, sp), i))
        for i, sp in enumerate(flts):
            cdef.append("typedef float... c06_f%d;" % i)
            src.append("typedef %s c06_f%d;" % (cmap.get(sp, sp), i))
        ffi3.cdef("\n".join(cdef))
        ffi3.set_source("_c06_api", "\n".join(src))
        ffi3.compile(tmpdir=work)
        sys.path.insert(0, work)
        m3 = importlib.import_module("_c06_api")
        api = dict(exact={}, dots={}, fdots={})
        for i, sp in enumerate(prim_ok):
            try:
                api["exact"][sp] = tok(m3.ffi.typeof("c06_e%d" % i))
            except Exception as e:
                api["exact"][sp] = exc(e) + ": " + str(e)[:200]
        for i, sp in enumerate(ints):
            try:
                t = m3.ffi.typeof("c06_i%d" % i)
                api["dots"][sp] = [tok(t), t.cname]
            except Exception as e:
                api["dots"][sp] = [None, exc(e)]
        for i, sp in enumerate(flts):
            try:
                t = m3.ffi.typeof("c06_f%d" % i)
                api["fdots"][sp] = [tok(t), t.cname]
            except Exception as e:
                api["fdots"][sp] = [None, exc(e)]
        # reference objects for the expected results
        api["ref"] = dict((n, tok(inline.typeof(n))) for n in
                          ["int8_t", "uint8_t", "int16_t", "uint16_t", "int32_t", "uint32_t", "int64_t", "uint64_t",
                           "float", "double"])
        res["api"] = api
    return res


if __name__ == "__main__":
    worker_main(main)
