"""C08 worker, Python-type-object side: model.BaseTypeByIdentity.get_c_name against FFI.getctype.

payload: {"groups": [{"cdef": text, "items": [{"s": type string, "x": [replace_with, ...]}, ...]}, ...]}
For every item (in-line FFI only): the model type object tp of s, its c_name_with_marker, and for every x
tp.get_c_name(x), ffi.getctype(T, x) and whether both texts denote the same ctype object."""
import cffi
from lib.vlib import worker_main


def one_group(grp):
    ffi = cffi.FFI()
    try:
        ffi.cdef(grp["cdef"])
    except Exception as e:
        return dict(cdef_error=type(e).__name__)
    out = []
    for item in grp["items"]:
        r = dict()
        try:
            ct = ffi.typeof(item["s"])
            with ffi._lock:
                tp, quals = ffi._parser.parse_type_and_quals(item["s"])
        except Exception as e:
            r["err"] = type(e).__name__
            out.append(r)
            continue
        r["marked"] = tp.c_name_with_marker
        r["quals"] = quals
        r["cname"] = ct.cname
        r["x"] = []
        for x in item["x"]:
            d = dict()
            try:
                d["getctype"] = ffi.getctype(ct, x)
            except Exception as e:
                d["getctype_err"] = type(e).__name__
            try:
                d["get_c_name"] = tp.get_c_name(x)
            except Exception as e:
                d["get_c_name_err"] = type(e).__name__
            if "getctype" in d and "get_c_name" in d:
                try:
                    a = ffi.typeof(d["getctype"])
                except Exception as e:
                    a = type(e).__name__
                try:
                    b = ffi.typeof(d["get_c_name"])
                except Exception as e:
                    b = type(e).__name__
                d["same"] = (a is b) if not isinstance(a, str) and not isinstance(b, str) else (
                    "both-rejected" if isinstance(a, str) and isinstance(b, str) else "one-rejected: %r / %r" % (
                        a if isinstance(a, str) else "ok", b if isinstance(b, str) else "ok"))
            r["x"].append(d)
        out.append(r)
    return dict(items=out)


def main(payload):
    return dict(groups=[one_group(g) for g in payload["groups"]])


if __name__ == "__main__":
    worker_main(main)
