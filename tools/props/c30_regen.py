"""C30 — regenerates coq/C30/Gen.v from src/cffi/cparser.py (shape matcher, fail closed).

What is read from the source on every run:
  * `_r_extern_python = re.compile(<pattern>)`: the pattern must be the known prefix
        \\bextern\\s*"(Python|Python\\s*\\+\\s*C|C\\s*\\+\\s*Python)"
    followed by the tail `\\s*.` (ep_requires_next = true: one more character is part of every match) or `\\s*`
    (ep_requires_next = false); no flags.
  * `_preprocess_extern_python`: ast.unparse() of the function must match the recorded template; the holes of the
    template are regenerated: the constant K of `endpos = match.end() - K` (0 when there is no subtraction), the
    character compared with csource[endpos], the three characters searched with find(), the three exception classes.
  * `_put_back_line_directives.replace`: the tuple of classes of its `except` clause (Gen.caught), the placeholder
    literal and the slice offset.
Anything else -> Untranslatable (the caller records 'fallback' AND a broken obligation: the old Gen.v is not trusted).
"""
import ast
import os
import re

from lib import py2coq


class Untranslatable(Exception):
    pass


EP_PREFIX = r'\bextern\s*"(Python|Python\s*\+\s*C|C\s*\+\s*Python)"'

# ast.unparse of _preprocess_extern_python with named holes
EP_TEMPLATE = r'''def _preprocess_extern_python(csource):
    parts = []
    while True:
        match = _r_extern_python.search(csource)
        if not match:
            break
        endpos = match.end()@ADJ@
        parts.append(csource[:match.start()])
        if 'C' in match.group(1):
            parts.append('void __cffi_extern_python_plus_c_start; ')
        else:
            parts.append('void __cffi_extern_python_start; ')
        if csource[endpos] == @BRACE@:
            closing = csource.find(@CLOSE@, endpos)
            if closing < 0:
                raise @RAISE1@(@MSG@)
            if csource.find(@INNER@, endpos + 1, closing) >= 0:
                raise @RAISE2@(@MSG@)
            parts.append(csource[endpos + 1:closing])
            csource = csource[closing + 1:]
        else:
            semicolon = csource.find(@SEMI@, endpos)
            if semicolon < 0:
                raise @RAISE3@(@MSG@)
            parts.append(csource[endpos:semicolon + 1])
            csource = csource[semicolon + 1:]
        parts.append(' void __cffi_extern_python_stop;')
    parts.append(csource)
    return ''.join(parts)'''

HOLES = {"ADJ": r"(?: - (?P<ADJ>\d+))?", "BRACE": r"(?P<BRACE>'.')", "CLOSE": r"(?P<CLOSE>'.')", "INNER": r"(?P<INNER>'.')",
         "SEMI": r"(?P<SEMI>'.')", "RAISE1": r"(?P<RAISE1>\w+)", "RAISE2": r"(?P<RAISE2>\w+)", "RAISE3": r"(?P<RAISE3>\w+)",
         "MSG": r"(?:'(?:[^'\\]|\\.)*'|\"(?:[^\"\\]|\\.)*\")"}

KNOWN_EXN = {"CDefError", "NotImplementedError", "IndexError", "ValueError", "AssertionError", "KeyError", "TypeError", "FFIError"}


def template_regex():
    out, pos = [], 0
    for m in re.finditer(r"@(\w+)@", EP_TEMPLATE):
        out.append(re.escape(EP_TEMPLATE[pos:m.start()]))
        h = HOLES[m.group(1)]
        if m.group(1) == "MSG":
            out.append(h)
        elif "(?P<%s>" % m.group(1) in "".join(out):
            raise AssertionError("hole used twice")
        else:
            out.append(h)
        pos = m.end()
    out.append(re.escape(EP_TEMPLATE[pos:]))
    return re.compile("".join(out) + r"\Z")


def translate(repo):
    path = os.path.join(repo, "src", "cffi", "cparser.py")
    tree = ast.parse(open(path).read())
    pat = fn = pb = None
    for node in tree.body:
        if (isinstance(node, ast.Assign) and len(node.targets) == 1 and isinstance(node.targets[0], ast.Name)
                and node.targets[0].id == "_r_extern_python"):
            pat = node.value
        if isinstance(node, ast.FunctionDef) and node.name == "_preprocess_extern_python":
            fn = node
        if isinstance(node, ast.FunctionDef) and node.name == "_put_back_line_directives":
            pb = node
    if pat is None or fn is None or pb is None:
        raise Untranslatable("_r_extern_python / _preprocess_extern_python / _put_back_line_directives not found")
    # ---- the regular expression
    if not (isinstance(pat, ast.Call) and ast.unparse(pat.func) == "re.compile" and len(pat.args) == 1 and not pat.keywords
            and isinstance(pat.args[0], ast.Constant) and isinstance(pat.args[0].value, str)):
        raise Untranslatable("_r_extern_python is not re.compile(<one string literal>) without flags: %s" % ast.unparse(pat)[:120])
    p = pat.args[0].value
    if not p.startswith(EP_PREFIX):
        raise Untranslatable("_r_extern_python: unexpected pattern %r" % p)
    tail = p[len(EP_PREFIX):]
    if tail == r"\s*.":
        requires_next = True
    elif tail == r"\s*":
        requires_next = False
    else:
        raise Untranslatable("_r_extern_python: unexpected tail %r after the closing quote" % tail)
    # ---- the function
    text = ast.unparse(fn)
    m = template_regex().match(text)
    if not m:
        raise Untranslatable("_preprocess_extern_python no longer has the recorded shape")
    g = m.groupdict()
    for k in ("RAISE1", "RAISE2", "RAISE3"):
        if g[k] not in KNOWN_EXN:
            raise Untranslatable("_preprocess_extern_python raises %s" % g[k])

    def ch(k):
        return ord(ast.literal_eval(g[k]))
    # ---- the handler of _put_back_line_directives.replace
    rep = [n for n in pb.body if isinstance(n, ast.FunctionDef) and n.name == "replace"]
    if len(rep) != 1 or len(rep[0].body) != 2 or not isinstance(rep[0].body[1], ast.Try):
        raise Untranslatable("_put_back_line_directives.replace: unexpected shape")
    tr = rep[0].body[1]
    if len(tr.handlers) != 1 or tr.orelse or tr.finalbody:
        raise Untranslatable("_put_back_line_directives.replace: expected exactly one except clause")
    h = tr.handlers[0]
    if h.type is None:
        raise Untranslatable("bare except")
    names = [ast.unparse(e) for e in (h.type.elts if isinstance(h.type, ast.Tuple) else [h.type])]
    if any(n not in KNOWN_EXN for n in names):
        raise Untranslatable("except clause names %r" % names)
    if not (len(h.body) == 1 and isinstance(h.body[0], ast.Raise) and isinstance(h.body[0].exc, ast.Call)
            and ast.unparse(h.body[0].exc.func) in KNOWN_EXN):
        raise Untranslatable("the handler does not raise a known class")
    handler_raises = ast.unparse(h.body[0].exc.func)
    body = ast.unparse(tr.body)
    mb = re.match(r"if not s\.startswith\((?P<lit>'[^'\\]*')\):\n    raise (?P<r>\w+)\nreturn line_directives\[int\(s\[(?P<off>\d+):\]\)\]\Z", body)
    if not mb or mb.group("r") not in KNOWN_EXN:
        raise Untranslatable("_put_back_line_directives.replace: try body changed: %r" % body[:200])
    lit = ast.literal_eval(mb.group("lit"))
    out = []
    out.append("(* GENERATED by tools/props/c30_regen.py from src/cffi/cparser.py -- do not edit.\n"
               "   Facts read from _r_extern_python, _preprocess_extern_python and _put_back_line_directives.replace. *)\n"
               "From Coq Require Import ZArith NArith List.\nImport ListNotations.\n\n"
               "Inductive exn := CDefError | NotImplementedError | IndexError | ValueError | AssertionError | KeyError | TypeError\n"
               "               | FFIError | OutOfFuel.\n\n")
    out.append("(* _r_extern_python = re.compile(%s): prefix as modelled; tail %r *)\n" % (ascii(p).replace("*)", "* )").replace('"', "<dq>"), tail.replace('"', "<dq>")))
    out.append("Definition ep_requires_next : bool := %s.\n" % ("true" if requires_next else "false"))
    out.append("(* endpos = match.end()%s *)\n" % (" - %s" % g["ADJ"] if g["ADJ"] else ""))
    out.append("Definition ep_end_adjust : Z := %d%%Z.\n" % int(g["ADJ"] or 0))
    out.append("(* if csource[endpos] == %s *)\nDefinition ep_brace : N := %d%%N.\n" % (g["BRACE"], ch("BRACE")))
    out.append("(* closing = csource.find(%s, endpos) *)\nDefinition ep_close : N := %d%%N.\n" % (g["CLOSE"], ch("CLOSE")))
    out.append("(* csource.find(%s, endpos + 1, closing) >= 0 *)\nDefinition ep_inner : N := %d%%N.\n" % (g["INNER"], ch("INNER")))
    out.append("(* semicolon = csource.find(%s, endpos) *)\nDefinition ep_semi : N := %d%%N.\n" % (g["SEMI"], ch("SEMI")))
    out.append("Definition ep_raise_no_close : exn := %s.\nDefinition ep_raise_nested : exn := %s.\n"
               "Definition ep_raise_no_semi : exn := %s.\n\n" % (g["RAISE1"], g["RAISE2"], g["RAISE3"]))
    out.append("(* _put_back_line_directives.replace: `if not s.startswith(%r): raise %s`, `int(s[%s:])`,\n"
               "   `except %s: raise %s(...)` *)\n" % (lit, mb.group("r"), mb.group("off"), ast.unparse(h.type), handler_raises))
    out.append("Definition caught : list exn := [%s].\n" % "; ".join(names))
    out.append("Definition handler_raises : exn := %s.\n" % handler_raises)
    out.append("Definition not_placeholder_raises : exn := %s.\n" % mb.group("r"))
    out.append("Definition placeholder : list N := [%s]%%N.\n" % "; ".join(str(ord(c)) for c in lit))
    out.append("Definition placeholder_skip : nat := %s.\n" % mb.group("off"))
    return "".join(out)


def regen(ctx, coqdir, repo):
    gen = os.path.join(coqdir, "C30", "Gen.v")
    try:
        text = translate(repo)
    except (Untranslatable, OSError, SyntaxError) as e:
        ctx.translator("C30/Gen.v", "fallback: %s" % e)
        ctx.obligation_broken("C30/Gen.v regeneration (cparser.py no longer has the modelled shape)", str(e))
        return False
    ctx.translator("C30/Gen.v", py2coq.write_if_changed(gen, text))
    return True


if __name__ == "__main__":
    print(translate(os.environ.get("VERIF_REPO", "/repo")))
