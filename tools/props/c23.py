"""C23 — generated source is deterministic, idempotent and replaced atomically.

Tie A (regeneration): the whole body of recompiler._make_c_or_py_source is pinned (SKELETON) and its decisive parts
(the file-like branch's receiver/argument/result, the buffer call, which file is read and compared,
the comparison, which file is written, what is written, the rename arguments, the fallback, the return values)
are extracted from the current source by a shape-matching driver into coq/C23/Gen.v (record `the_holes`);
the iteration audit of the emitter (tools/props/c23_audit.py: every use of a set-valued expression, every dict
iteration, every process-dependent call in recompiler.py / cffi_opcode.py / model.py / cparser.py, classified) is
regenerated into the same file (`audit_sites`); coq/C23/Props.v (up-to-date => no mutation; atomic replacement at
every crash point; every audited site covered by an order-independence theorem; composite emitter theorem) is re-checked.
Tie B (correspondence): the real function is run (through ffi.emit_c_code / emit_python_code) with every
I/O call (open, read, write, close, os.rename, os.unlink) intercepted: the logged operation trace is compared
with the model's trace, and for every k the process is killed at the k-th I/O call and the target inspected
(old or new content, nothing else).  Determinism: random cdefs emitted in fresh processes under several
PYTHONHASHSEED values and by repeated calls must give identical bytes.
"""
import ast
import copy
import json
import os

from lib import py2coq, vlib
from lib.py2coq import Untranslatable
from lib.vlib import cbool, cbytes, clist, cn, copt, cpair, cstr, cz
from props import c35
from props import c23_audit

ID = "C23"
GEN = os.path.join(vlib.COQ, "C23", "Gen.v")
SRC = "src/cffi/recompiler.py"


# ---------------------------------------------------------------------------- regeneration

def _hole(i):
    return ast.Name(id="HOLE_%d" % i, ctx=ast.Load())


def skeleton(fdef):
    """-> (dump of the function body with the holes blanked, holes)"""
    f = copy.deepcopy(fdef)
    h = {}
    try:
        tries = [s for s in f.body if isinstance(s, ast.Try)]
        assert len(tries) == 1 and f.body[-1] is tries[0]
        tr = tries[0]
        # try-body: with open(X, 'r') as f1: if f1.read(len(output) + K) <op> output: raise OSError ; ... ; return R
        w = tr.body[0]
        assert isinstance(w, ast.With) and len(w.items) == 1
        oc = w.items[0].context_expr
        assert oc.func.id == "open" and oc.args[1].value == "r" and len(oc.args) == 2 and not oc.keywords
        h["read_path"] = oc.args[0]
        oc.args[0] = _hole(1)
        test = w.body[0]
        assert isinstance(test, ast.If) and len(w.body) == 1 and not test.orelse
        assert isinstance(test.body[0], ast.Raise) and len(test.body) == 1
        cmp_ = test.test
        assert isinstance(cmp_, ast.Compare) and len(cmp_.ops) == 1
        rd = cmp_.left
        assert rd.func.attr == "read" and rd.func.value.id == w.items[0].optional_vars.id
        n = rd.args[0]
        assert isinstance(n, ast.BinOp) and isinstance(n.op, ast.Add) and ast.dump(n.left) == ast.dump(
            ast.parse("len(output)", mode="eval").body)
        h["read_extra"] = n.right
        n.right = _hole(2)
        h["cmp_op"] = cmp_.ops[0]
        h["cmp_rhs"] = cmp_.comparators[0]
        cmp_.ops[0] = ast.NotEq()
        cmp_.comparators[0] = _hole(3)
        h["raised"] = test.body[0].exc
        ret = tr.body[-1]
        assert isinstance(ret, ast.Return)
        h["result_uptodate"] = ret.value
        ret.value = _hole(4)
        # handler
        assert len(tr.handlers) == 1 and not tr.orelse and not tr.finalbody
        hd = tr.handlers[0]
        h["caught"] = hd.type
        asg, w2, tr2, ret2 = hd.body
        assert isinstance(asg, ast.Assign) and asg.targets[0].id == "tmp_file"
        assert ast.dump(asg.value) == ast.dump(ast.parse("'%s.~%d' % (target_file, os.getpid())", mode="eval").body)
        oc2 = w2.items[0].context_expr
        assert oc2.func.id == "open" and oc2.args[1].value == "w" and len(oc2.args) == 2 and not oc2.keywords
        h["write_path"] = oc2.args[0]
        oc2.args[0] = _hole(5)
        wr = w2.body[0].value
        assert len(w2.body) == 1 and wr.func.attr == "write" and wr.func.value.id == w2.items[0].optional_vars.id
        h["written"] = wr.args[0]
        wr.args[0] = _hole(6)
        assert isinstance(tr2, ast.Try) and len(tr2.body) == 1 and len(tr2.handlers) == 1
        rn = tr2.body[0].value
        assert ast.dump(rn.func) == ast.dump(ast.parse("os.rename", mode="eval").body) and len(rn.args) == 2
        h["rename"] = list(rn.args)
        rn.args = [_hole(7), _hole(8)]
        h["caught2"] = tr2.handlers[0].type
        ul, rn2 = tr2.handlers[0].body
        assert ast.dump(ul.value.func) == ast.dump(ast.parse("os.unlink", mode="eval").body)
        h["fallback_unlink"] = ul.value.args[0]
        ul.value.args = [_hole(9)]
        assert ast.dump(rn2.value.func) == ast.dump(ast.parse("os.rename", mode="eval").body)
        h["fallback_rename"] = list(rn2.value.args)
        rn2.value.args = [_hole(10), _hole(11)]
        assert isinstance(ret2, ast.Return)
        h["result_written"] = ret2.value
        ret2.value = _hole(12)
        # the statements before the try block: the whole body is pinned (REVIEW3 C23 ext. 1).
        #   if verbose and not _is_file_like(target_file): print(...)
        #   recompiler = Recompiler(...); recompiler.collect_type_table(); recompiler.collect_step_tables()
        #   if _is_file_like(target_file): recompiler.write_source_to_f(A, B); return R
        #   f = NativeIO(); recompiler.write_source_to_f(A2, B2); output = f.getvalue()
        body = [s for s in f.body if not (isinstance(s, ast.Expr) and isinstance(s.value, ast.Constant))]
        assert len(body) == 9 and body[-1] is tr
        fl = body[4]
        assert isinstance(fl, ast.If) and not fl.orelse and len(fl.body) == 2
        call, ret = fl.body
        assert isinstance(call, ast.Expr) and isinstance(ret, ast.Return)
        wf = ast.dump(ast.parse("recompiler.write_source_to_f", mode="eval").body)
        assert ast.dump(call.value.func) == wf and len(call.value.args) == 2 and not call.value.keywords
        h["fl_sink"], h["fl_arg"] = call.value.args
        call.value.args = [_hole(13), _hole(14)]
        h["fl_result"] = ret.value
        ret.value = _hole(15)
        call2 = body[6]
        assert isinstance(call2, ast.Expr) and ast.dump(call2.value.func) == wf and len(call2.value.args) == 2 \
            and not call2.value.keywords
        h["buf_sink"], h["buf_arg"] = call2.value.args
        call2.value.args = [_hole(16), _hole(17)]
    except (AssertionError, AttributeError, IndexError, ValueError, TypeError) as e:
        raise Untranslatable("_make_c_or_py_source: unexpected shape (%s)" % type(e).__name__)
    return "\n".join(py2coq.shape(s) for s in body), h


def translate(repo):
    return "\n".join([
        "(* GENERATED by tools/props/c23.py from %s (_make_c_or_py_source) — do not edit; regenerated on every run. *)" % SRC,
        "From Coq Require Import List NArith ZArith Bool.", "Import ListNotations.",
        "From Cffi Require Import C35.PyStr C35.Model C23.Model C23.AuditModel.", "Open Scope N_scope.", "",
        "(* every use of a set-valued expression, every dict iteration and every process-dependent call in the four",
        "   files that produce the emitted text (tools/props/c23_audit.py) *)",
        c23_audit.gallina(c23_audit.audit(repo)),
        c23_audit.gallina_state(c23_audit.class_state(repo)), "",
        holes_record(repo, "the_holes"), ""])


def holes_record(repo, name):
    """`Definition <name> : holes := {| ... |}.` extracted from the current _make_c_or_py_source (whole body pinned
    by SKELETON); also used by tools/props/c24.py for its own copy (C24's closure must not share C23/Gen.v)"""
    tree = py2coq.parse_source(os.path.join(repo, SRC))
    fdef = py2coq.find_function(tree, "_make_c_or_py_source")
    if [a.arg for a in fdef.args.args] != ["ffi", "module_name", "preamble", "target_file", "verbose"]:
        raise Untranslatable("_make_c_or_py_source: parameters changed")
    skel, h = skeleton(fdef)
    if skel != SKELETON:
        raise Untranslatable("_make_c_or_py_source: control skeleton differs from the recorded one")

    def path(node):
        if isinstance(node, ast.Name) and node.id == "target_file":
            return "Target"
        if isinstance(node, ast.Name) and node.id == "tmp_file":
            return "Tmp"
        raise Untranslatable("path expression " + ast.dump(node)[:80])

    def boolean(node):
        if isinstance(node, ast.Constant) and isinstance(node.value, bool):
            return "true" if node.value else "false"
        raise Untranslatable("return value " + ast.dump(node)[:80])
    for k in ("caught", "caught2", "raised"):
        n = h[k].func if isinstance(h[k], ast.Call) else h[k]
        if not (isinstance(n, ast.Name) and n.id == "OSError"):
            raise Untranslatable("exception plumbing no longer uses OSError")
    if not (isinstance(h["read_extra"], ast.Constant) and isinstance(h["read_extra"].value, int)
            and not isinstance(h["read_extra"].value, bool)):
        raise Untranslatable("read size")
    if not (isinstance(h["cmp_rhs"], ast.Name) and h["cmp_rhs"].id == "output"):
        raise Untranslatable("the text read is not compared with `output`")
    if isinstance(h["cmp_op"], ast.NotEq):
        differs = "fun got output => negb (str_eqb got output)"
    elif isinstance(h["cmp_op"], ast.Eq):
        differs = "fun got output => str_eqb got output"
    else:
        raise Untranslatable("comparison operator")
    if isinstance(h["written"], ast.Name) and h["written"].id == "output":
        written = "fun output => output"
    else:
        raise Untranslatable("written expression " + ast.dump(h["written"])[:80])

    def sink(node):
        if isinstance(node, ast.Name) and node.id == "target_file":
            return "SinkTarget"
        if isinstance(node, ast.Name) and node.id == "f":
            return "SinkBuffer"
        raise Untranslatable("write_source_to_f receiver " + ast.dump(node)[:80])

    def genarg(node):
        if isinstance(node, ast.Name) and node.id == "preamble":
            return "GPreamble"
        if isinstance(node, ast.Constant) and node.value is None:
            return "GNone"
        raise Untranslatable("write_source_to_f argument " + ast.dump(node)[:80])
    return "\n".join([
        "Definition %s : holes := {|" % name,
        "  h_read_path := %s;                                   (* open(%s, 'r') *)" % (path(h["read_path"]), h["read_path"].id),
        "  h_read_extra := (%d)%%Z;                              (* f1.read(len(output) + %d) *)" % (
            h["read_extra"].value, h["read_extra"].value),
        "  h_differs := %s;" % differs,
        "  h_result_uptodate := %s;" % boolean(h["result_uptodate"]),
        "  h_write_path := %s;                                  (* open(%s, 'w') *)" % (path(h["write_path"]), h["write_path"].id),
        "  h_written := %s;" % written,
        "  h_rename := (%s, %s);" % (path(h["rename"][0]), path(h["rename"][1])),
        "  h_fallback_unlink := %s;" % path(h["fallback_unlink"]),
        "  h_fallback_rename := (%s, %s);" % (path(h["fallback_rename"][0]), path(h["fallback_rename"][1])),
        "  h_result_written := %s;" % boolean(h["result_written"]),
        "  h_fl_sink := %s;                              (* recompiler.write_source_to_f(%s, %s); return %s *)" % (
            sink(h["fl_sink"]), ast.unparse(h["fl_sink"]), ast.unparse(h["fl_arg"]), ast.unparse(h["fl_result"])),
        "  h_fl_arg := %s;" % genarg(h["fl_arg"]),
        "  h_fl_result := %s;" % boolean(h["fl_result"]),
        "  h_buf_sink := %s;                             (* f = NativeIO(); recompiler.write_source_to_f(%s, %s) *)" % (
            sink(h["buf_sink"]), ast.unparse(h["buf_sink"]), ast.unparse(h["buf_arg"])),
        "  h_buf_arg := %s" % genarg(h["buf_arg"]),
        "|}."])


def regen(ctx):
    c35.regen_file(ctx, GEN, translate)
    try:
        sites = c23_audit.audit(vlib.REPO)
        problems = c23_audit.problems(sites)
    except Untranslatable as e:
        sites, problems = [], ["cannot audit: %s" % e]
    ctx._c23_sites = sites
    ctx.extra["iteration_audit"] = dict(files=[f for f, _ in c23_audit.FILES], problems=problems,
                                        sites=["%s:%d %s %s  %s" % s for s in sites])
    ctx._c23_audit_problems = problems


SKELETON = r"""If(BoolOp(And(), [Name('verbose', Load()), UnaryOp(Not(), Call(Name('_is_file_like', Load()), [Name('target_file', Load())], []))]), [Expr(Call(Name('print', Load()), [BinOp(Constant('generating %s'), Mod(), Tuple([Name('target_file', Load())], Load()))], []))], [])
Assign([Name('recompiler', Store())], Call(Name('Recompiler', Load()), [Name('ffi', Load()), Name('module_name', Load())], [keyword('target_is_python', Compare(Name('preamble', Load()), [Is()], [Constant(None)]))]))
Expr(Call(Attribute(Name('recompiler', Load()), 'collect_type_table', Load()), [], []))
Expr(Call(Attribute(Name('recompiler', Load()), 'collect_step_tables', Load()), [], []))
If(Call(Name('_is_file_like', Load()), [Name('target_file', Load())], []), [Expr(Call(Attribute(Name('recompiler', Load()), 'write_source_to_f', Load()), [Name('HOLE_13', Load()), Name('HOLE_14', Load())], [])), Return(Name('HOLE_15', Load()))], [])
Assign([Name('f', Store())], Call(Name('NativeIO', Load()), [], []))
Expr(Call(Attribute(Name('recompiler', Load()), 'write_source_to_f', Load()), [Name('HOLE_16', Load()), Name('HOLE_17', Load())], []))
Assign([Name('output', Store())], Call(Attribute(Name('f', Load()), 'getvalue', Load()), [], []))
Try([With([withitem(Call(Name('open', Load()), [Name('HOLE_1', Load()), Constant('r')], []), Name('f1', Store()))], [If(Compare(Call(Attribute(Name('f1', Load()), 'read', Load()), [BinOp(Call(Name('len', Load()), [Name('output', Load())], []), Add(), Name('HOLE_2', Load()))], []), [NotEq()], [Name('HOLE_3', Load())]), [Raise(Name('OSError', Load()))], [])]), If(Name('verbose', Load()), [Expr(Call(Name('print', Load()), [Constant('(already up-to-date)')], []))], []), Return(Name('HOLE_4', Load()))], [ExceptHandler(Name('OSError', Load()), body=[Assign([Name('tmp_file', Store())], BinOp(Constant('%s.~%d'), Mod(), Tuple([Name('target_file', Load()), Call(Attribute(Name('os', Load()), 'getpid', Load()), [], [])], Load()))), With([withitem(Call(Name('open', Load()), [Name('HOLE_5', Load()), Constant('w')], []), Name('f1', Store()))], [Expr(Call(Attribute(Name('f1', Load()), 'write', Load()), [Name('HOLE_6', Load())], []))]), Try([Expr(Call(Attribute(Name('os', Load()), 'rename', Load()), [Name('HOLE_7', Load()), Name('HOLE_8', Load())], []))], [ExceptHandler(Name('OSError', Load()), body=[Expr(Call(Attribute(Name('os', Load()), 'unlink', Load()), [Name('HOLE_9', Load())], [])), Expr(Call(Attribute(Name('os', Load()), 'rename', Load()), [Name('HOLE_10', Load()), Name('HOLE_11', Load())], []))])], [], []), Return(Name('HOLE_12', Load()))])], [], [])"""

# ---------------------------------------------------------------------------- generators

PRIMS = ["int", "char", "short", "long", "long long", "unsigned int", "unsigned char", "float", "double", "size_t",
         "int8_t", "uint16_t", "int32_t", "uint64_t", "_Bool", "wchar_t", "void *", "char *", "const char *", "ssize_t"]


def gen_cdef(rng):
    """a valid cdef text with many interdependent declarations (type table ordering, struct/enum/typedef
    numbering, global sorting are what could depend on hashing)"""
    n = rng.choice([1, 2, 3, 5, 8, 13])
    tags = rng.sample(["a", "b", "B", "zz", "a_", "a0", "node", "list", "Point", "p2", "q", "T", "_x", "x_", "m9", "k"], n)
    lines, types = [], list(PRIMS)
    for i, t in enumerate(tags):
        kind = rng.choice(["struct", "struct", "union", "enum", "typedef", "opaque", "fnptr"])
        if kind in ("struct", "union"):
            fields = []
            for j in range(rng.choice([1, 2, 3, 6])):
                ft = rng.choice(types)
                r = rng.random()
                if r < 0.15:
                    fields.append("%s f%d[%d];" % (ft, j, rng.choice([1, 2, 7])))
                elif r < 0.25 and ft in ("int", "unsigned int", "short"):
                    fields.append("%s f%d : %d;" % (ft, j, rng.choice([1, 3, 7])))
                elif r < 0.35:
                    fields.append("%s (*f%d)(%s, %s);" % (ft, j, rng.choice(types), rng.choice(types)))
                elif r < 0.45:
                    fields.append("struct { %s u; %s v; } f%d;" % (rng.choice(PRIMS), rng.choice(PRIMS), j))
                else:
                    fields.append("%s f%d;" % (ft, j))
            if rng.random() < 0.3:
                fields.append("%s %s_t *self%d;" % (kind, t, i))
            if rng.random() < 0.5:
                lines.append("typedef %s %s_t { %s } %s;" % (kind, t, " ".join(fields), t))
                types += [t, "%s *" % t, "%s %s_t *" % (kind, t)]
            else:
                lines.append("%s %s { %s };" % (kind, t, " ".join(fields)))
                types += ["%s %s" % (kind, t), "%s %s *" % (kind, t)]
        elif kind == "enum":
            vals = ", ".join("E%s_%s%s" % (t, v, rng.choice(["", " = %d" % rng.randrange(-5, 100)]))
                             for v in rng.sample(["A", "B", "C", "Z", "AA"], rng.choice([1, 2, 4])))
            lines.append("enum %s { %s };" % (t, vals))
            types.append("enum %s" % t)
        elif kind == "typedef":
            lines.append("typedef %s %s_td;" % (rng.choice(types), t))
            types.append("%s_td" % t)
        elif kind == "opaque":
            lines.append("typedef struct %s_s %s_o;" % (t, t))
            types.append("%s_o *" % t)
        else:
            lines.append("typedef %s (*%s_fn)(%s);" % (rng.choice(types), t, ", ".join(
                rng.choice(types) for _ in range(rng.choice([1, 2, 3])))))
            types.append("%s_fn" % t)
    for i in range(rng.choice([0, 1, 3, 6])):
        name = rng.choice(["f", "g", "F", "fa", "f_", "zeta", "alpha", "h2"]) + str(i)
        args = ", ".join(rng.choice(types) for _ in range(rng.choice([0, 1, 2, 4]))) or "void"
        if rng.random() < 0.15 and args != "void":
            args += ", ..."
        lines.append("%s %s(%s);" % (rng.choice(types + ["void"]), name, args))
    for i in range(rng.choice([0, 1, 2, 4])):
        lines.append("#define %s%d %d" % (rng.choice(["K", "k", "MAX", "A"]), i, rng.randrange(-3, 1000)))
    for i in range(rng.choice([0, 1, 2])):
        lines.append("extern %s %s%d;" % (rng.choice(PRIMS), rng.choice(["gv", "Gv", "ga"]), i))
    if rng.random() < 0.3:      # API mode only: the worker drops these lines for emit_python_code
        lines.append('extern "Python" int cb%d(int, %s);' % (rng.randrange(9), rng.choice(PRIMS)))
    if rng.random() < 0.5:
        rng.shuffle(lines[len(tags):])
    return "\n".join(lines) + "\n"


PREAMBLES = ["", "#include <stddef.h>\n", "/* é */\n#include <stdint.h>\n", "static int helper(void) { return 1; }\n"]


def gen_emit_case(rng, include=False):
    c = dict(kind="emit", cdef=gen_cdef(rng), name=rng.choice(["_m", "pkg._ext", "_c23_mod"]),
             preamble=rng.choice(PREAMBLES))
    if include:      # ffi.include(): reaches the _included_declarations sites
        c["included"] = ("typedef struct base_s { int bx; struct base_s *next; } base_t;\n"
                         "enum base_e { BASE_A, BASE_B };\ntypedef int base_int_t;\n#define BASE_K 7\n")
        c["cdef"] += ("base_t *use_base(base_t *, enum base_e, base_int_t);\nstruct uses_base { base_t b; base_t *p; };\n"
                      "void takes_ptrs(char *, base_t *);\ntypedef int multi_a, multi_b;\n"
                      "typedef struct { int q; } *anon_ptr_t;\nanon_ptr_t get_anon(void);\n")
    return c


def gen_write_case(rng, mode=None, old=None, cr=False):
    c = dict(kind="write", cdef=gen_cdef(rng) if rng.random() < 0.7 else "int f(int);\n",
             name=rng.choice(["_m", "_c23_mod"]), mode=mode or rng.choice(["py", "py", "c"]),
             preamble=rng.choice(PREAMBLES),
             old=old or rng.choice(["absent", "same", "same", "different", "prefix", "longer", "crlf", "empty"]))
    if cr:
        c["mode"] = "c"
        c["preamble"] = rng.choice(["/* a\rb */\n", "// x\r\nint y;\n", "\r"])
        c["old"] = "same"
    c["want_text"] = c["mode"] == "py"
    return c


def gen_shared_case(rng):
    """several FFI objects in one process: base1 (random declarations + a struct, a union, an anonymous struct
    typedef, an enum, a self-referential struct), mid includes base1, base2 independent, top includes mid and base2"""
    t = rng.choice(["pt", "node", "S", "rec_"])
    base1 = ("struct c23_%s { int x, y; struct c23_%s *next; };\nunion c23_val { int i; double d; };\n"
             "typedef struct { struct c23_%s a, b; } c23_seg_t;\nenum c23_e { C23_A, C23_B = %d };\n"
             "double c23_length(c23_seg_t *);\nint c23_sign(union c23_val *);\n" % (t, t, t, rng.randrange(2, 99)))
    base1 = gen_cdef(rng) + base1 if rng.random() < 0.7 else base1
    mid = ("int c23_inside(struct c23_%s *, c23_seg_t *, enum c23_e);\nstruct c23_mid { c23_seg_t s; union c23_val v; "
           "struct c23_%s *p; };\ntypedef struct c23_mid c23_mid_t;\n" % (t, t))
    base2 = "typedef struct c23_b2 { long k; %s w; } c23_b2_t;\nenum c23_f { C23_F0 };\nc23_b2_t *c23_get(void);\n" % rng.choice(PRIMS[:8])
    top = "int c23_all(c23_mid_t *, c23_b2_t *, struct c23_%s *, enum c23_f);\nstruct c23_top { c23_mid_t m; c23_b2_t b; };\n" % t
    return dict(kind="shared", base1=base1, mid=mid, base2=base2, top=top, preamble=rng.choice(PREAMBLES))


def generate(ctx, big=False):
    rng = ctx.rng
    cases = [gen_emit_case(rng, include=(i % 4 == 0)) for i in range(10 if not big else 50)]
    cases += [gen_shared_case(rng) for _ in range(2 if not big else 10)]
    fixed = [("py", "absent"), ("py", "same"), ("py", "different"), ("c", "same"), ("c", "different"), ("py", "longer"),
             ("py", "prefix"), ("c", "absent"), ("py", "crlf")]
    cases += [gen_write_case(rng, m, o) for m, o in fixed]
    cases += [gen_write_case(rng) for _ in range(3 if not big else 24)]
    cases += [gen_write_case(rng, cr=True) for _ in range(1 if not big else 4)]
    return cases


def finding_key(case):
    """the known class: the C source given to set_source contains a carriage return"""
    if case.get("kind") == "write" and case.get("mode") == "c" and "\r" in case.get("preamble", ""):
        return "cr_in_source"
    return None


# ---------------------------------------------------------------------------- evaluation

PRELUDE = """
From Cffi Require Import C35.PyStr C35.Model C23.Model C23.Gen.
Definition op_eqb (a b : op) : bool :=
  match a, b with
  | OOpenRead p, OOpenRead q | OClose p, OClose q | OOpenWrite p, OOpenWrite q | OUnlink p, OUnlink q => path_eqb p q
  | ORead p n, ORead q m => path_eqb p q && Z.eqb n m
  | OWrite p d, OWrite q e => path_eqb p q && list_eqb N.eqb d e
  | ORename a1 b1, ORename a2 b2 | ORenameFails a1 b1, ORenameFails a2 b2 => path_eqb a1 a2 && path_eqb b1 b2
  | _, _ => false
  end.
Definition trace_model (old : option str) (new : str) := write_trace the_holes true old new.
"""
SEEDS = ("0", "1", "12345", "4294967295")


def cop(e):
    k = e[0]
    if k == "open_r":
        return "(OOpenRead %s)" % e[1]
    if k == "open_w":
        return "(OOpenWrite %s)" % e[1]
    if k == "read":
        return "(ORead %s %s)" % (e[1], cz(e[2]))
    if k == "write":
        return "(OWrite %s %s)" % (e[1], cstr(e[2]))
    if k == "close":
        return "(OClose %s)" % e[1]
    if k == "rename":
        return "(ORename %s %s)" % (e[1], e[2])
    if k == "unlink":
        return "(OUnlink %s)" % e[1]
    return None


def first_diff(a, b):
    la, lb = a.splitlines(), b.splitlines()
    for i, (x, y) in enumerate(zip(la, lb)):
        if x != y:
            return "line %d: %r vs %r" % (i + 1, x[:120], y[:120])
    return "length %d vs %d lines" % (len(la), len(lb))


def evaluate(ctx, cases):
    s = ctx.scratch()
    emits = [c for c in cases if c["kind"] == "emit"]
    writes = [c for c in cases if c["kind"] == "write"]
    if emits:
        per_seed = []
        for seed in SEEDS:
            payload = [dict(c, cov=True) for c in emits] if seed == SEEDS[-1] else emits
            out, p = s.run_worker("c23_worker.py", dict(cases=payload), timeout=1200, hashseed=seed)
            if out is None:
                ctx.violation(emits[0], "worker failed: " + (p.stderr[-1500:] or p.stdout[-500:]))
                return
            per_seed.append(out["results"])
            if out.get("cov"):
                hit = {(t, l) for t, l in out["cov"]}
                sites = getattr(ctx, "_c23_sites", None) or []
                seen = ctx.extra.setdefault("audit_sites_hit", {})
                for t, l, cont, use, text in sites:
                    key = "%s:%d %s %s  %s" % (t, l, cont, use, text)
                    seen[key] = bool(seen.get(key)) or (t, l) in hit
                ctx.extra["audit_sites_hit_summary"] = "%d of %d audited sites executed during cdef()+emit of the sampled cdefs" % (
                    sum(1 for v in seen.values() if v), len(seen))
        for i, c in enumerate(emits):
            rs = [ps[i] for ps in per_seed]
            if any("cdef_error" in r for r in rs):
                ctx.mismatch(c, "generator produced an invalid cdef: %s" % rs[0].get("cdef_error"), "harness: cdef generator")
                continue
            ctx.count(len(SEEDS) * 6)
            ctx.hist("emit_size_c", rs[0]["c"]["size"] // 10000 * 10000)
            bad = False
            for mode in ("c", "py"):
                shas = {x for r in rs for x in r[mode]["sha"]}
                if len(shas) != 1:
                    bad = True
                    # fetch the texts to show where they differ
                    texts = []
                    for seed in SEEDS:
                        out, _ = s.run_worker("c23_worker.py", dict(cases=[dict(c, want_text=True)]), hashseed=seed)
                        texts.append(out["results"][0][mode]["text"] if out else "")
                    within = [len(set(r[mode]["sha"])) for r in rs]
                    where = next((first_diff(texts[0], t) for t in texts[1:] if t != texts[0]), "within one process")
                    ctx.violation(c, "emit_%s_code output is not a function of the declarations: %d distinct texts over "
                                  "PYTHONHASHSEED %s and repeated calls (distinct per process: %s); first difference: %s"
                                  % ("c" if mode == "c" else "python", len(shas), "/".join(SEEDS), within, where))
            if not bad and c["cdef"].count("\n") >= 4:
                ctx.nontrivial(("emit", c["cdef"], c["name"], c["preamble"]))
    shared = [c for c in cases if c["kind"] == "shared"]
    if shared:
        # the whole scenario in one process; base1 alone in a fresh process under another hash seed
        full, p = s.run_worker("c23_worker.py", dict(cases=shared), timeout=1200, hashseed=SEEDS[0])
        fresh, p2 = s.run_worker("c23_worker.py", dict(cases=[dict(c, fresh_only=True) for c in shared]), timeout=1200,
                                 hashseed=SEEDS[2])
        if full is None or fresh is None:
            pp = p if full is None else p2
            ctx.violation(shared[0], "worker failed: " + (pp.stderr[-1500:] or pp.stdout[-500:]))
            return
        for c, r, rf in zip(shared, full["results"], fresh["results"]):
            if "cdef_error" in r or "cdef_error" in rf:
                ctx.mismatch(c, "generator produced an invalid cdef: %s" % (r.get("cdef_error") or rf.get("cdef_error")),
                             "harness: cdef generator")
                continue
            ok = True
            for mode in ("c", "py"):
                fn = "emit_%s_code" % ("c" if mode == "c" else "python")
                for label, lst in sorted(r[mode]["texts"].items()):
                    ctx.count(len(lst))
                    for e in lst[1:]:
                        if e["sha"] != lst[0]["sha"]:
                            ok = False
                            ctx.violation(c, "several FFI objects in one process: the text %s generates for '%s' %s differs "
                                          "from the text generated %s (same declarations, module name and source); first "
                                          "difference: %s" % (fn, label, e["step"], lst[0]["step"], e["diff"]))
                            break
                f0 = rf[mode]["texts"]["base1"][0]
                if f0["sha"] != r[mode]["texts"]["base1"][0]["sha"]:
                    ok = False
                    ctx.violation(c, "%s for 'base1' in a fresh process (PYTHONHASHSEED=%s) differs from the process with "
                                  "PYTHONHASHSEED=%s" % (fn, SEEDS[2], SEEDS[0]))
                up = r[mode]["uptodate"]
                ctx.count(2)
                if up["first"] is not True or up["again"] is not False or not up["stat_unchanged"] or not up["bytes_unchanged"]:
                    ok = False
                    ctx.violation(c, "%s: 'base1' written to a fresh file (updated=%r), then regenerated into that file after "
                                  "mid.include(base1): updated=%r, inode/mtime preserved: %s, bytes unchanged: %s — an "
                                  "up-to-date file must be left untouched and reported as not updated" % (
                                      fn, up["first"], up["again"], up["stat_unchanged"], up["bytes_unchanged"]))
            ctx.hist("write_case", "shared")
            if ok:
                ctx.nontrivial(("shared", c["base1"], c["preamble"]))
    tcoq, town = [], []
    if writes:
        out, p = s.run_worker("c23_worker.py", dict(cases=writes), timeout=1800)
        if out is None:
            ctx.violation(writes[0], "worker failed: " + (p.stderr[-1500:] or p.stdout[-500:]))
            return
        for c, r in zip(writes, out["results"]):
            if "cdef_error" in r:
                ctx.mismatch(c, "generator produced an invalid cdef: %s" % r["cdef_error"], "harness: cdef generator")
                continue
            key = finding_key(c)
            ctx.count(1 + len(r["crashes"]))
            ctx.hist("write_case", "%s/%s" % (c["mode"], c["old"]))
            res = r["result"]
            ops = [e[0] for e in r["trace"]]
            mut = [o for o in ops if o in ("open_w", "write", "rename", "unlink")]
            desc = "emit_%s_code into a target holding %s content" % ("c" if c["mode"] == "c" else "python", c["old"])
            if "exc" in res:
                ctx.violation(c, "%s raised %s" % (desc, res["exc"]), key)
                continue
            if r["old_equals_new"]:
                # idempotence: untouched, mtime/inode preserved, reported as not updated
                if res["value"] is not False or mut or not r["stat_unchanged"]:
                    ctx.violation(c, "%s (identical to what is generated): returned %r, mutating calls %s, inode/mtime "
                                  "preserved: %s" % (desc, res["value"], mut, r["stat_unchanged"]), key)
            else:
                if c["old"] != "crlf" and (res["value"] is not True or r["final"] != "new"):
                    ctx.violation(c, "%s: returned %r and the target holds %s content afterwards" % (
                        desc, res["value"], r["final"]), key)
            if r["second"]["result"].get("value") is not False or any(
                    o in ("open_w", "write", "rename", "unlink") for o in r["second"]["ops"]):
                ctx.violation(c, "regenerating right after %s is not a no-op: returned %r, calls %s" % (
                    desc, r["second"]["result"], r["second"]["ops"]), key)
            fl = r.get("filelike")
            if fl is not None:
                if not fl["same_text"]:
                    ctx.violation(c, "%s: the text handed to a file-like target differs from the text emitted just before "
                                  "for the same declarations" % desc, key)
                if fl["ops"] or fl["result"].get("value") is not True or not fl["target_untouched"]:
                    ctx.mismatch(c, "file-like target: I/O calls %s, result %r, path target untouched: %s; model: no call, "
                                 "True, untouched" % (fl["ops"], fl["result"], fl["target_untouched"]),
                                 "C23.Model.make_source (file-like branch) vs real run with a StringIO target")
            if r["leftovers"]:
                ctx.violation(c, "%s leaves files behind: %s" % (desc, r["leftovers"]), key)
            # crash points: old or new, nothing else
            worst = [x for x in r["crashes"] if x["state"] == "other"]
            if worst:
                x = worst[0]
                ctx.violation(dict(c, crash_k=x["k"], crash_after=x["after"]),
                              "%s, process killed %s I/O call %d (%s): the target holds neither the old nor the new "
                              "content (%s bytes: %s...)" % (desc, "after" if x["after"] else "before", x["k"],
                                                             r["trace"][x["k"] - 1][:2], x["got_len"], (x["detail"] or "")[:60]), key)
            elif len(r["crashes"]) >= 6:
                ctx.nontrivial(("write", c["cdef"], c["mode"], c["old"], c["preamble"]))
            if any(x["exit"] != 77 for x in r["crashes"]):
                ctx.mismatch(c, "a crash-point child did not reach its I/O call", "harness: crash injection")
            # model vs real trace (python-mode outputs are small enough to ship to Coq)
            if c.get("want_text") and r.get("new") is not None:
                oldlit = "None" if r["old_hex"] is None else "(Some %s)" % cstr(bytes.fromhex(r["old_hex"]).decode("utf-8"))
                tr = [cop(e) for e in r["trace"]]
                if None in tr:
                    ctx.mismatch(c, "unexpected I/O call %r" % (r["trace"],), "C23.Model.write_trace vs real I/O trace")
                else:
                    tcoq.append((cpair(oldlit, cstr(r["new"])), cpair(clist(tr), cbool(res["value"]))))
                    town.append(c)
    if tcoq:
        res = c35.multi_mismatches([("trace", "fun a => trace_model (fst a) (snd a)",
                                     "pair_eqb (list_eqb op_eqb) Bool.eqb", tcoq)], PRELUDE, per_file=40)
        bad, outs, err = res["trace"]
        if err:
            ctx.obligation_broken("C23 model evaluation", err)
        for i in bad:
            ctx.mismatch(town[i], "model trace/result = %s; real I/O calls and result: %s" % (
                (outs.get(i) or "")[:500], tcoq[i][1][:500]), "C23.Model.write_trace (holes from Gen.v) vs real I/O trace")
    for c in (emits[:1] + writes[:2] + shared[:1]):
        ctx.sample(c)
    ctx.violations.sort(key=lambda v: (v[2] is not None, len(json.dumps(v[0], default=str))))


def run(ctx):
    ctx.cov["rule"] = (
        "emit: random cdefs (structs/unions/enums/typedefs/function pointers/functions/constants/globals with "
        "interdependent, similarly named declarations) emitted as C and as Python in 4 processes with PYTHONHASHSEED "
        + "/".join(SEEDS) + ", twice per FFI object and from a second FFI object: all texts identical; write: "
        "emit_c_code/emit_python_code into a target that is absent / identical / different / a prefix / longer / CRLF / "
        "empty, with open/read/write/close/os.rename/os.unlink intercepted: return value, mutating calls, inode+mtime, "
        "second regeneration, left-over files, and for every I/O call k a forked child killed before it and after it "
        "(flushed) — the target must hold the old or the new bytes; python-mode traces are compared with the model's. "
        "each write case also with a StringIO target (no I/O call, True, same text); shared: four FFI objects in one "
        "process (base1 random + struct/union/anonymous struct/enum, mid includes base1, base2, top includes mid and "
        "base2), each emitted as C and as Python before and after being included, from a new FFI object afterwards and in "
        "a fresh process under another hash seed — all texts of one label identical — and base1 regenerated into its "
        "up-to-date file after the include (not updated, inode/mtime/bytes preserved). "
        "Non-trivial = cdef with >= 4 declarations (emit) / >= 6 crash points explored (write) / a shared scenario.")
    ctx.assumptions += [
        "shape-matched driver tools/props/c23.py pins the whole body of _make_c_or_py_source and extracts its 17 holes; the "
        "trace skeleton and make_source in C23/Model.v are hand-written and tied by the trace / file-like correspondence "
        "of this run",
        "rename(2) replaces the destination atomically; the old content is decodable; crash = process death at an "
        "I/O call boundary (no torn writes inside one write(2) to the temporary file matter for the target)",
        "determinism: the iteration audit is syntactic and name-based (sets arise only from set constructors in "
        "recompiler.py, cffi_opcode.py, model.py, cparser.py; dict order is insertion order, CPython >= 3.7); that the "
        "real emitter is an instance of the abstract emitter of C23_emit_independent_of_set_order is not proved; bytes "
        "are sampled across hash seeds"]
    audit = getattr(ctx, "_c23_audit_problems", [])
    evaluate(ctx, generate(ctx))
    if not [v for v in ctx.violations if v[2] is None] and (
            ctx.thorough or ctx.tier_search == "thorough" or ctx.mismatches or audit):
        evaluate(ctx, generate(ctx, big=True))
    if audit and not ctx.violations:
        # the emitter iterates a set in hash order but no differing output was found
        ctx.obligation_broken("C23 iteration audit (C23_audit_sites_ok: a use of a set / a process-dependent call that no "
                              "theorem covers)", "\n".join(audit))


MANIFEST = dict(
    technique="Coq proofs about (1) a model of the whole of _make_c_or_py_source — file-like branch and, for a path, the "
              "file-operation trace — whose control skeleton (all 9 statements) is pinned against the source and whose "
              "decisive parts (17 holes) are re-extracted each run; (2) a regenerated list of every set use / dict iteration "
              "/ process-dependent call of the emitter, each class covered by an order-independence theorem and composed "
              "over an abstract emitter; (3) a regenerated list of class-level mutable containers (must be empty) + "
              "crash-point enumeration, I/O-trace correspondence, several-FFIs-in-one-process and hash-seed sampling on "
              "the real code",
    text="Proof (any old/new content): identical content without '\\r' => no mutating operation and result False "
         "(C23_uptodate); 'not updated' only if the text is the same (C23_not_updated_means_same); after any prefix of the "
         "operations of the POSIX path the target holds the old or the new content (C23_atomic); on completion target = new "
         "and no temporary is left (C23_final_state); a file-like target receives, with no file operation and result True, "
         "exactly the text a path target is compared with / ends up holding (C23_filelike_same_text, over "
         "Model.make_source; `gen` = what write_source_to_f writes is abstract). Refuted for content with '\\r' "
         "(C23_uptodate_refuted: known finding cr_in_source); the non-POSIX fallback is shown non-atomic "
         "(C23_fallback_not_atomic, outside the quantifier). Determinism: the site list of the emitter is regenerated from "
         "four source files each run; every site must fall in a class with a proved order-independence theorem "
         "(C23_audit_sites_ok; C23_fold_order_independent, C23_sorted_emission_order, C23_singleton_order_independent, "
         "C23_dict_order_is_insertion_order — the last only NoDup/subset of a hand-made dict_order), composed into "
         "C23_emit_independent_of_set_order over an ABSTRACT emitter that nothing instantiates; "
         "C23_state_is_per_instance: regenerated fact that no class of recompiler/cffi_opcode/model/cparser/api.py binds a "
         "mutable container in its class body (state shared between FFI objects). That recompiler.py is such an emitter is "
         "audited syntactically, not proved; bytes are sampled across hash seeds on cdefs reaching every audited site, and "
         "across several FFI objects of one process that include each other (each generated before and after being "
         "included, in a fresh process, and regenerated into its up-to-date file).",
    note="Partial: determinism = regenerated audits + class theorems + sampling (the link audit->code is syntactic; "
         "collect_type_table/_generate are not modelled). Correspondence only: the write_trace skeleton (I/O-trace "
         "comparison, python mode), the file-like branch (no I/O call, True, same text). Not covered: compile() with "
         "c_file=None (_modname_to_file/makedirs), an existing undecodable target (UnicodeDecodeError is not caught by "
         "`except OSError`), an unreadable target (conflated with absent). Trusted: Coq kernel; the hole-extraction "
         "driver; atomic rename(2).",
    design_ref="DESIGN.md §4 C23")
