"""C03 worker (runs against the scratch build of cffi): performs integer stores through every path
and reports what the implementation did.  No judgement here — the check module decides.

payload: {types: [{k, name, cdecl}], enums_cdef, so, cases: [{t, path, v, E?}], api: bool}
result per case: {ok, exc, rb (value read back / echoed, as decimal string), before, after (hex)}"""
import os
import sys

import cffi
from lib.vlib import worker_main


def pattern(n, salt):
    return bytes(((i * 37 + salt * 11 + 0x5A) % 251) + 1 for i in range(n))


def fill(buf, off, size, v, isbool=False):
    """garbage everywhere; the target's own old bytes depend only on (size, v) so that the model
    evaluations of different types/paths coincide"""
    whole = bytearray(pattern(len(buf), 3))
    whole[off:off + size] = b"\x01" if isbool else pattern(size, v % 241)
    buf[:] = bytes(whole)


class Env:
    def __init__(self, payload):
        self.types = payload["types"]
        self.work = os.environ["VERIF_WORK"]
        ffi = cffi.FFI()
        ffi.cdef(payload["enums_cdef"])
        decl = []
        for t in self.types:
            k, n = t["k"], t["name"]
            decl.append("struct s_%d { char a; %s f; char b; };" % (k, n))
            decl.append("extern %s g_%d;" % (n, k))
            decl.append("%s get_g_%d(void);" % (n, k))
            decl.append("%s id_%d(%s);" % (n, k, n))
            decl.append("%s call_%d(%s (*)(void));" % (n, k, n))
        ffi.cdef("\n".join(decl))
        self.ffi = ffi
        self.lib = ffi.dlopen(payload["so"])
        self.api = None
        if payload.get("api"):
            ffi2 = cffi.FFI()
            ffi2.cdef(payload["enums_cdef"])
            ffi2.cdef("\n".join(d for d in decl if not d.startswith("struct")))
            src = [payload["enums_cdef"]]
            for t in self.types:
                k, n = t["k"], t["name"]
                src.append("%s g_%d; %s get_g_%d(void) { return g_%d; } %s id_%d(%s x) { return x; } "
                           "%s call_%d(%s (*cb)(void)) { return cb(); }" % (n, k, n, k, k, n, k, n, n, k, n))
            ffi2.set_source("_c03_api", "#include <stdint.h>\n#include <stddef.h>\n#include <sys/types.h>\n"
                            + "\n".join(src))
            ffi2.compile(tmpdir=self.work)
            sys.path.insert(0, self.work)
            import _c03_api
            self.api = _c03_api


class IntLike(object):
    def __init__(self, v):
        self.v = v

    def __int__(self):
        return self.v


class IndexOnly(object):
    def __init__(self, v):
        self.v = v

    def __index__(self):
        return self.v


def build_obj(kind, v):
    if kind == "float":
        return float(v)
    if kind == "intlike":
        return IntLike(v)
    if kind == "indexonly":
        return IndexOnly(v)
    if kind == "none":
        return None
    if kind == "str":
        return str(v)
    raise ValueError(kind)


def run_case(env, c, idx):
    ffi, lib = env.ffi, env.lib
    t = env.types[c["t"]]
    k, name, v, path = t["k"], t["name"], int(c["v"]), c["path"]
    x = build_obj(c["obj"], v) if c.get("obj") else v
    out = dict(ok=False, exc=None, rb=None, before=None, after=None)
    try:
        if path == "new":
            try:
                p = ffi.new(name + "*", x)
            except Exception as e:
                out["exc"] = type(e).__name__
                return out
            out.update(ok=True, rb=str(int(p[0])), after=bytes(ffi.buffer(p)).hex())
        elif path == "item":
            p = ffi.new(name + "[3]")
            buf = ffi.buffer(p)
            fill(buf, len(buf) // 3, len(buf) // 3, v)
            out["before"] = bytes(buf).hex()
            try:
                p[1] = x
                out.update(ok=True, rb=str(int(p[1])))
            except Exception as e:
                out["exc"] = type(e).__name__
            out["after"] = bytes(buf).hex()
        elif path == "field":
            s = ffi.new("struct s_%d *" % k)
            buf = ffi.buffer(s)
            out["off"] = ffi.offsetof("struct s_%d" % k, "f")
            fill(buf, out["off"], ffi.sizeof(name), v)
            out["before"] = bytes(buf).hex()
            try:
                s.f = x
                out.update(ok=True, rb=str(int(s.f)))
            except Exception as e:
                out["exc"] = type(e).__name__
            out["after"] = bytes(buf).hex()
        elif path in ("global", "api_global"):
            if path == "global":
                f, l = ffi, lib
            else:
                f, l = env.api.ffi, env.api.lib
            gname = "g_%d" % k
            try:
                addr = f.addressof(l, gname)
            except AttributeError:
                out.update(exc="AttributeError", stage="access")
                return out
            buf = f.buffer(addr)
            fill(buf, 0, len(buf), v, name == "_Bool")
            out["before"] = bytes(buf).hex()
            try:
                setattr(l, gname, x)
                out.update(ok=True, rb=str(int(getattr(l, gname))), c=str(int(getattr(l, "get_" + gname)())))
            except Exception as e:
                out["exc"] = type(e).__name__
            out["after"] = bytes(buf).hex()
        elif path in ("abi_arg", "api_arg"):
            l = lib if path == "abi_arg" else env.api.lib
            try:
                r = getattr(l, "id_%d" % k)(x)
                out.update(ok=True, rb=str(int(r)))
            except Exception as e:
                out["exc"] = type(e).__name__
        elif path == "callback":
            seen = []

            def onerror(exc, val, tb):
                seen.append(exc.__name__)
            cb = ffi.callback("%s(void)" % name, lambda: x, error=int(c["E"]), onerror=onerror)
            r = getattr(lib, "call_%d" % k)(cb)
            out.update(ok=not seen, rb=str(int(r)), exc=seen[0] if seen else None)
        else:
            out["exc"] = "BadPath"
    except Exception as e:       # anything unexpected outside the store itself
        out["exc"] = "Harness:" + type(e).__name__ + ":" + str(e)[:200]
    return out


def main(payload):
    env = Env(payload)
    sizes = {}
    for t in env.types:
        sizes[t["k"]] = dict(size=env.ffi.sizeof(t["name"]),
                             api_size=env.api.ffi.sizeof(t["name"]) if env.api else None)
    return dict(results=[run_case(env, c, i) for i, c in enumerate(payload["cases"])], sizes=sizes)


worker_main(main)
