"""C19 — buffers, from_buffer and memmove match a byte-array model.

Tie: correspondence.  Random histories (reads by index/slice, item and slice assignments, deletions, len; bounds
and steps over None, small, negative, boundary and beyond-Py_ssize_t ints) through ffi.buffer windows over
cdata, bytearray and array.array memory are executed on the real objects; after every operation the outcome and
the WHOLE underlying memory are compared with (a) a real CPython bytearray holding the window, updated by the
same operations (the oracle: decides "violation") and (b) the Coq model C19/Model.v (decides "model mismatch").
from_buffer lengths/aliasing, memmove overlaps (cdata / memoryview / bytes operands) and ffi.buffer sizes
are checked the same way.
"""
import os
import re

from lib import vlib
from props import c19_regen

ID = "C19"


GEN = {"copy": None}      # the copy primitive of mb_ass_slice as the translator read it ("Memcpy" / "Memmove")


def regen(ctx):
    path = os.path.join(vlib.COQ, "C19", "Gen.v")
    try:
        src = open(os.path.join(vlib.REPO, "src", "c", "_cffi_backend.c")).read()
        mb_src = open(os.path.join(vlib.REPO, "src", "c", "minibuffer.h")).read()
        text = c19_regen.render(c19_regen.extract(src, mb_src))
    except (c19_regen.RegenError, OSError) as e:
        # fail closed: the snapshot stays in place so that the other files still compile, but the run is
        # reported as a broken obligation (the facts in Gen.v no longer describe this source)
        ctx.translator("C19/Gen.v", "fallback: %s" % e)
        ctx.obligation_broken("C19/Gen.v regeneration (src/c/minibuffer.h, _cffi_backend.c): the source no longer "
                              "has the shape the translator understands: %s" % e)
        text = None
    old = open(path).read() if os.path.exists(path) else None
    if text is not None:
        if old == text:
            ctx.translator("C19/Gen.v", "unchanged")
        else:
            with vlib.CoqLock():
                with open(path, "w") as f:
                    f.write(text)
            ctx.translator("C19/Gen.v", "regenerated")
    m = re.search(r"SCopy (Memcpy|Memmove) ", text if text is not None else (old or ""))
    GEN["copy"] = m.group(1) if m else None
    vo = os.path.join(vlib.COQ, "C19", "MbSem.vo")
    if not os.path.exists(vo) or os.path.getmtime(vo) < os.path.getmtime(path):
        vlib.coq_make(["C19/Model.vo", "C19/Spec.vo", "C19/MbSem.vo"])


M63 = 1 << 63


# ------------------------------------------------------------------------------------------ generator
def rand_int(rng, n):
    r = rng.random()
    if r < 0.5:
        return rng.randrange(-n - 2, n + 3)
    return rng.choice([0, -1, n, n - 1, -n, -n - 1, n + 1, M63 - 1, M63, -M63, -M63 - 1, 1 << 70, -(1 << 70), n // 2])


def rand_bound(rng, n):
    return None if rng.random() < 0.25 else rand_int(rng, n)


def rand_key(rng, n):
    r = rng.random()
    if r < 0.35:
        return ["i", rand_int(rng, n)]
    if r < 0.96:
        st = None if rng.random() < 0.8 else rng.choice([1, 1, 0, 2, -1, -2, M63, -M63 - 5, 1 << 65])
        return ["s", rand_bound(rng, n), rand_bound(rng, n), st]
    return ["o", rng.choice(["str", "float"])]


def slice_len(n, key):
    if key[0] != "s":
        return 1
    st = key[3]
    if st not in (None, 1):
        return rng_len_default
    return len(range(*slice(key[1], key[2], 1).indices(n)))


rng_len_default = 2


def rand_val(rng, want):
    r = rng.random()
    if r < 0.08:
        return rng.choice([["str"], ["int", 65], ["none"], ["list", bytes(rng.getrandbits(8) for _ in range(want)).hex()]])
    if r < 0.24:
        # an array cdata: carries its byte length (equal -> stored, different -> ValueError, since feea9b6)
        # fixed T[k] and open T[] arrays (ffi.new('T[]', k), a slice p[a:b], from_buffer('T[]', obj)), byte
        # size smaller / equal / larger than the slice
        k = want if rng.random() < 0.5 else max(0, want + rng.choice([-2, -1, 1, 2, 4]))
        return ["cdata", bytes(rng.getrandbits(8) for _ in range(k)).hex(), rng.choice(["char", "short"]),
                rng.choice(["fixed", "new_open", "slice", "frombuf"])]
    if r < 0.30:
        # a pointer cdata: no length of its own, the slice length is trusted; at least `want` bytes behind it
        return ["cdataptr", bytes(rng.getrandbits(8) for _ in range(want + rng.choice([0, 1, 3]))).hex(),
                rng.choice(["char", "int"])]
    k = want if rng.random() < 0.75 else max(0, want + rng.choice([-1, 1, 2, -2]))
    data = bytes(rng.getrandbits(8) for _ in range(k)).hex()
    return [rng.choice(["bytes", "bytes", "bytearray", "memoryview", "array"]), data]


def gen_hist(rng):
    m = rng.choice([0, 1, 2, 5, 8, 16, 24])
    whole = rng.random() < 0.15
    if whole:
        off, n = 0, m
    else:
        off = rng.randrange(m + 1)
        n = rng.randrange(m - off + 1)
    init = bytes(rng.getrandbits(8) for _ in range(m))
    c = dict(kind="hist", backing=rng.choice(["cdata", "cdata", "bytearray", "array"]), init=init.hex(), off=off, n=n,
             ops=[])
    if whole:
        c["whole"] = True
    for _ in range(rng.choice([2, 4, 6, 10])):
        r = rng.random()
        if r < 0.4:
            c["ops"].append(["get", rand_key(rng, n)])
        elif r < 0.9:
            key = rand_key(rng, n)
            c["ops"].append(["set", key, rand_val(rng, slice_len(n, key))])
        elif r < 0.95:
            c["ops"].append(["del", rand_key(rng, n)])
        else:
            c["ops"].append(["len"])
    return c


# every kind of item type: (ctype, size, flags of the item descriptor as in C19/Types.v)
FB_ITEMS = [("char", 1, "F_CHAR"), ("signed char", 1, "F_SIGNED"), ("unsigned char", 1, "F_UNSIGNED"),
            ("_Bool", 1, "F_UNSIGNED; F_BOOL"), ("short", 2, "F_SIGNED"), ("unsigned short", 2, "F_UNSIGNED"),
            ("int", 4, "F_SIGNED"), ("unsigned int", 4, "F_UNSIGNED"), ("long long", 8, "F_SIGNED"),
            ("unsigned long", 8, "F_UNSIGNED"), ("float", 4, "F_FLOAT"), ("double", 8, "F_FLOAT"),
            ("long double", 16, "F_FLOAT; F_LONGDOUBLE"), ("float _Complex", 8, "F_COMPLEX"),
            ("double _Complex", 16, "F_COMPLEX"), ("wchar_t", 4, "F_CHAR"), ("char16_t", 2, "F_CHAR"),
            ("char32_t", 4, "F_CHAR"), ("enum e_s", 4, "F_SIGNED; F_ENUM"), ("enum e_u", 4, "F_UNSIGNED; F_ENUM"),
            ("enum e_l", 8, "F_SIGNED; F_ENUM"), ("void *", 8, "F_POINTER"), ("int *", 8, "F_POINTER"),
            ("int(*)(int)", 8, "F_FUNCTIONPTR"), ("struct s3", 3, "F_STRUCT"), ("struct s8", 8, "F_STRUCT"),
            ("union u4", 4, "F_UNION"), ("int[3]", 12, "F_ARRAY"), ("int[0]", 0, "F_ARRAY"), ("char[0]", 0, "F_ARRAY")]
FB_TYPES = [(t, sz) for t, sz, _ in FB_ITEMS]
FB_FLAGS = {t: f for t, _, f in FB_ITEMS}


def fb_ctype(T, form, k):
    """the C declaration of T[] / T[k] / T*"""
    dims = {"open": "[]", "fixed": "[%s]" % k, "ptr": None}[form]
    if T.endswith("]"):                         # array items: 'int[3]' -> 'int[][3]' / 'int(*)[3]'
        b, rest = T[:T.index("[")], T[T.index("["):]
        return b + ("(*)" + rest if dims is None else dims + rest)
    if "(*)" in T:                              # function pointers: 'int(*)(int)' -> 'int(*[])(int)'
        return T.replace("(*)", "(**)" if dims is None else "(*%s)" % dims)
    return T + (" *" if dims is None else dims)


def gen_fb(rng, T=None):
    T, size = rng.choice(FB_TYPES) if T is None else (T, dict(FB_TYPES)[T])
    L = rng.choice([0, 1, 2, 3, 4, 7, 8, 9, 15, 16, 17, 24])
    obj = rng.choice(["bytearray", "bytearray", "bytes", "array_B", "array_H", "memoryview", "str", "int"])
    r = rng.random()
    if r < 0.55:
        form, k = "open", None
    elif r < 0.92:
        form, k = "fixed", rng.choice([0, 1, 2, L // max(size, 1), L // max(size, 1) + 1, max(0, L // max(size, 1) - 1)])
    else:
        form, k = "ptr", None
    return dict(kind="fb", item=T, ctype=fb_ctype(T, form, k), form=form, k=k, size=size, obj=obj,
                data=bytes(rng.getrandbits(8) for _ in range(L)).hex())


def gen_mm(rng):
    m = rng.choice([1, 2, 4, 8, 16, 33])
    mem = bytes(rng.getrandbits(8) for _ in range(m))
    dest = rng.choice(["cdata", "memoryview", "array_slice"])
    src = rng.choice(["cdata", "cdata", "memoryview", "array_slice", "bytes", "extra_bytearray"])
    d = rng.randrange(m + 1)
    c = dict(kind="mm", mem=mem.hex(), dest=dest, src=src, d=d)
    if src in ("bytes", "extra_bytearray"):
        extra = bytes(rng.getrandbits(8) for _ in range(rng.choice([0, 1, 4, 9, 40])))
        s = rng.randrange(len(extra) + 1)
        c.update(extra=extra.hex(), s=s, n=rng.randrange(min(m - d, len(extra) - s) + 1))
    else:
        s = rng.randrange(m + 1)
        if rng.random() < 0.5:                # force an overlap
            s = max(0, min(m, d + rng.choice([-2, -1, 0, 1, 2, 3])))
        c.update(s=s, n=rng.randrange(min(m - d, m - s) + 1))
    if rng.random() < 0.05:
        c["n"] = -rng.randrange(1, 5)
    return c


def gen_ov(rng):
    """slice assignment whose right-hand side lives in the SAME memory as the destination window"""
    m = rng.choice([8, 16, 24, 40, 96])
    mem = bytes(rng.getrandbits(8) for _ in range(m))
    off = rng.randrange(m // 2)
    n = rng.randrange(2, m - off + 1)
    a = rng.randrange(n)
    cnt = rng.randrange(n - a + 1) if rng.random() < 0.85 else n - a
    src = rng.choice(["buffer", "buffer", "memoryview", "cdata_slice", "cdataptr", "frombuf"])
    slen = cnt
    if src != "cdataptr" and rng.random() < 0.1:
        slen = max(0, cnt + rng.choice([-1, 1]))
    hi = m - max(slen, cnt)
    if rng.random() < 0.8:                 # force an overlap (or adjacency)
        s = max(0, min(hi, off + a + rng.choice([-5, -3, -2, -1, 0, 1, 2, 3, 5, cnt, -cnt])))
    else:
        s = rng.randrange(hi + 1)
    return dict(kind="ov", mem=mem.hex(), off=off, n=n, a=a, b=a + cnt, src=src, s=s, slen=slen)


def ov_expect(c):
    """copy-through-a-temporary semantics (Python: w[a:b] = bytes(w2[...])): (outcome, memory, ranges overlap)"""
    mem = bytearray.fromhex(c["mem"])
    cnt = c["b"] - c["a"]
    d = c["off"] + c["a"]
    if c["src"] != "cdataptr" and c["slen"] != cnt:
        return ["err", "ValueError"], bytes(mem), False
    tmp = bytes(mem[c["s"]:c["s"] + cnt])
    mem[d:d + cnt] = tmp
    return ["done"], bytes(mem), cnt > 0 and d != c["s"] and abs(d - c["s"]) < cnt


def generate(ctx):
    rng = ctx.rng
    big = ctx.tier_search == "thorough"
    # the size rules come first: they are checked (and reported) before any memory is touched
    cases = []
    for what, ctype, ln, isz in [("array", "int[]", 5, 4), ("array", "char[]", 7, 1), ("array", "struct s3[]", 2, 3),
                                 ("array", "int[]", 0, 4), ("pointer", "int *", None, 4), ("pointer", "struct s3 *", None, 3),
                                 ("castptr", "void *", None, -1), ("castptr", "double *", None, 8), ("prim", "int", None, 4),
                                 ("frombuf", "char[]", 9, 1), ("frombuf", "short[]", 8, 2), ("frombuf", "int[2]", 8, 4),
                                 ("frombuf", "char *", 6, 1)]:
        total = (ln or 1) * max(isz, 1) if what in ("array", "frombuf") else max(isz, 1)
        for size in [None, 0, 1, total - 1, total, total + 3, 8, -1, -5]:
            cases.append(dict(kind="size", what=what, ctype=ctype, len=ln, isz=isz, size=size))
    cases += [gen_hist(rng) for _ in range(700 if not big else 8000)]
    for T, _ in FB_TYPES:                       # every item kind at least a few times, open arrays first
        for _ in range(3):
            c = gen_fb(rng, T)
            if _ == 0:
                c.update(form="open", k=None, ctype=fb_ctype(T, "open", None), obj="bytearray")
            cases.append(c)
    cases += [gen_fb(rng) for _ in range(250 if not big else 2500)]
    cases += [gen_mm(rng) for _ in range(400 if not big else 4000)]
    cases += [gen_ov(rng) for _ in range(150 if not big else 1500)]
    # witness of the finding ass_slice_memcpy_overlap: ffi.buffer(p, 16)[0:8] = ffi.buffer(p + 2, 8)
    cases.append(dict(kind="ov", mem="6162636465666768696a6b6c6d6e6f70", off=0, n=16, a=0, b=8, src="buffer", s=2, slen=8))
    # design witnesses
    cases.append(dict(kind="hist", backing="cdata", init="0a0b0c0d0e0f1011", off=2, n=4, ops=[
        ["get", ["i", -1]], ["get", ["s", -3, None, None]], ["set", ["s", 1, 3, None], ["bytearray", "0102"]],
        ["set", ["s", 1, 3, None], ["bytes", "01"]], ["get", ["s", None, None, 2]], ["set", ["i", 4], ["bytes", "09"]],
        ["set", ["i", -4], ["bytes", "09"]], ["get", ["s", 3, 1, None]], ["set", ["s", 3, 1, None], ["bytes", ""]],
        ["get", ["s", None, None, 0]]]))
    cases.append(dict(kind="mm", mem="0102030405", dest="cdata", src="cdata", d=1, s=0, n=3))
    # witness of the fixed finding cdata_slice_source (feea9b6), and its neighbours
    cases.append(dict(kind="hist", backing="cdata", init="6162636465666768", off=0, n=8, ops=[
        ["set", ["s", 0, 4, None], ["cdata", "5758595a", "char"]], ["set", ["s", 0, 4, None], ["cdata", "5758595a31", "char"]],
        ["set", ["s", 4, 6, None], ["cdataptr", "313233", "char"]], ["set", ["s", 0, 4, None], ["cdata", "41414242", "short"]],
        ["set", ["s", 0, 4, None], ["cdata", "6162636465", "char", "slice"]],
        ["set", ["s", 0, 4, None], ["cdata", "6162", "char", "new_open"]],
        ["set", ["s", 0, 4, None], ["cdata", "616263646566", "short", "frombuf"]],
        ["set", ["s", 0, 4, None], ["cdata", "71727374", "char", "slice"]]]))
    return cases


# ------------------------------------------------------------------------------------------ oracle
def py_key(k):
    if k[0] == "i":
        return k[1]
    if k[0] == "s":
        return slice(k[1], k[2], k[3])
    return "a" if k[1] == "str" else 1.5


def oracle_step(ref, op):
    """apply op to the reference bytearray `ref` (in place); returns the expected outcome.
    Readings recorded in DESIGN.md: step other than 1 -> TypeError (0 -> ValueError as bytearray),
    length-changing assignment -> ValueError, del -> TypeError, right-hand sides must be bytes-like
    (items: a bytes of length 1)."""
    kind = op[0]
    if kind == "len":
        return ["int", len(ref)]
    key = op[1]
    if kind == "del":
        return ["err", "TypeError"]
    if key[0] == "o":
        return ["err", "TypeError"]
    if key[0] == "i":
        try:
            cur = ref[key[1]]
        except IndexError:
            return ["err", "IndexError"]
        if kind == "get":
            return ["bytes", bytes([cur]).hex()]
        v = op[2]
        if v[0] != "bytes" or len(v[1]) != 2:          # also a cdata: items need a bytes of length 1
            return ["err", "TypeError"]
        ref[key[1]] = bytes.fromhex(v[1])[0]
        return ["done"]
    st = key[3]
    if st == 0:
        return ["err", "ValueError"]
    if st not in (None, 1):
        return ["err", "TypeError"]
    sl = slice(key[1], key[2], None)
    if kind == "get":
        return ["bytes", bytes(ref[sl]).hex()]
    v = op[2]
    if v[0] not in ("bytes", "bytearray", "memoryview", "array", "cdata", "cdataptr"):
        return ["err", "TypeError"]
    tmp = bytearray(ref)
    data = bytes.fromhex(v[1])
    if v[0] == "cdataptr":          # cffi's extension: as many bytes as the slice has are taken from the pointer
        data = data[:len(range(*sl.indices(len(ref))))]
    tmp[sl] = data
    if len(tmp) != len(ref):
        return ["err", "ValueError"]
    ref[:] = tmp
    return ["done"]


def finding_key(op, got, want, mem, mem_before):
    """cdata_slice_source: slice assignment whose right-hand side is an array cdata of exactly the slice's
    byte length; the oracle accepts it, the implementation raised ValueError and changed nothing"""
    if (op[0] == "set" and op[1][0] == "s" and op[2][0] == "cdata" and want == ["done"]
            and got == ["err", "ValueError"] and mem == mem_before):
        return "cdata_slice_source"
    return None


# ------------------------------------------------------------------------------------------ literals
def zl(xs):
    return "[" + ";".join("%d" % x for x in xs) + "]"


def opt(x):
    return "None" if x is None else "(Some (%d))" % x


def key_lit(k):
    if k[0] == "i":
        return "(KInt (%d))" % k[1]
    if k[0] == "s":
        return "(KSlice %s %s %s)" % (opt(k[1]), opt(k[2]), opt(k[3]))
    return "KOther"


def val_lit(v):
    if v[0] == "bytes":
        return "(VBytes %s)" % zl(bytes.fromhex(v[1]))
    if v[0] in ("bytearray", "memoryview", "array"):
        return "(VBuf %s)" % zl(bytes.fromhex(v[1]))
    return "VOther"


def is_cdata_val(v):
    return v[0] in ("cdata", "cdataptr")


def cdata_val_lit(v):
    """option pyval: the cdata source as the regenerated _fetch_as_buffer presents it"""
    data = bytes.fromhex(v[1])
    if v[0] == "cdataptr":
        isz = 1 if v[2] == "char" else 4
        return "(cdata_source gen_fetch_len (mk_sd false 8 0 %d) %s)" % (isz, zl(data))
    isz = {"char": 1, "short": 2}[v[2]]
    if len(data) % isz:
        isz = 1
    k = len(data) // isz
    how = v[3] if len(v) > 3 else "fixed"
    ct_size = k * isz if how == "fixed" else -1
    return "(cdata_source gen_fetch_len (mk_sd true (%d) %d %d) %s)" % (ct_size, k, isz, zl(data))


def op_lit(op):
    if op[0] == "get":
        return "OGet " + key_lit(op[1])
    if op[0] == "set":
        if is_cdata_val(op[2]):
            return "OSet %s %s" % (key_lit(op[1]), cdata_val_lit(op[2]))
        return "OSet %s (Some %s)" % (key_lit(op[1]), val_lit(op[2]))
    if op[0] == "del":
        return "OSet %s None" % key_lit(op[1])
    return "OLen"


EXN = {"IndexError", "TypeError", "ValueError", "ZeroDivisionError"}


def out_lit(o):
    if o[0] == "bytes":
        return "RBytes " + zl(bytes.fromhex(o[1]))
    if o[0] == "done":
        return "RDone"
    if o[0] == "int":
        return "RInt (%d)" % o[1]
    if o[0] == "err" and o[1] in EXN:
        return "RErr " + o[1]
    return None


def res_lit(o):
    if o[0] in ("ok", "int"):
        return "Ok (%d)" % o[1]
    if o[0] == "err" and o[1] in EXN:
        return "Err " + o[1]
    return None


# ------------------------------------------------------------------------------------------ evaluation
def evaluate(ctx, cases):
    s = ctx.scratch()
    # step 1 (cheap, touches no memory): the size rules of ffi.buffer; step 2: everything else, in forked
    # children so that a crash is attributed to one case
    order = [i for i, c in enumerate(cases) if c["kind"] == "size"] + [i for i, c in enumerate(cases) if c["kind"] != "size"]
    nsize = sum(1 for c in cases if c["kind"] == "size")
    results = [None] * len(cases)
    out = None
    for part in (order[:nsize], order[nsize:]):
        if not part:
            continue
        out, p = s.run_worker("c19_worker.py", dict(cases=[cases[i] for i in part], types=[t[0] for t in FB_TYPES],
                                                    chunk=1 if len(part) <= 30 else 25), timeout=1800)
        if out is None:
            ctx.violation(cases[part[0]], "C19 worker crashed (rc=%s): %s" % (p.returncode, (p.stderr or p.stdout)[-1500:]))
            return
        for i, r in zip(part, out["results"]):
            results[i] = r
    out = dict(results=results, sizes=out["sizes"])
    for T, size in FB_TYPES:
        if out["sizes"].get(T) != size:
            ctx.obligation_broken("C19 type table: sizeof(%s) = %r, harness says %d" % (T, out["sizes"].get(T), size))
    hist, hist_owner, scalar, scalar_owner, mm, mm_owner, spec, spec_owner = [], [], [], [], [], [], [], []
    ov, ov_owner = [], []
    for c, r in zip(cases, out["results"]):
        ctx.count(max(1, len(c.get("ops", []))))
        ctx.hist("kind", c["kind"])
        if "error" in r:
            ctx.violation(c, "harness could not run the case: " + r["error"])
            continue
        if "crash" in r:
            ctx.violation(c, "the interpreter died (signal/exit %s) while running this %s case" % (r["crash"], c["kind"]))
            continue
        if c["kind"] == "hist":
            init = bytes.fromhex(c["init"])
            off, n = c["off"], c["n"]
            ref = bytearray(init[off:off + n])
            bad = False
            tainted = False
            for i, (op, got, memhex) in enumerate(zip(c["ops"], r["outs"], r["mems"])):
                before = bytes(ref)
                want = oracle_step(ref, op)
                expect_mem = init[:off] + bytes(ref) + init[off + n:]
                ctx.hist("outcome", got[0] if got[0] != "err" else got[1])
                key = finding_key(op, got, want, bytes.fromhex(memhex), init[:off] + before + init[off + n:])
                if key:
                    ctx.violation(dict(c, ops=c["ops"][:i + 1]),
                                  "%r: an array cdata of exactly the slice's %d bytes is refused with %r (a bytes-like "
                                  "source of that length is accepted)" % (op, len(op[2][1]) // 2, got), key)
                    ref[:] = before            # follow the implementation: nothing was stored
                    tainted = True
                    continue
                if got != want or bytes.fromhex(memhex) != expect_mem:
                    ctx.violation(dict(c, ops=c["ops"][:i + 1]),
                                  "buffer window [%d:%d) of %d bytes (%s): %r gives %r, memory %s; a bytearray gives %r, "
                                  "memory %s" % (off, off + n, len(init), c["backing"], op, got, memhex, want,
                                                 expect_mem.hex()))
                    bad = True
                    break
            if bad:
                continue
            if bytes.fromhex(r["full"]) != bytes(ref):
                ctx.violation(c, "buf[:] is %s after the history, the bytearray holds %s" % (r["full"], bytes(ref).hex()))
                continue
            if c["ops"]:
                ctx.nontrivial(("hist", c["init"], off, n, c["ops"]))
            if tainted:
                continue                    # the model describes the length check with a defined length
            lits = [out_lit(o) for o in r["outs"]]
            if any(x is None for x in lits):
                ctx.mismatch(c, "outcome outside the model's vocabulary: %r" % r["outs"], "C19.Model.run vs ffi.buffer")
                continue
            final = bytes.fromhex(r["mems"][-1]) if r["mems"] else init
            hist.append(("(%d, %d, %s, [%s])" % (off, n, zl(init), "; ".join(op_lit(o) for o in c["ops"])),
                         "(%s, [%s])" % (zl(final), "; ".join(lits))))
            hist_owner.append(c)
            # Spec.v against the real bytearray `ref` (its final content and the oracle's outcomes = lits)
            spec.append(("(%s, [%s])" % (zl(init[off:off + n]), "; ".join(op_lit(o) for o in c["ops"])),
                         "(%s, [%s])" % (zl(bytes(ref)), "; ".join(lits))))
            spec_owner.append(c)
        elif c["kind"] == "fb":
            L, size, o = len(bytes.fromhex(c["data"])), c["size"], r["out"]
            if c["obj"] == "array_H":
                L = L // 2 * 2
            has_buf = c["obj"] not in ("str", "int")
            # the property: open arrays get len // size items, fixed arrays need k*size bytes, memory is aliased
            if has_buf and c["form"] == "open" and size > 0:
                if o != ["ok", L // size]:
                    ctx.violation(c, "from_buffer(%r, %d bytes) has %r items, expected len(obj) // sizeof(T) = %d"
                                  % (c["ctype"], L, o, L // size))
            if has_buf and c["form"] == "fixed":
                want = ["err", "ValueError"] if L < c["k"] * size else ["ok", c["k"]]
                if o != want:
                    ctx.violation(c, "from_buffer(%r, %d bytes) gives %r, expected %r" % (c["ctype"], L, o, want))
            if o[0] == "ok" and o[1] >= 0:
                if r.get("past_end") != "IndexError":
                    ctx.violation(c, "from_buffer(%r, %d bytes): index %d (one past the end) gives %r, expected IndexError"
                                  % (c["ctype"], L, o[1], r.get("past_end")))
                if r.get("last", "ok") != "ok":
                    ctx.violation(c, "from_buffer(%r, %d bytes): the last item cannot be read: %r" % (c["ctype"], L, r["last"]))
                if r.get("span") != o[1] * size:
                    ctx.violation(c, "len(ffi.buffer(from_buffer(%r, %d bytes))) is %r, the array spans %d bytes"
                                  % (c["ctype"], L, r.get("span"), o[1] * size))
                if c["form"] == "open" and o[1] * size > L:
                    ctx.violation(c, "from_buffer(%r, %d bytes): %d items of %d bytes extend past the object's memory"
                                  % (c["ctype"], L, o[1], size))
            if not has_buf and o[0] != "err":
                ctx.violation(c, "from_buffer accepted a %s" % c["obj"])
            if r.get("alias") is False or r.get("addr_same") is False:
                ctx.violation(c, "from_buffer(%r) does not alias the object's memory" % c["ctype"])
            ctx.nontrivial(("fb", c["ctype"], c["obj"], L))
            t = {"open": "FOpenArray (%d)" % size, "fixed": "FFixedArray (%s) (%d)" % (c["k"], size), "ptr": "FPointer"}[c["form"]]
            lit = res_lit(o if c["form"] != "ptr" or o[0] == "err" else ["ok", L])
            if lit and has_buf and c["form"] == "open":
                # the code-shaped branch with the regenerated fast-path test
                scalar.append(("from_buffer_open_code gen_from_buffer_fast (mk_item (%d) [%s]) (%d)"
                               % (size, FB_FLAGS[c["item"]], L), lit))
                scalar_owner.append(c)
            if lit:
                scalar.append(("from_buffer_length (%s) %s %s (%d)" % (t, "true" if c["obj"] == "str" else "false",
                                                                        "true" if has_buf else "false", L), lit))
                scalar_owner.append(c)
        elif c["kind"] == "mm":
            mem, o = bytearray.fromhex(c["mem"]), r["out"]
            extra = bytes.fromhex(c.get("extra", ""))
            n, d, sidx = c["n"], c["d"], c["s"]
            if n < 0:
                want_out, want_mem = ["err", "ValueError"], bytes(mem)
            else:
                tmp = (extra if c["src"] in ("bytes", "extra_bytearray") else bytes(mem))[sidx:sidx + n]   # the temporary
                mem[d:d + n] = tmp
                want_out, want_mem = ["done"], bytes(mem)
            if o != want_out or bytes.fromhex(r["mem"]) != want_mem:
                ctx.violation(c, "memmove(%s+%d, %s+%d, %d) on %s: %r, memory %s; a copy through a temporary gives %r, %s"
                              % (c["dest"], d, c["src"], sidx, n, c["mem"], o, r["mem"], want_out, want_mem.hex()))
                continue
            ctx.nontrivial(("mm", c["mem"], c["dest"], c["src"], d, sidx, n))
            ctx.hist("mm_overlap", c["src"] not in ("bytes", "extra_bytearray") and n > 0 and abs(d - sidx) < n)
            whole = bytes.fromhex(c["mem"]) + extra
            soff = sidx + (len(bytes.fromhex(c["mem"])) if c["src"] in ("bytes", "extra_bytearray") else 0)
            lit = ("Ok %s" % zl(bytes.fromhex(r["mem"]) + extra)) if o == ["done"] else res_lit(o)
            if lit:
                mm.append(("memmove %s (%d) (%d) (%d)" % (zl(whole), d, soff, n), lit))
                mm_owner.append(c)
        elif c["kind"] == "ov":
            want_out, want_mem, overlap = ov_expect(c)
            o = r["out"]
            ctx.hist("ov_overlap", overlap)
            ctx.hist("ov_src", c["src"])
            if o != want_out or bytes.fromhex(r["mem"]) != want_mem:
                ctx.violation(c, ov_text(c) + ": %r, memory %s; evaluating the source first gives %r, memory %s"
                              % (o, r["mem"], want_out, want_mem.hex()),
                              "ass_slice_memcpy_overlap" if overlap and GEN["copy"] == "Memcpy" else None)
                continue
            ctx.nontrivial(("ov", c["mem"], c["off"], c["n"], c["a"], c["b"], c["src"], c["s"], c["slen"]))
            cnt, dpos = c["b"] - c["a"], c["off"] + c["a"]
            intersect = cnt > 0 and abs(dpos - c["s"]) < cnt      # dest == src included: undefined for memcpy too
            if o == ["done"] and not (intersect and GEN["copy"] != "Memmove"):
                # the regenerated copy primitive on aliasing operands (memcpy + overlap: undefined, no claim)
                ov.append(("match copy_of gen_mb_ass_slice with Some f => copy_alias f %s (%d) (%d) (%d) | None => Err OutOfModel end"
                           % (zl(bytes.fromhex(c["mem"])), c["off"] + c["a"], c["s"], c["b"] - c["a"]),
                           "Ok %s" % zl(bytes.fromhex(r["mem"]))))
                ov_owner.append(c)
        else:   # ffi.buffer size rules
            o = r["out"]
            k = {"array": "(CArray (%d))" % (c["len"] or 0), "pointer": "CPointer", "castptr": "CPointer",
                 "prim": "CNeither", "frombuf": "CPointer" if c["ctype"].endswith("*") else None}[c["what"]]
            if k is None:
                nitems = int(c["ctype"].split("[")[1].rstrip("]") or 0) if c["ctype"].endswith("]") and \
                    not c["ctype"].endswith("[]") else c["len"] // c["isz"]
                k = "(CArray (%d))" % nitems
            else:
                nitems = c["len"] or 0
            size = c["size"]
            if c["what"] == "prim":
                want = ["err", "TypeError"]
            elif size is not None and size >= 0:
                want = ["int", size]                                   # ffi.buffer(p, n) has exactly n bytes
            elif k.startswith("(CArray"):
                want = ["int", nitems * c["isz"]]                      # default: the whole array
            else:
                want = ["int", c["isz"]] if c["isz"] >= 0 else ["err", "TypeError"]   # default: one item
            if o != want:
                ctx.violation(c, "len(ffi.buffer(<%s %s>%s)) gives %r, expected %r"
                              % (c["what"], c["ctype"], "" if size is None else ", %d" % size, o, want))
            lit = res_lit(o)
            if lit:
                scalar.append(("buffer_size %s (%d) (-1) %s" % (k, c["isz"], opt(c["size"])), lit))
                scalar_owner.append(c)
            ctx.nontrivial(("size", c["what"], c["ctype"], c["size"]))
    for name, lst, owner, fexpr, eqb in (
            ("run", hist, hist_owner, "fun c => match c with (off, n, mem, ops) => run off n mem ops end", "run_eqb"),
            ("Spec.spec_run vs CPython bytearray", spec, spec_owner,
             "fun c => match c with (w, ops) => spec_run w ops end", "run_eqb"),
            ("from_buffer_length / buffer_size", scalar, scalar_owner, "fun r : res Z => r", "resz_eqb"),
            ("memmove", mm, mm_owner, "fun r : res (list Z) => r", "resl_eqb"),
            ("copy_alias (aliasing slice sources)", ov, ov_owner, "fun r : res (list Z) => r", "resl_eqb")):
        bad, outs, err = vlib.coq_mismatches(["C19.Types", "C19.Gen", "C19.Model", "C19.Spec", "C19.MbSem"], fexpr, eqb, lst,
                                             prelude="Open Scope Z_scope.",
                                             shard=250)
        if err:
            ctx.obligation_broken("C19 model evaluation (%s)" % name, err)
        for i in bad:
            ctx.mismatch(owner[i], "model %s = %s; implementation %s" % (lst[i][0][:300], outs.get(i), lst[i][1][:600]),
                         "C19.Model.%s vs implementation" % name)
    for c in cases[:2]:
        ctx.sample(c)


def ov_text(c):
    return ("p = %d bytes %s; ffi.buffer(p + %d, %d)[%d:%d] = <%s over p + %d, %d bytes>"
            % (len(c["mem"]) // 2, c["mem"], c["off"], c["n"], c["a"], c["b"], c["src"], c["s"], c["slen"]))


def evaluate_asan(ctx, cases):
    """the aliasing-source stream on an AddressSanitizer build, one child per case: a sanitizer report
    (memcpy-param-overlap, out-of-bounds) kills the child and is attributed to the case"""
    sub = [c for c in cases if c["kind"] == "ov"]
    sub = sub[-1:] + sub[:(60 if ctx.tier_search != "thorough" else 400)]
    if not sub:
        return
    s = ctx.scratch(asan=True)
    out, p = s.run_worker("c19_worker.py", dict(cases=sub, types=[], chunk=1), timeout=1800)
    if out is None:
        ctx.violation(sub[0], "C19 worker crashed on the ASan build (rc=%s): %s" % (p.returncode, (p.stderr or p.stdout)[-1500:]))
        return
    reports = (p.stderr or "")
    for c, r in zip(sub, out["results"]):
        ctx.count(1)
        want_out, want_mem, overlap = ov_expect(c)
        ctx.hist("asan_ov", "overlap" if overlap else "disjoint")
        if "crash" in r:
            is_overlap_report = "memcpy-param-overlap" in reports and "mb_ass_slice" in reports
            key = "ass_slice_memcpy_overlap" if (overlap and GEN["copy"] == "Memcpy" and is_overlap_report) else None
            ctx.violation(c, ov_text(c) + ": the interpreter is stopped by AddressSanitizer (%s); source and destination "
                          "ranges %s" % ("memcpy-param-overlap in mb_ass_slice" if is_overlap_report else
                                         "exit/signal %s: %s" % (r["crash"], reports[-400:]),
                                         "overlap" if overlap else "do not overlap"), key)
            continue
        if "error" in r:
            ctx.violation(c, "harness could not run the case on the ASan build: " + r["error"])
            continue
        if r["out"] != want_out or bytes.fromhex(r["mem"]) != want_mem:
            ctx.violation(c, ov_text(c) + " (ASan build): %r, memory %s; evaluating the source first gives %r, memory %s"
                          % (r["out"], r["mem"], want_out, want_mem.hex()),
                          "ass_slice_memcpy_overlap" if overlap and GEN["copy"] == "Memcpy" else None)


def run(ctx):
    ctx.cov["rule"] = ("hist: windows (offset, n) of 0..24-byte memories held by cdata / bytearray / array.array, 2-10 "
                       "operations each (get/set by int or slice with bounds and steps among None, small, negative, "
                       "+-n, +-2^63, beyond Py_ssize_t; right-hand sides bytes/bytearray/memoryview/array of matching "
                       "and non-matching length, str, int, None, list; del; len), outcome and whole memory after every "
                       "operation vs a real bytearray (oracle) and vs the Coq model; fb: from_buffer('T[]'/'T[k]'/'T*') "
                       "for 9 item types (incl. size 0) x bytearray/bytes/array/memoryview/str/int of 0..24 bytes, "
                       "length, too-small rule, aliasing both ways; mm: memmove between cdata pointers, array views, "
                       "memoryviews and bytes over one 1..33-byte memory, half of them overlapping; size: ffi.buffer "
                       "size rules; ov: buf[a:b] = <ffi.buffer / memoryview / array-cdata slice / pointer / from_buffer over the "
                       "SAME 8..96-byte memory>, 80% overlapping or adjacent ranges, vs copy-through-a-temporary, natively and "
                       "(61 / 401 cases, one child each) on an ASan build. Non-trivial = every case with >= 1 operation; "
                       "distinct by full case.")
    ctx.assumptions += [
        "coq/C19/Gen.v regenerated on every run (fail closed): bodies of mb_item/mb_slice/mb_ass_item/mb_ass_slice "
        "(src/c/minibuffer.h), direct_from_buffer's fast-path test, _fetch_as_buffer's view->len for cdata; the C19_gen_* "
        "theorems are re-proved on the current text",
        "hand-written parts of C19/Model.v (mb_subscript glue, PySlice_Unpack/AdjustIndices, size rules, memmove); tied by "
        "this run's differential test",
        "C19/Spec.v states bytearray semantics; it is itself compared with CPython's bytearray through the oracle of this run",
        "C memmove copies as if through a temporary array (C11 7.24.2.2)",
        "readings recorded in DESIGN.md: step != 1 refused with TypeError, length-changing assignment with ValueError"]
    cases = generate(ctx)
    evaluate(ctx, cases)
    evaluate_asan(ctx, cases)


MANIFEST = dict(
    technique="Coq refinement proof (the four minibuffer.h slot functions, translated statement by statement from the "
              "source on every run, + CPython slice protocol refine a bytearray specification on the window, frame "
              "outside; induction over histories) + regenerated from_buffer/_fetch_as_buffer facts + differential "
              "correspondence against real bytearrays, aliasing sources also under AddressSanitizer",
    text="Proved for every memory, window, and operation history (any Python ints/None as bounds and steps, any right-hand "
         "side): outcomes through ffi.buffer equal those of the same history on a bytearray holding the window, the "
         "window afterwards equals that bytearray, nothing outside the window changes, lengths never change "
         "(C19_buffer_history, C19_buffer_frame; C19_slice_bounds for PySlice_Unpack/AdjustIndices). REGENERATED into "
         "C19/Gen.v (fail closed: an unrecognised shape is a broken obligation): the bodies of mb_item, mb_slice, "
         "mb_ass_item, mb_ass_slice (index test, clamps, length test, exception classes, copy primitive/address/count); "
         "each equals the model function for all inputs (C19_gen_mb_item, C19_gen_mb_slice, C19_gen_mb_ass_item, "
         "C19_gen_mb_ass_slice) and the buffer object built from them refines the spec for every history "
         "(C19_gen_buffer_history); the copy primitive is memmove, so sources aliasing the destination are copied as if "
         "through a temporary for every overlap (C19_gen_ass_slice_copy_is_memmove, C19_gen_alias_copy_total; memcpy "
         "only for disjoint ranges: C19_alias_copy_defined); the from_buffer fast-path test "
         "(C19_from_buffer_fast_path_only_size1, C19_from_buffer_code_is_len_div_size, _code_matches_model; refuted "
         "variant C19_char_flag_fast_path_refuted) and _fetch_as_buffer's view->len for cdata "
         "(C19_fetch_len_generated_ok, C19_fetch_len_is_real_length, C19_cdata_source; refuted "
         "C19_ct_size_length_refuted). Hand model: from_buffer('T[k]') ValueError rule, buffer_size, mb_subscript glue, "
         "memmove (C19_memmove: old source bytes for every overlap, rest unchanged). Correspondence only: from_buffer "
         "aliasing, memmove operand kinds, Spec vs CPython bytearray, b_memmove's call, explicit_size warning path.",
    note="Trusted: Coq kernel; the statement language/interpreter C19/Types.v + MbSem.v and the hand parts of "
         "C19/Model.v (mb_subscript glue, size rules, memmove) and spec C19/Spec.v (all tied to the real objects by "
         "differential testing against CPython bytearrays); C11 memmove semantics; CPython's buffer protocol. Findings: "
         "cdata_slice_source (fixed feea9b6), ass_slice_memcpy_overlap (fixed 2519df6; the ASan stream of aliasing "
         "sources reports it again if memcpy returns). Theorems closed under the global context.",
    design_ref="DESIGN.md §4 C19")
