"""C21 — regeneration of the GC edges, the finalize order and the release table from
/repo/src/c/_cffi_backend.c (fail closed: any statement outside the small subset understood here
raises Untranslatable, which the check reports as a broken obligation).

What is extracted (all as Coq definitions of C21/Gen.v):
  gen_traverse                the Py_VISIT lists of cdataowninggc_traverse / cdatafrombuf_traverse /
                              cdatagcp_traverse, per Python type (from the tp_traverse slots) and ctype guard
  gen_structptr_owns          direct_newp stores the only reference to the struct object into the pointer and
                              cdataowning_dealloc drops it
  gen_finalize_cleared        the fields cdatagcp_finalize sets to NULL
  gen_finalize_clears_first   ... all of them BEFORE it calls gcp_finalize
  gen_gcp_finalize_calls      number of destructor call sites in gcp_finalize (guarded by destructor != NULL)
  gen_dealloc_finalizes       cdatagcp_dealloc hands the current fields to gcp_finalize
  gen_gcnone_clears           the fields ffi.gc(w, None) clears (b_gcp)
  gen_release_case            explicit_release_case: Python type + ctype guard -> case number (else ValueError)
  gen_exit_table              cdata_exit: case number -> action
"""
import re


class Untranslatable(Exception):
    pass


def _fail(msg):
    raise Untranslatable(msg)


TOK = re.compile(r'[A-Za-z_]\w*|->|==|!=|&&|\|\||<=|>=|\d+|"(?:[^"\\]|\\.)*"|\S')


def strip(src):
    src = re.sub(r"/\*.*?\*/", " ", src, flags=re.S)
    return re.sub(r"^[ \t]*#.*$", " ", src, flags=re.M)


def function_body(src, name, head=r"static [\w \*]+?"):
    """token list of the body of the (unique) definition of `name`"""
    hits = list(re.finditer(r"^%s\b%s\(" % (head, re.escape(name)), src, re.M))
    if len(hits) != 1:
        _fail("%d definitions of %s" % (len(hits), name))
    i = src.index("{", hits[0].end())
    if ";" in src[hits[0].end():i]:
        _fail("%s: prototype, not a definition" % name)
    depth, j = 0, i
    while True:
        c = src[j]
        depth += (c == "{") - (c == "}")
        j += 1
        if depth == 0:
            break
    return TOK.findall(strip(src[i + 1:j - 1]))


class Parser:
    """('expr', text) | ('if', cond, [then], [else]|None) | ('switch', expr, [(label, [stmts])]) |
    ('return', text) | ('break',)"""

    def __init__(self, toks, where):
        self.t, self.i, self.where = toks, 0, where

    def peek(self):
        return self.t[self.i] if self.i < len(self.t) else None

    def take(self, want=None):
        if self.i >= len(self.t) or (want is not None and self.t[self.i] != want):
            _fail("%s: expected %r at token %d" % (self.where, want, self.i))
        self.i += 1
        return self.t[self.i - 1]

    def parens(self):
        self.take("(")
        depth, out = 1, []
        while True:
            x = self.take()
            depth += (x == "(") - (x == ")")
            if depth == 0:
                return " ".join(out)
            out.append(x)

    def until_semicolon(self):
        out = []
        while self.peek() != ";":
            if self.peek() == "{" and out and out[-1] == "=":      # aggregate initializer
                depth = 0
                while True:
                    x = self.take()
                    depth += (x == "{") - (x == "}")
                    out.append(x)
                    if depth == 0:
                        break
                continue
            if self.peek() in ("{", "}", None):
                _fail("%s: unterminated statement %r" % (self.where, " ".join(out)))
            out.append(self.take())
        self.take(";")
        return " ".join(out)

    def stmt(self):
        x = self.peek()
        if x == "{":
            self.take()
            out = []
            while self.peek() != "}":
                out += self.stmt()
            self.take("}")
            return out
        if x == "if":
            self.take()
            cond = self.parens()
            then = self.stmt()
            els = None
            if self.peek() == "else":
                self.take()
                els = self.stmt()
            return [("if", cond, then, els)]
        if x == "switch":
            self.take()
            e = self.parens()
            self.take("{")
            cases = []
            while self.peek() != "}":
                if self.peek() == "case":
                    self.take()
                    label = self.take()
                    self.take(":")
                    cases.append((label, []))
                elif self.peek() == "default":
                    self.take()
                    self.take(":")
                    cases.append(("default", []))
                else:
                    if not cases:
                        _fail("%s: statement before the first case label" % self.where)
                    cases[-1][1].extend(self.stmt())
            self.take("}")
            return [("switch", e, cases)]
        if x == "return":
            self.take()
            return [("return", self.until_semicolon())]
        if x == "break":
            self.take()
            self.take(";")
            return [("break",)]
        if x in ("for", "while", "do", "goto", "else", "case", "default"):
            _fail("%s: '%s' is outside the translated subset" % (self.where, x))
        return [("expr", self.until_semicolon())]

    def all(self):
        out = []
        while self.peek() is not None:
            out += self.stmt()
        return out


def stmts_of(src, name):
    return Parser(function_body(src, name), name).all()


# ------------------------------------------------------------------ fields and guards
FIELD_EXPR = {
    "cd -> destructor": "FDestructor",
    "cd -> origobj": "FOrigobj",
    "( ( CDataObject_own_structptr * ) cd ) -> structobj": "FStructobj",
    "( ( CDataObject_frombuf * ) cd ) -> bufferview -> obj": "FViewObj",
    "( PyObject * ) ( ( ( CDataObject_closure * ) cd ) -> closure -> user_data )": "FClosureArgs",
}
GUARDS = {
    "cd -> c_type -> ct_flags & CT_IS_VOID_PTR": "GHandle",
    "cd -> c_type -> ct_flags & CT_FUNCTIONPTR": "GCallback",
}
DECL = re.compile(r"^(?:PyObject|Py_buffer|ffi_closure|CDataObject_own_structptr) \* (\w+) = (.+)$")


def _subst(expr, env):
    toks = expr.split(" ")
    out = []
    for k, t in enumerate(toks):
        if t in env and (k == 0 or toks[k - 1] != "->"):
            v = env[t]
            simple = re.fullmatch(r"\w+", v) is not None
            nxt = toks[k + 1] if k + 1 < len(toks) else None
            out.append(v if (simple or (nxt is None and k == 0)) else ("( %s )" % v if nxt != "->" else v))
        else:
            out.append(t)
    return " ".join(out)


def field_of(expr, env, where):
    e = _subst(expr, env)
    # a local holding "(T *)cd->f" used as "local->g": the cast binds looser than '->' only with the parentheses
    for cand in (e, re.sub(r"^\( (.+) \)$", r"\1", e)):
        if cand in FIELD_EXPR:
            return FIELD_EXPR[cand]
    _fail("%s: cannot tell which field %r (= %r) is" % (where, expr, e))


def traverse_rows(src, fname):
    """[(guard, [fields])] — only declarations, Py_VISIT, the two ctype tests and a final `return 0`"""
    body = stmts_of(src, fname)
    if not body or body[-1] != ("return", "0"):
        _fail("%s does not end with return 0" % fname)
    rows = []

    def walk(stmts, guard, env, top):
        fields = []
        for s in stmts:
            if s[0] == "expr":
                m = DECL.match(s[1])
                v = re.fullmatch(r"Py_VISIT \( (.+) \)", s[1])
                if m:
                    rhs = _subst(m.group(2), env)
                    env = dict(env)
                    env[m.group(1)] = rhs
                elif v:
                    fields.append(field_of(v.group(1), env, fname))
                else:
                    _fail("%s: statement outside the subset: %r" % (fname, s[1]))
            elif s[0] == "if" and top and guard == "GAny":
                chain = s
                while chain is not None:
                    if chain[1] not in GUARDS:
                        _fail("%s: visit depends on %r (only the ctype tests are understood)" % (fname, chain[1]))
                    walk(chain[2], GUARDS[chain[1]], env, False)
                    els = chain[3]
                    if els is None:
                        chain = None
                    elif len(els) == 1 and els[0][0] == "if":
                        chain = els[0]
                    else:
                        _fail("%s: unconditional else branch" % fname)
            else:
                _fail("%s: %s statement outside the subset" % (fname, s[0]))
        if fields or not top:
            rows.append((guard, fields))
    walk(body[:-1], "GAny", {}, True)
    return rows


PYTYPES = {"CDataOwning_Type": "POwning", "CDataOwningGC_Type": "POwningGC",
           "CDataFromBuf_Type": "PFromBuf", "CDataGCP_Type": "PGcp"}


def slot_owner(src, cast, fname):
    """the PyTypeObject whose initializer mentions `(cast)fname`"""
    owners = []
    for m in re.finditer(r"^static PyTypeObject (\w+) = \{(.*?)^\};", src, re.M | re.S):
        if re.search(r"\(%s\)\s*%s\s*," % (cast, fname), m.group(2)):
            owners.append(m.group(1))
    if len(owners) != 1 or owners[0] not in PYTYPES:
        _fail("(%s)%s is the slot of %r" % (cast, fname, owners))
    return PYTYPES[owners[0]]


def gen_traverse(src):
    rows = []
    for fname in ("cdataowninggc_traverse", "cdatafrombuf_traverse", "cdatagcp_traverse"):
        p = slot_owner(src, "traverseproc", fname)
        for g, fs in traverse_rows(src, fname):
            rows.append((p, g, fs))
    # every GC type must have been seen; CDataOwning_Type must not be a GC type with a traverse slot
    if sorted(set(r[0] for r in rows)) != ["PFromBuf", "PGcp", "POwningGC"]:
        _fail("traverse functions found for %r" % sorted(set(r[0] for r in rows)))
    return rows


def structptr_owns(src):
    newp = " ".join(function_body(src, "direct_newp"))
    store = "( ( CDataObject_own_structptr * ) cd ) -> structobj = ( PyObject * ) cds ;"
    if newp.count(store) != 1:
        _fail("direct_newp: the store of cds into cd->structobj was not found exactly once")
    after = newp[newp.index(store) + len(store):]
    if re.search(r"Py_(X?DECREF|X?INCREF|CLEAR) \( cds \)", after):
        _fail("direct_newp: reference count of cds changed after it was stored")
    dealloc = stmts_of(src, "cdataowning_dealloc")
    drop = ("if", "cd -> c_type -> ct_flags & CT_IS_PTR_TO_OWNED",
            [("expr", "Py_DECREF ( ( ( CDataObject_own_structptr * ) cd ) -> structobj )")], None)
    if slot_owner(src, "destructor", "cdataowning_dealloc") != "POwning":
        _fail("cdataowning_dealloc is not the tp_dealloc of CDataOwning_Type")
    if not dealloc or dealloc[-1] != ("expr", "cdata_dealloc ( cd )"):
        _fail("cdataowning_dealloc does not end in cdata_dealloc(cd)")
    return drop in dealloc


def finalize_facts(src):
    """cdatagcp_finalize: (cleared fields in order, all clears precede the call of gcp_finalize)"""
    if slot_owner(src, "destructor", "cdatagcp_finalize") != "PGcp":
        _fail("cdatagcp_finalize is not the tp_finalize of CDataGCP_Type")
    body = stmts_of(src, "cdatagcp_finalize")
    env, cleared, call_at = {}, [], None
    for n, s in enumerate(body):
        if s[0] != "expr":
            _fail("cdatagcp_finalize: %s statement outside the subset" % s[0])
        m = DECL.match(s[1])
        c = re.fullmatch(r"(cd -> \w+) = NULL", s[1])
        g = re.fullmatch(r"gcp_finalize \( (\w+) , (\w+) \)", s[1])
        if m:
            if cleared or call_at is not None:
                _fail("cdatagcp_finalize: a field is read after it was cleared / after the call")
            env[m.group(1)] = FIELD_EXPR.get(m.group(2)) or _fail("cdatagcp_finalize: local %r" % s[1])
        elif c:
            cleared.append((FIELD_EXPR.get(c.group(1)) or _fail("cdatagcp_finalize: clears %r" % c.group(1)), n))
        elif g:
            if call_at is not None:
                _fail("cdatagcp_finalize: gcp_finalize called twice")
            if (env.get(g.group(1)), env.get(g.group(2))) != ("FDestructor", "FOrigobj"):
                _fail("cdatagcp_finalize: gcp_finalize is not given (destructor, origobj)")
            call_at = n
        else:
            _fail("cdatagcp_finalize: statement outside the subset: %r" % s[1])
    if call_at is None:
        _fail("cdatagcp_finalize does not call gcp_finalize")
    return [f for f, _ in cleared], all(n < call_at for _, n in cleared)


def gcp_finalize_calls(src):
    body = stmts_of(src, "gcp_finalize")
    call = "PyObject_CallFunctionObjArgs ( destructor , origobj , NULL )"
    total = " ".join(function_body(src, "gcp_finalize")).count("PyObject_Call")
    guarded = 0
    for s in body:
        if s[0] == "if" and s[1] == "destructor != NULL":
            inner_top = [x[1] for x in s[2] if x[0] == "expr"]
            guarded += sum(1 for x in inner_top if x == "result = " + call)
        elif s[0] == "expr" and "PyObject_Call" in s[1]:
            _fail("gcp_finalize: unguarded call")
    if guarded != total:
        _fail("gcp_finalize: %d call sites, %d of the expected guarded form" % (total, guarded))
    if ("expr", "Py_XDECREF ( origobj )") not in body:
        _fail("gcp_finalize does not drop origobj")
    return guarded


def dealloc_finalizes(src):
    if slot_owner(src, "destructor", "cdatagcp_dealloc") != "PGcp":
        _fail("cdatagcp_dealloc is not the tp_dealloc of CDataGCP_Type")
    body = stmts_of(src, "cdatagcp_dealloc")
    env, calls = {}, 0
    for s in body:
        if s[0] != "expr":
            _fail("cdatagcp_dealloc: %s statement outside the subset" % s[0])
        m = DECL.match(s[1])
        g = re.fullmatch(r"gcp_finalize \( (\w+) , (\w+) \)", s[1])
        if m:
            env[m.group(1)] = FIELD_EXPR.get(m.group(2)) or _fail("cdatagcp_dealloc: local %r" % s[1])
        elif g:
            if (env.get(g.group(1)), env.get(g.group(2))) != ("FDestructor", "FOrigobj"):
                _fail("cdatagcp_dealloc: gcp_finalize is not given (destructor, origobj)")
            calls += 1
        elif s[1] not in ("PyObject_GC_UnTrack ( cd )", "cdata_dealloc ( ( CDataObject * ) cd )"):
            _fail("cdatagcp_dealloc: statement outside the subset: %r" % s[1])
    if calls > 1:
        _fail("cdatagcp_dealloc calls gcp_finalize %d times" % calls)
    return calls == 1


def gcnone_clears(src):
    body = stmts_of(src, "b_gcp")
    hits = [s for s in body if s[0] == "if" and s[1] == "destructor == Py_None"]
    if len(hits) != 1 or hits[0][3] is not None:
        _fail("b_gcp: the `destructor == Py_None` branch")
    inner = hits[0][2]
    if not inner or inner[0][0] != "if" or inner[0][1] != "! PyObject_TypeCheck ( origobj , & CDataGCP_Type )":
        _fail("b_gcp: gc(x, None) does not start with the CDataGCP_Type check")
    chk = inner[0][2]
    if (len(chk) != 2 or chk[0][0] != "expr" or not chk[0][1].startswith("PyErr_SetString ( PyExc_TypeError ,")
            or chk[1] != ("return", "NULL") or inner[0][3] is not None):
        _fail("b_gcp: the failed type check does not raise TypeError")
    fields = []
    for s in inner[1:-1]:
        m = s[0] == "expr" and re.fullmatch(r"Py_CLEAR \( \( \( CDataObject_gcp \* \) origobj \) -> (\w+) \)", s[1])
        if not m:
            _fail("b_gcp: statement outside the subset in the None branch: %r" % (s,))
        fields.append({"destructor": "FDestructor", "origobj": "FOrigobj"}.get(m.group(1))
                      or _fail("b_gcp clears %r" % m.group(1)))
    if inner[-1] != ("expr", "Py_RETURN_NONE"):
        _fail("b_gcp: the None branch does not end with Py_RETURN_NONE")
    return fields


def release_case(src):
    body = stmts_of(src, "explicit_release_case")
    if not body or body[0] != ("expr", "CTypeDescrObject * ct = ( ( CDataObject * ) cd ) -> c_type"):
        _fail("explicit_release_case: first statement")
    if len(body) != 4 or body[1][0] != "if":
        _fail("explicit_release_case: expected declaration, if-chain, PyErr_SetString, return -1")
    if not (body[2][0] == "expr" and body[2][1].startswith("PyErr_SetString ( PyExc_ValueError ,")):
        _fail("explicit_release_case: the fall-through does not raise ValueError")
    if body[3] != ("return", "- 1"):
        _fail("explicit_release_case: the fall-through does not return -1")
    rows, chain = [], body[1]
    while chain is not None:
        m = re.fullmatch(r"Py_TYPE \( cd \) == & (\w+)", chain[1])
        if not m or m.group(1) not in PYTYPES:
            _fail("explicit_release_case: condition %r" % chain[1])
        p = PYTYPES[m.group(1)]
        then = chain[2]
        if len(then) == 1 and then[0][0] == "return" and then[0][1].isdigit():
            rows.append((p, "GAny", int(then[0][1])))
        elif (len(then) == 1 and then[0][0] == "if" and then[0][3] is None
              and then[0][1] == "( ct -> ct_flags & ( CT_POINTER | CT_ARRAY ) ) != 0"
              and len(then[0][2]) == 1 and then[0][2][0][0] == "return" and then[0][2][0][1].isdigit()):
            rows.append((p, "GPtrOrArray", int(then[0][2][0][1])))
        else:
            _fail("explicit_release_case: branch of %s outside the subset" % m.group(1))
        els = chain[3]
        if els is None:
            chain = None
        elif len(els) == 1 and els[0][0] == "if":
            chain = els[0]
        else:
            _fail("explicit_release_case: unconditional else")
    if len(set(r[0] for r in rows)) != len(rows):
        _fail("explicit_release_case: a type is tested twice")
    return rows


EXIT_SHAPES = {
    (): "XNothing",
    (("expr", "ct = ( ( CDataObject * ) cd ) -> c_type"),
     ("if", "ct -> ct_flags & CT_IS_PTR_TO_OWNED",
      (("expr", "PyObject * x = ( ( CDataObject_own_structptr * ) cd ) -> structobj"),
       ("if", "Py_TYPE ( x ) == & CDataGCP_Type",
        (("expr", "cdatagcp_finalize ( ( CDataObject_gcp * ) x )"),), None)), None)): "XFinalizeStructobjIfGcp",
    (("expr", "view = ( ( CDataObject_frombuf * ) cd ) -> bufferview"),
     ("expr", "PyBuffer_Release ( view )")): "XBufferRelease",
    (("expr", "cdatagcp_finalize ( ( CDataObject_gcp * ) cd )"),): "XFinalizeSelf",
}


def _freeze(stmts):
    out = []
    for s in stmts:
        if s[0] == "if":
            out.append(("if", s[1], _freeze(s[2]), None if s[3] is None else _freeze(s[3])))
        else:
            out.append(tuple(s))
    return tuple(out)


def exit_table(src):
    body = stmts_of(src, "cdata_exit")
    sw = [s for s in body if s[0] == "switch"]
    if len(sw) != 1 or sw[0][1] != "explicit_release_case ( cd )":
        _fail("cdata_exit: the switch over explicit_release_case(cd)")
    k = body.index(sw[0])
    for s in body[:k]:
        if s not in (("expr", "CTypeDescrObject * ct"), ("expr", "Py_buffer * view")):
            _fail("cdata_exit: statement before the switch: %r" % (s,))
    if body[k + 1:] != [("expr", "Py_INCREF ( Py_None )"), ("return", "Py_None")]:
        _fail("cdata_exit: statements after the switch")
    table = []
    for label, stmts in sw[0][2]:
        if label == "default":
            if stmts != [("return", "NULL")]:
                _fail("cdata_exit: default case")
            continue
        if not label.isdigit() or not stmts or stmts[-1] != ("break",):
            _fail("cdata_exit: case %s falls through" % label)
        shape = _freeze(stmts[:-1])
        if shape not in EXIT_SHAPES:
            _fail("cdata_exit: body of case %s is not one of the known actions" % label)
        table.append((int(label), EXIT_SHAPES[shape]))
    if "default" not in [c[0] for c in sw[0][2]]:
        _fail("cdata_exit: no default case")
    # ffi.release(x) and with x: are both cdata_exit
    rel = stmts_of(src, "b_release")
    want = [("if", "! CData_Check ( arg )", None, None), ("return", "cdata_exit ( arg , NULL )")]
    if (len(rel) != 2 or rel[0][0] != "if" or rel[0][1] != want[0][1] or rel[1] != want[1]
            or not rel[0][2][0][1].startswith("PyErr_SetString ( PyExc_TypeError ,") or rel[0][2][-1] != ("return", "NULL")):
        _fail("b_release is not `TypeError unless cdata; return cdata_exit(arg)`")
    flat = re.sub(r"\s+", " ", strip(src))
    if '{"__exit__", cdata_exit,' not in flat or '{"__enter__", cdata_enter,' not in flat:
        _fail("__enter__/__exit__ are not cdata_enter/cdata_exit")
    enter = stmts_of(src, "cdata_enter")
    if not enter or enter[0] != ("if", "explicit_release_case ( cd ) < 0", [("return", "NULL")], None):
        _fail("cdata_enter does not start with the explicit_release_case check")
    return table


def coq_list(items):
    return "[" + "; ".join(items) + "]"


def translate(src):
    rows = gen_traverse(src)
    owns = structptr_owns(src)
    cleared, first = finalize_facts(src)
    ncalls = gcp_finalize_calls(src)
    dfin = dealloc_finalizes(src)
    gcn = gcnone_clears(src)
    rc = release_case(src)
    et = exit_table(src)
    b = lambda x: "true" if x else "false"
    return """
(* ---- GC edges, finalize order, release table (tools/props/c21_regen.py) *)
Inductive pytype := POwning | POwningGC | PFromBuf | PGcp.
Inductive ctguard := GAny | GPtrOrArray | GHandle | GCallback.
Inductive gfield := FStructobj | FClosureArgs | FViewObj | FDestructor | FOrigobj.
Inductive exit_action := XNothing | XFinalizeStructobjIfGcp | XBufferRelease | XFinalizeSelf.

(* tp_traverse: (Python type, ctype test guarding the visits, fields given to Py_VISIT in order) from
   cdataowninggc_traverse, cdatafrombuf_traverse, cdatagcp_traverse and the tp_traverse slots *)
Definition gen_traverse : list (pytype * ctguard * list gfield) :=
  %s.

(* direct_newp stores the only reference to the struct object into the pointer object, and
   cdataowning_dealloc drops it under CT_IS_PTR_TO_OWNED (CDataOwning_Type is not a GC type) *)
Definition gen_structptr_owns : bool := %s.

(* cdatagcp_finalize: fields set to NULL; all of them before gcp_finalize(destructor, origobj) is called *)
Definition gen_finalize_cleared : list gfield := %s.
Definition gen_finalize_clears_first : bool := %s.
(* gcp_finalize: call sites of the destructor, all under `if (destructor != NULL)` *)
Definition gen_gcp_finalize_calls : nat := %d.
(* cdatagcp_dealloc passes the current fields to gcp_finalize *)
Definition gen_dealloc_finalizes : bool := %s.
(* b_gcp, destructor == None: TypeError unless CDataGCP_Type, then Py_CLEAR of these fields *)
Definition gen_gcnone_clears : list gfield := %s.

(* explicit_release_case: (Python type, ctype guard, case); anything else: ValueError *)
Definition gen_release_case : list (pytype * ctguard * nat) :=
  %s.
(* cdata_exit (= ffi.release and with-exit): case -> action *)
Definition gen_exit_table : list (nat * exit_action) :=
  %s.
""" % (coq_list("(%s, %s, %s)" % (p, g, coq_list(fs)) for p, g, fs in rows), b(owns),
       coq_list(cleared), b(first), ncalls, b(dfin), coq_list(gcn),
       coq_list("(%s, %s, %d)" % r for r in rc), coq_list("(%d, %s)" % e for e in et))
