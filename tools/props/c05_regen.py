"""C05 translator: anchored, fail-closed extraction of the float paths of src/c/_cffi_backend.c into
coq/C05/Gen.v (vocabulary: coq/C05/IR.v; executed by coq/C05/Interp.v; proved equal to the hand model in
coq/C05/GenProofs.v):

  * the macro bodies _write_raw_data / _write_raw_complex_data / _read_raw_data as statement lists;
  * which C types read_raw_float_data / read_raw_longdouble_data / write_raw_float_data /
    write_raw_longdouble_data / write_raw_complex_data instantiate them with, in order, their return /
    `source` types, and the two blocks of read_raw_complex_data;
  * check_bytes_for_float_compatible: order of the type tests and the return codes;
  * the CT_PRIMITIVE_FLOAT and CT_PRIMITIVE_COMPLEX branches of convert_from_object and of do_cast as
    guarded statement lists (position of the long-double guard, type of its local, conversion functions,
    error tests, the cast applied before write_raw_longdouble_data).

Every statement must match one of the recorded shapes; anything else raises TranslateError and the
caller reports a broken obligation (the committed Gen.v is left in place so that the rest of the check
can still run, but the run cannot pass)."""
import os
import re


class TranslateError(Exception):
    pass


_CFTY = {"float": "CFloat", "double": "CDouble", "long double": "CLongDouble"}
_FT = r"(float|double|long double)"


def _ws(s):
    return " ".join(s.split())


def _strip_comments(t):
    t = re.sub(r"/\*.*?\*/", " ", t, flags=re.S)
    return re.sub(r"//[^\n]*", " ", t)


def _macro(text, name):
    m = re.search(r"^#define[ \t]+%s\b((?:.*\\\n)*.*)$" % re.escape(name), text, re.M)
    if not m:
        raise TranslateError("macro %s not found" % name)
    return _ws(m.group(1).replace("\\\n", " "))


def _match_brace(t, i):
    depth = 0
    for j in range(i, len(t)):
        if t[j] == "{":
            depth += 1
        elif t[j] == "}":
            depth -= 1
            if depth == 0:
                return j + 1
    raise TranslateError("unbalanced braces")


def _func(text, ret_regex, header):
    """-> (return type, body) of `static RET\\nheader\\n{ ... }`"""
    m = re.search(r"^static %s\n%s\n\{\n(.*?)^\}" % (ret_regex, header), text, re.M | re.S)
    if not m:
        raise TranslateError("function not found: %s" % header)
    g = m.groups()
    return (g[0] if len(g) > 1 else None), _ws(_strip_comments(g[-1]))


# ------------------------------------------------------------------ raw-data macros

def _write_macro(text, name):
    body = _macro(text, name)
    m = re.match(r"^\(type\) do \{ if \(size == (?:(\d+)\*)?sizeof\(type\)\) \{ (.*) \} \} while\(0\)$", body)
    if not m:
        raise TranslateError("%s does not have the recorded shape: %r" % (name, body[:300]))
    mult = int(m.group(1) or 1)
    t, out = m.group(2).strip(), []
    while t:
        mm = re.match(r"^type (\w+) = \(type\)source(?:\.(real|imag))?; ?", t)
        if mm:
            sel = {None: "SrcWhole", "real": "SrcReal", "imag": "SrcImag"}[mm.group(2)]
            out.append('WDecl "%s" %s' % (mm.group(1), sel))
            t = t[mm.end():]
            continue
        mm = re.match(r"^_cffi_memcpy\(target(\+sizeof\(type\))?, &(\w+), sizeof\(type\)\); ?", t)
        if mm:
            out.append('WCopy %s "%s"' % ("OffSizeof" if mm.group(1) else "OffZero", mm.group(2)))
            t = t[mm.end():]
            continue
        mm = re.match(r"^return; ?", t)
        if mm:
            out.append("WReturn")
            t = t[mm.end():]
            continue
        raise TranslateError("%s: unknown statement at %r" % (name, t[:80]))
    return "mk_wmacro %d [%s]" % (mult, "; ".join(out))


def _read_macro(text):
    body = _macro(text, "_read_raw_data")
    m = re.match(r"^\(type\) do \{ if \(size == sizeof\(type\)\) \{ (.*) \} \} while\(0\)$", body)
    if not m:
        raise TranslateError("_read_raw_data does not have the recorded shape: %r" % body[:300])
    t, out, declared = m.group(1).strip(), [], set()
    while t:
        mm = re.match(r"^type (\w+); ?", t)
        if mm:
            declared.add(mm.group(1))
            t = t[mm.end():]
            continue
        mm = re.match(r"^memcpy\(&(\w+), target, sizeof\(type\)\); ?", t)
        if mm and mm.group(1) in declared:
            out.append('RCopyIn "%s" OffZero' % mm.group(1))
            t = t[mm.end():]
            continue
        mm = re.match(r"^return (\w+); ?", t)
        if mm and mm.group(1) in declared:
            out.append('RReturn "%s"' % mm.group(1))
            t = t[mm.end():]
            continue
        raise TranslateError("_read_raw_data: unknown statement at %r" % t[:80])
    return "[%s]" % "; ".join(out)


def _insts(body, macro, prologue, trailer):
    """body = PROLOGUE macro(T1); macro(T2); ... TRAILER  -> [T1; T2; ...]"""
    m = re.match(r"^%s((?:%s\(%s\); ?)+)%s$" % (prologue, re.escape(macro), _FT, trailer), body)
    if not m:
        raise TranslateError("instantiations of %s: %r" % (macro, body[:200]))
    tys = re.findall(r"%s\(%s\);" % (re.escape(macro), _FT), m.group(1))
    return "[%s]" % "; ".join(_CFTY[t] for t in tys)


def _read_complex(text):
    ret, body = _func(text, r"(Py_complex)", r"read_raw_complex_data\(char \*target, int size\)")
    m = re.match(r"^Py_complex r = \{0\.0, 0\.0\}; (.*) Py_FatalError\(\"[^\"]*\"\); return r;$", body)
    if not m:
        raise TranslateError("read_raw_complex_data prologue/epilogue: %r" % body[:200])
    t, blocks = m.group(1).strip(), []
    while t:
        mm = re.match(r"^if \(size == 2\*sizeof\(%s\)\) \{" % _FT, t)
        if not mm:
            raise TranslateError("read_raw_complex_data: %r" % t[:80])
        ty = mm.group(1)
        e = _match_brace(t, mm.end() - 1)
        b, stmts, declared = t[mm.end():e - 1].strip(), [], set()
        t = t[e:].strip()
        while b:
            m2 = re.match(r"^%s (\w+), (\w+); ?" % re.escape(ty), b)
            if m2:
                declared |= {m2.group(1), m2.group(2)}
                b = b[m2.end():]
                continue
            m2 = re.match(r"^memcpy\(&(\w+), target(?: \+ (0|sizeof\(%s\)))?, sizeof\(%s\)\); ?"
                          % (re.escape(ty), re.escape(ty)), b)
            if m2 and m2.group(1) in declared:
                stmts.append('RCopyIn "%s" %s' % (m2.group(1), "OffZero" if m2.group(2) in (None, "0") else "OffSizeof"))
                b = b[m2.end():]
                continue
            m2 = re.match(r"^r\.(real|imag) = (\w+); ?", b)
            if m2 and m2.group(2) in declared:
                stmts.append('RSetField %s "%s"' % ("SrcReal" if m2.group(1) == "real" else "SrcImag", m2.group(2)))
                b = b[m2.end():]
                continue
            m2 = re.match(r"^memcpy\(&r, target, 2\*sizeof\(%s\)\); ?" % re.escape(ty), b)
            if m2:
                stmts.append("RCopyWhole")
                b = b[m2.end():]
                continue
            m2 = re.match(r"^return r; ?", b)
            if m2:
                stmts.append('RReturn "r"')
                b = b[m2.end():]
                continue
            raise TranslateError("read_raw_complex_data block %s: unknown statement at %r" % (ty, b[:80]))
        blocks.append("mk_rblock %s 2 [%s]" % (_CFTY[ty], "; ".join(stmts)))
    return blocks


# ------------------------------------------------------------------ check_bytes_for_float_compatible

def _check_bytes(text):
    m = re.search(r"^static int check_bytes_for_float_compatible\(PyObject \*io, double \*out_value\)\n\{\n(.*?)^\}",
                  text, re.M | re.S)
    if not m:
        raise TranslateError("check_bytes_for_float_compatible not found")
    b = _ws(_strip_comments(m.group(1)))
    shapes = {
        "CBBytes": r"if \(PyBytes_Check\(io\)\) \{ if \(PyBytes_GET_SIZE\(io\) != 1\) goto error; "
                   r"\*out_value = \(unsigned char\)PyBytes_AS_STRING\(io\)\[0\]; return (-?\d+); \}",
        "CBUnicode": r"if \(PyUnicode_Check\(io\)\) \{ char ignored\[80\]; cffi_char32_t ordinal; "
                     r"if \(_my_PyUnicode_AsSingleChar32\(io, &ordinal, ignored\) < 0\) goto error; "
                     r"\*out_value = ordinal; return (-?\d+); \}",
    }
    order, rets, t = [], {}, b
    first = True
    while True:
        hit = None
        for name, rx in shapes.items():
            mm = re.match(("^" if first else "^else ") + rx + " ?", t)
            if mm and name not in rets:
                hit = (name, mm)
                break
        if not hit:
            break
        order.append(hit[0])
        rets[hit[0]] = int(hit[1].group(1))
        t = t[hit[1].end():]
        first = False
    if len(order) != 2:
        raise TranslateError("check_bytes_for_float_compatible: type tests: %r" % t[:120])
    mm = re.match(r"^\*out_value = 0; return (-?\d+); error: Py_DECREF\(io\); \*out_value = 0; return (-?\d+);$", t)
    if not mm:
        raise TranslateError("check_bytes_for_float_compatible: epilogue: %r" % t[:160])
    return order, rets, int(mm.group(1)), int(mm.group(2))


# ------------------------------------------------------------------ convert_from_object / do_cast branches

_LD_GUARD = (r"if \(\(ct->ct_flags & CT_IS_LONGDOUBLE\) && CData_Check\(%(x)s\) && "
             r"\(\(\(CDataObject \*\)%(x)s\)->c_type->ct_flags & CT_IS_LONGDOUBLE\)\) \{ "
             r"%(ft)s lvalue; char \*(\w+) = \(\(CDataObject \*\)%(x)s\)->c_data; "
             r"lvalue = read_raw_longdouble_data\(\2\); ")
_SOURCE = (r"if \(CData_Check\(ob\)\) \{ CDataObject \*cdsrc = \(CDataObject \*\)ob; "
           r"if \(!\(cdsrc->c_type->ct_flags & CT_PRIMITIVE_ANY\)\) goto cannot_cast; "
           r"io = convert_to_object\(cdsrc->c_data, cdsrc->c_type\); if \(io == NULL\) return NULL; \} "
           r"else \{ io = ob; Py_INCREF\(io\); \} ?")


def _g(guard, s):
    return "(%s, %s)" % (guard, s)


def _stmts(t, where, guard="GAlways"):
    """where = 'store' (convert_from_object: x = init, dst = data, error return -1) or
    'cast' (do_cast: x = io, dst = cd->c_data, error return NULL)"""
    x, dst, err = ("init", "data", "-1") if where == "store" else ("io", r"cd->c_data", "NULL")
    t, out = t.strip(), []
    while t:
        # local declarations (types fixed: a different type is a different program)
        m = re.match(r"^(?:double value|Py_complex value|PyObject \*io|int res); ?", t)
        if m:
            t = t[m.end():]
            continue
        m = re.match(r"^Py_DECREF\(io\); ?", t) if where == "cast" else None
        if m:                                   # reference counting is not modelled
            t = t[m.end():]
            continue
        if where == "cast":
            m = re.match("^" + _SOURCE, t)
            if m:
                out.append(_g(guard, "SSource"))
                t = t[m.end():]
                continue
            m = re.match(r"^res = check_bytes_for_float_compatible\(io, &value(\.real)?\); ?", t)
            if m:
                out.append(_g(guard, "SCheckBytes %s" % ("SrcReal" if m.group(1) else "SrcWhole")))
                t = t[m.end():]
                continue
            m = re.match(r"^if \(res == (-?\d+)\) goto cannot_cast; ?", t)
            if m:
                out.append(_g(guard, "SCannotCastIf (%s)" % m.group(1)))
                t = t[m.end():]
                continue
            m = re.match(r"^if \(res == (-?\d+)\) \{", t)
            if m and guard == "GAlways":
                e = _match_brace(t, m.end() - 1)
                out += _stmts(t[m.end():e - 1], where, "GResEq (%s)" % m.group(1))
                t = t[e:].strip()
                m2 = re.match(r"^else \{", t)
                if m2:
                    e = _match_brace(t, m2.end() - 1)
                    out += _stmts(t[m2.end():e - 1], where, "GResNe (%s)" % m.group(1))
                    t = t[e:].strip()
                continue
            m = re.match(r"^value\.imag = 0\.0; ?", t)
            if m:
                out.append(_g(guard, "SSetImagZero"))
                t = t[m.end():]
                continue
            m = re.match(r"^cd = _new_casted_primitive\(ct\); ?", t)
            if m:
                out.append(_g(guard, "SAlloc"))
                t = t[m.end():]
                continue
        # the long double -> long double special case
        m = re.match("^" + _LD_GUARD % dict(x=x, ft=_FT), t)
        if m:
            rest = t[m.end():]
            tail = (r"^write_raw_longdouble_data\(data, lvalue\); return 0; \} ?" if where == "store" else
                    r"^Py_DECREF\(io\); cd = _new_casted_primitive\(ct\); if \(cd != NULL\) "
                    r"write_raw_longdouble_data\(cd->c_data, lvalue\); return \(PyObject \*\)cd; \} ?")
            m2 = re.match(tail, rest)
            if not m2:
                raise TranslateError("%s: long double block: %r" % (where, rest[:160]))
            out.append(_g(guard, "SLongDoubleCopy %s" % _CFTY[m.group(1)]))
            t = rest[m2.end():]
            continue
        m = re.match(r"^(?:Py_complex )?value = (PyFloat_AsDouble|PyComplex_AsCComplex)\(%s\); ?" % x, t)
        if m:
            out.append(_g(guard, "SConv %s" % ("ConvFloat" if m.group(1) == "PyFloat_AsDouble" else "ConvComplex")))
            t = t[m.end():]
            continue
        m = re.match(r"^if \(value == -1\.0 && PyErr_Occurred\(\)\) return %s; ?" % err, t)
        if m:
            out.append(_g(guard, "SErrCheck ErrMinus1AndOccurred"))
            t = t[m.end():]
            continue
        m = re.match(r"^if \(PyErr_Occurred\(\)\) (?:\{ )?return %s;(?: \})? ?" % err, t)
        if m:
            out.append(_g(guard, "SErrCheck ErrOccurred"))
            t = t[m.end():]
            continue
        wf = (r"if \(!\(ct->ct_flags & CT_IS_LONGDOUBLE\)\) write_raw_float_data\(%s, value, ct->ct_size\); "
              r"else write_raw_longdouble_data\(%s, \(%s\)value\);" % (dst, dst, _FT))
        m = re.match((r"^%s ?" % wf) if where == "store" else (r"^if \(cd != NULL\) \{ %s \} ?" % wf), t)
        if m:
            out.append(_g(guard, "SWriteFloat %s" % _CFTY[m.group(1)]))
            t = t[m.end():]
            continue
        wc = r"write_raw_complex_data\(%s, value, ct->ct_size\);" % dst
        m = re.match((r"^%s ?" % wc) if where == "store" else (r"^if \(cd != NULL\) \{ %s \} ?" % wc), t)
        if m:
            out.append(_g(guard, "SWriteComplex"))
            t = t[m.end():]
            continue
        m = re.match(r"^return 0; ?" if where == "store" else r"^return \(PyObject \*\)cd; ?", t)
        if m:
            out.append(_g(guard, "SReturn"))
            t = t[m.end():]
            continue
        raise TranslateError("%s branch: unknown statement at %r" % (where, t[:100]))
    return out


def _branch(body, opener, what):
    hits = [m for m in re.finditer(opener, body)]
    if len(hits) != 1:
        raise TranslateError("%s: expected exactly one branch, found %d" % (what, len(hits)))
    m = hits[0]
    e = _match_brace(body, m.end() - 1)
    return body[m.end():e - 1]


def _programs(text):
    m = re.search(r"^convert_from_object\(char \*data, CTypeDescrObject \*ct, PyObject \*init\)\n\{\n(.*?)^\}",
                  text, re.M | re.S)
    if not m:
        raise TranslateError("convert_from_object not found")
    cfo = _ws(_strip_comments(m.group(1)))
    m = re.search(r"^static PyObject \*do_cast\(CTypeDescrObject \*ct, PyObject \*ob\)\n\{\n(.*?)^\}", text, re.M | re.S)
    if not m:
        raise TranslateError("do_cast not found")
    dc = _ws(_strip_comments(m.group(1)))
    if not re.search(r"cannot_cast: if \(CData_Check\(ob\)\) PyErr_Format\(PyExc_TypeError, \"cannot cast ctype [^;]*; "
                     r"else PyErr_Format\(PyExc_TypeError, \"cannot cast [^;]*; return NULL;$", dc):
        raise TranslateError("do_cast: label cannot_cast does not raise TypeError")
    # the float branch must come before the complex branch test is reached only through else-if
    sf = _stmts(_branch(cfo, r"(?<!else )if \(ct->ct_flags & CT_PRIMITIVE_FLOAT\) \{", "convert_from_object float"), "store")
    sc = _stmts(_branch(cfo, r"(?<!else )if \(ct->ct_flags & CT_PRIMITIVE_COMPLEX\) \{", "convert_from_object complex"), "store")
    cf = _stmts(_branch(dc, r"else if \(ct->ct_flags & CT_PRIMITIVE_FLOAT\) \{", "do_cast float"), "cast")
    cc = _stmts(_branch(dc, r"else if \(ct->ct_flags & CT_PRIMITIVE_COMPLEX\) \{", "do_cast complex"), "cast")
    return sf, sc, cf, cc


def _prog(name, comment, stmts):
    return ["(* %s *)" % comment,
            "Definition %s : list (guard * fstmt) :=" % name,
            "  [" + ";\n   ".join(stmts) + "]."]


def translate(repo):
    text = open(os.path.join(repo, "src", "c", "_cffi_backend.c")).read()
    wmac = _write_macro(text, "_write_raw_data")
    wcmac = _write_macro(text, "_write_raw_complex_data")
    rmac = _read_macro(text)
    fatal = r"Py_FatalError\(\"[^\"]*\"\);"
    rret, rbody = _func(text, _FT, r"read_raw_float_data\(char \*target, int size\)")
    rinsts = _insts(rbody, "_read_raw_data", "", fatal + " return 0;")
    lret, lbody = _func(text, _FT, r"read_raw_longdouble_data\(char \*target\)")
    linsts = _insts(lbody, "_read_raw_data", r"int size = sizeof\(long double\); ", fatal + " return 0;")
    m = re.search(r"^static void\nwrite_raw_float_data\(char \*target, %s source, int size\)\n\{\n(.*?)^\}" % _FT,
                  text, re.M | re.S)
    if not m:
        raise TranslateError("write_raw_float_data not found")
    wsrc, winsts = m.group(1), _insts(_ws(_strip_comments(m.group(2))), "_write_raw_data", "", fatal)
    m = re.search(r"^static void\nwrite_raw_longdouble_data\(char \*target, %s source\)\n\{\n(.*?)^\}" % _FT,
                  text, re.M | re.S)
    if not m:
        raise TranslateError("write_raw_longdouble_data not found")
    wlsrc = m.group(1)
    wlinsts = _insts(_ws(_strip_comments(m.group(2))), "_write_raw_data", r"int size = sizeof\(long double\); ", "")
    m = re.search(r"^static void\nwrite_raw_complex_data\(char \*target, Py_complex source, int size\)\n\{\n(.*?)^\}",
                  text, re.M | re.S)
    if not m:
        raise TranslateError("write_raw_complex_data not found")
    wcinsts = _insts(_ws(_strip_comments(m.group(1))), "_write_raw_complex_data", "", fatal)
    rcblocks = _read_complex(text)
    order, rets, none_ret, err_ret = _check_bytes(text)
    sf, sc, cf, cc = _programs(text)

    L = ["(* GENERATED by tools/props/c05_regen.py from src/c/_cffi_backend.c.",
         "   Do not edit: regenerated and re-checked on every run of ./check C05. *)",
         "From Coq Require Import ZArith String List.",
         "From Cffi Require Import C05.IR.",
         "Import ListNotations.",
         "Open Scope Z_scope.",
         "Open Scope string_scope.",
         "",
         "(* #define _write_raw_data(type) / _write_raw_complex_data(type): size multiple of the guard, statements *)",
         "Definition write_raw_data_macro : wmacro := %s." % wmac,
         "Definition write_raw_complex_data_macro : wmacro := %s." % wcmac,
         "(* #define _read_raw_data(type) *)",
         "Definition read_raw_data_macro : list rstmt := %s." % rmac,
         "",
         "(* static RET read_raw_float_data(char *target, int size): return type, instantiations in order *)",
         "Definition read_raw_float_ret : cfty := %s." % _CFTY[rret],
         "Definition read_raw_float_insts : list cfty := %s." % rinsts,
         "Definition read_raw_longdouble_ret : cfty := %s." % _CFTY[lret],
         "Definition read_raw_longdouble_insts : list cfty := %s." % linsts,
         "(* write_raw_float_data(char *target, SRC source, int size) / write_raw_longdouble_data(char *target, SRC source) *)",
         "Definition write_raw_float_src : cfty := %s." % _CFTY[wsrc],
         "Definition write_raw_float_insts : list cfty := %s." % winsts,
         "Definition write_raw_longdouble_src : cfty := %s." % _CFTY[wlsrc],
         "Definition write_raw_longdouble_insts : list cfty := %s." % wlinsts,
         "(* write_raw_complex_data(char *target, Py_complex source, int size) *)",
         "Definition write_raw_complex_insts : list cfty := %s." % wcinsts,
         "(* read_raw_complex_data: the `if (size == 2*sizeof(T)) { ... }` blocks, in order *)",
         "Definition read_raw_complex_blocks : list rblock :=",
         "  [" + ";\n   ".join(rcblocks) + "].",
         "",
         "(* check_bytes_for_float_compatible: type tests in order, return codes *)",
         "Definition check_bytes_order : list cb_branch := [%s]." % "; ".join(order),
         "Definition check_bytes_ret_bytes : Z := %d." % rets["CBBytes"],
         "Definition check_bytes_ret_unicode : Z := %d." % rets["CBUnicode"],
         "Definition check_bytes_ret_none : Z := %d." % none_ret,
         "Definition check_bytes_ret_error : Z := (%d)." % err_ret,
         ""]
    L += _prog("store_float_prog", "convert_from_object: the statements of the CT_PRIMITIVE_FLOAT branch, in order", sf)
    L += _prog("store_complex_prog", "... and of the CT_PRIMITIVE_COMPLEX branch", sc)
    L += _prog("cast_float_prog", "do_cast: the CT_PRIMITIVE_FLOAT branch (`if (res == K) {A} else {B}` flattened into guards)", cf)
    L += _prog("cast_complex_prog", "... and the CT_PRIMITIVE_COMPLEX branch", cc)
    return "\n".join(L) + "\n"


def regen(ctx, vlib):
    path = os.path.join(vlib.COQ, "C05", "Gen.v")
    old = open(path).read() if os.path.exists(path) else None
    try:
        new = translate(vlib.REPO)
    except (TranslateError, OSError, KeyError, IndexError) as e:
        ctx.translator("C05/Gen.v", "fallback: %s" % e)
        ctx.obligation_broken("C05: regeneration of C05/Gen.v from src/c/_cffi_backend.c (the float/complex paths no "
                              "longer have the recorded shape, so C05_gen_*_refines say nothing about this source)",
                              str(e))
        snap = path + ".snapshot"
        if os.path.exists(snap) and old != open(snap).read():
            with vlib.CoqLock():
                with open(path, "w") as f:
                    f.write(open(snap).read())
        return False
    if new == old:
        ctx.translator("C05/Gen.v", "unchanged")
    else:
        with vlib.CoqLock():
            with open(path, "w") as f:
                f.write(new)
        ctx.translator("C05/Gen.v", "regenerated")
    return True
