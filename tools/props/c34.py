"""C34 — ffi.include() shares declarations instead of copying them.

Proof side (coq/C34): Part A, the in-line include (Parser.include / _declare / _add_constants): after a successful
include every copied name is bound to the same object identity, constants to the same value, nothing else changes;
exact conflict rule; chains; idempotence.  The table of copied kinds and the skipped prefix are REGENERATED from
src/cffi/cparser.py on every run (coq/C34/Gen.v).  Part B, the three delegating lookups of out-of-line modules
(_fetch_external_struct_or_union, ffi_fetch_int_constant, lib_build_and_cache_attr) are "first answer in
depth-first preorder of the include graph" = found iff a transitive include declares the name; an included
struct resolves to the defining module's own object.  Their guards, cap, recursion increment, passed-down tuple,
miss action and flag masks are REGENERATED from src/c/ffi_obj.c and src/c/lib_obj.c (tools/props/c34_regen.py) as
rows of Gen.v that the model's dfsG reads; the _CFFI_F_EXTERNAL rule of Recompiler._struct_ctx is regenerated too and
`closed` is proved for every world built by FFI.include steps (coq/C34/Proofs3.v).

Tie: regeneration of Gen.v + correspondence: (1) every FFI.include() step executed on real in-line FFIs is replayed
through the model from the observed pre-state (declaration dict with object identities, constants, included set)
and compared with the observed post-state and exception; (2) out-of-line ABI modules importing each other are
generated from random include DAGs; the model world is decoded from the generated files; typeof / integer_const /
lib attribute lookups are compared by identity and value (including a 104-deep chain for the recursion cap);
(3) thorough: compiled API-mode module chains, functions / globals / constants reached through the including lib.
The property predicate (identity `is`, equal values) is evaluated on the implementation itself.
"""
import ast
import os

from lib import vlib
from props import c34_regen
from lib.vlib import cz, clist, cstr, cbool, cnat

ID = "C34"

PRIMS = ["int", "unsigned char", "long long", "double", "char *", "short"]


# ------------------------------------------------------------------ regeneration of Gen.v

def regen(ctx):
    from lib import py2coq
    gen = os.path.join(vlib.COQ, "C34", "Gen.v")
    try:
        tree = py2coq.parse_source(os.path.join(vlib.REPO, "src", "cffi", "cparser.py"))
        fn = py2coq.find_function(tree, "include", cls="Parser")
        kinds, prefix = None, None
        for node in ast.walk(fn):
            # if kind in ('struct', 'union', ...):
            if isinstance(node, ast.Compare) and len(node.ops) == 1 and isinstance(node.ops[0], ast.In) \
                    and isinstance(node.left, ast.Name) and node.left.id == "kind":
                tup = node.comparators[0]
                if kinds is not None or not isinstance(tup, (ast.Tuple, ast.List, ast.Set)):
                    raise py2coq.Untranslatable("unexpected 'kind in' test")
                kinds = [e.value for e in tup.elts]
                if not all(isinstance(k, str) for k in kinds):
                    raise py2coq.Untranslatable("non-string kind")
            # if name.startswith('anonymous $enum_$'): continue
            if isinstance(node, ast.If) and isinstance(node.test, ast.Call) \
                    and isinstance(node.test.func, ast.Attribute) and node.test.func.attr == "startswith":
                if prefix is not None or len(node.body) != 1 or not isinstance(node.body[0], ast.Continue):
                    raise py2coq.Untranslatable("unexpected startswith test")
                prefix = node.test.args[0].value
        if kinds is None or prefix is None:
            raise py2coq.Untranslatable("Parser.include: kind tuple / skipped prefix not found")
        # shape of the function: two for loops, the first calling self._declare(..., included=True, ...), the
        # second self._add_constants; fail closed on anything else
        body = list(fn.body)
        if body and isinstance(body[0], ast.Expr) and isinstance(body[0].value, ast.Constant):
            body = body[1:]                                   # docstring
        # since /repo 889810d: a leading  self._anonymous_counter = max(self._..., other._...)  (numbering of
        # anonymous structs; no effect on the bindings the model talks about)
        if body and isinstance(body[0], ast.Assign) and len(body[0].targets) == 1 \
                and isinstance(body[0].targets[0], ast.Attribute) and body[0].targets[0].attr == "_anonymous_counter":
            body = body[1:]
        loops = [n for n in body if isinstance(n, ast.For)]
        calls = [n.func.attr for n in ast.walk(fn) if isinstance(n, ast.Call) and isinstance(n.func, ast.Attribute)]
        if len(loops) != 2 or len(body) != 2 or sorted(calls) != sorted(
                ["items", "startswith", "split", "_declare", "items", "_add_constants"]):
            raise py2coq.Untranslatable("Parser.include has a different shape: %r" % calls)
        text = ("(* GENERATED by tools/props/c34.py regen() — do not edit.\n"
                "   Part A, from src/cffi/cparser.py (Parser.include): the kinds of declarations Parser.include copies,\n"
                "   and the name prefix it skips. *)\n"
                "From Coq Require Import NArith List.\nImport ListNotations.\n"
                "Definition include_kinds : list (list N) :=\n  [ %s ].\n"
                "Definition include_skip_prefix : list N := %s.\n"
                % ("; ".join(py2coq.strlit(k) for k in kinds), py2coq.strlit(prefix)))
        # Part B: the three delegating searches (ffi_obj.c, lib_obj.c) and the _CFFI_F_EXTERNAL rule (recompiler.py)
        text += c34_regen.render_part_b(vlib.REPO)
        old = open(gen).read() if os.path.exists(gen) else None
        if old != text:
            with vlib.CoqLock():
                with open(gen, "w") as f:
                    f.write(text)
            ctx.translator("C34/Gen.v", "regenerated")
        else:
            ctx.translator("C34/Gen.v", "unchanged")
    except (py2coq.Untranslatable, c34_regen.RegenError, OSError, AttributeError, IndexError, SyntaxError) as e:
        # fail closed: the committed snapshot stays, and the run reports a broken obligation
        ctx.translator("C34/Gen.v", "fallback: %s" % e)
        ctx.obligation_broken("C34: regeneration of C34/Gen.v (Parser.include / _fetch_external_struct_or_union / "
                              "ffi_fetch_int_constant / lib_build_and_cache_attr / Recompiler._struct_ctx no longer "
                              "have the recorded shape)", str(e))


# ------------------------------------------------------------------ generators

def gen_module(rng, k, tag, visible, rich=True):
    """declarations of module k; `visible` = list of (kind, typestring, origin) it may use.
    returns dict(cdef, types, consts, structs, funcs, uses)"""
    lines, types, consts, structs, funcs, uses = [], [], [], [], [], []
    n = rng.choice([1, 2, 3, 4]) if rich else 1
    cnt = [0]

    def nm(prefix):
        cnt[0] += 1
        return "%s%s_%d_%d" % (prefix, tag, k, cnt[0])

    for _ in range(n):
        what = rng.choice(["typedef", "struct", "struct", "structtd", "union", "enum", "enumtd", "define",
                           "opaque", "func", "anonenum"])
        if what == "typedef":
            t = nm("t")
            lines.append("typedef %s %s;" % (rng.choice(PRIMS), t))
            types.append(("typedef", t))
        elif what in ("struct", "structtd", "union"):
            s = nm("s" if what != "union" else "u")
            kw = "union" if what == "union" else "struct"
            fields = ["int x;"]
            for fi in range(rng.choice([0, 1, 2, 3])):
                if visible:
                    kind, ts, origin = rng.choice(visible)
                    if kind == "opaque":
                        ts2, ptr = ts, " *"
                    else:
                        ptr = rng.choice(["", " *"])
                    fname = "f%d" % fi
                    fields.append("%s%s %s;" % (ts, ptr, fname))
                    if not ptr:
                        uses.append(dict(ffi=k, struct="%s %s" % (kw, s), field=fname, type=ts, origin=origin, kind=kind))
            lines.append("%s %s { %s };" % (kw, s, " ".join(fields)))
            types.append((kw, "%s %s" % (kw, s)))
            structs.append((s, kw == "union"))
            if what == "structtd":
                t = nm("st")
                lines.append("typedef struct %s %s;" % (s, t))
                types.append(("typedef", t))
        elif what == "enum":
            e = nm("e")
            v = rng.choice([0, 1, 7, -3, 2 ** 31 - 1, 2 ** 32 + 5])
            a, b = "EA_" + e, "EB_" + e
            lines.append("enum %s { %s, %s = %d };" % (e, a, b, v))
            types.append(("enum", "enum " + e))
            consts += [(a, 0), (b, v)]
        elif what == "enumtd":
            t = nm("x")
            a = "XA_" + t
            v = rng.randrange(-5, 100)
            lines.append("typedef enum { %s = %d } %s;" % (a, v, t))
            types.append(("enumtypedef", t))
            consts.append((a, v))
        elif what == "define":
            c = nm("K")
            v = rng.choice([0, 1, -1, 42, 2 ** 31, 2 ** 63 - 1, 0xffffffffffffffff, rng.randrange(-10 ** 6, 10 ** 6)])
            lines.append("#define %s %d" % (c, v))
            consts.append((c, v))
        elif what == "opaque":
            o = nm("o")
            t = nm("op")
            lines.append("struct %s;" % o)
            lines.append("typedef struct %s *%s;" % (o, t))
            types += [("opaque", "struct " + o), ("ptrtypedef", t)]
            structs.append((o, False))
        elif what == "func":
            f = nm("fn")
            lines.append("int %s(int);" % f)
            funcs.append(f)
        elif what == "anonenum":
            a = nm("AN")
            v = rng.randrange(0, 50)
            lines.append("enum { %s = %d };" % (a, v))
            consts.append((a, v))
    # a name from a pool shared by the whole case: a function in some modules, an integer macro (same value) in
    # others -- the only way the depth-first ORDER of the delegation is observable (FFIError vs value)
    if rich and rng.random() < 0.6:
        i = rng.randrange(2)
        d = "dup%s_%d" % (tag, i)
        if rng.random() < 0.5:
            lines.append("int %s(int);" % d)
            funcs.append(d)
        else:
            lines.append("#define %s %d" % (d, 500 + i))
            consts.append((d, 500 + i))
    return dict(cdef="\n".join(lines), types=types, consts=consts, structs=structs, funcs=funcs, uses=uses)


def transitive(mods, k):
    seen, todo = [], list(mods[k]["includes"])
    while todo:
        j = todo.pop(0)
        if j not in seen:
            seen.append(j)
            todo += mods[j]["includes"]
    return seen


def gen_dag(rng, tag, n, chain=False, rich=True):
    mods = []
    for k in range(n):
        if chain:
            inc = [k - 1] if k else []
        else:
            cand = list(range(k))
            rng.shuffle(cand)
            inc = cand[:rng.choice([0, 1, 1, 2, 3])] if k else []
        m = dict(includes=inc)
        mods.append(m)
        visible = []
        for j in transitive(mods, k):
            visible += [(kind, ts, j) for kind, ts in mods[j]["types"] if kind != "ptrtypedef" or True]
        m.update(gen_module(rng, k, tag, visible, rich))
    return mods


def ool_queries(rng, mods):
    qs = []
    allstructs = [(s, un) for m in mods for s, un in m["structs"]]
    allconsts = [c for m in mods for c, _ in m["consts"]]
    allfuncs = [(f, k) for k, m in enumerate(mods) for f in m["funcs"]]
    for k in range(len(mods)):
        for s, un in allstructs:
            qs.append(dict(q="struct", m=k, name=s, union=un))
            if rng.random() < 0.15:
                qs.append(dict(q="struct", m=k, name=s, union=not un))
        qs.append(dict(q="struct", m=k, name="nosuch", union=False))
        for c in allconsts:
            qs.append(dict(q="const", m=k, name=c))
            if rng.random() < 0.5:
                qs.append(dict(q="lib", m=k, name=c))
        qs.append(dict(q="const", m=k, name="NOSUCH"))
        qs.append(dict(q="lib", m=k, name="NOSUCH"))
        for f, owner in allfuncs:
            qs.append(dict(q="const", m=k, name=f))
            if owner != k:
                qs.append(dict(q="lib", m=k, name=f))
    return qs


def inline_ops_for_dag(mods):
    ops = []
    for k, m in enumerate(mods):
        for j in m["includes"]:
            ops.append(["include", k, j])
        ops.append(["cdef", k, m["cdef"]])
    return ops


def gen_conflict_case(rng, tag):
    """a few FFIs, each cdef'ed first with self-contained declarations drawn from a SMALL shared name pool (so the
    same name is declared independently in several FFIs), then a random sequence of includes: duplicates, diamonds,
    self-includes, clashes of struct / typedef / enum names and of constant values"""
    nffi = rng.choice([2, 3, 3, 4])
    ops = []
    for k in range(nffi):
        lines, used = [], set()
        for _ in range(rng.choice([1, 2, 3, 4])):
            i = rng.randrange(3)
            what = rng.choice(["typedef", "struct", "union", "enum", "define", "define", "func", "anonenum", "enumtd"])
            key = (what if what not in ("enum", "enumtd", "anonenum") else "e", i)
            if key in used:
                continue
            used.add(key)
            if what == "typedef":
                lines.append("typedef %s ct%s_%d;" % (rng.choice(PRIMS[:2]), tag, i))
            elif what == "struct":
                lines.append("struct cs%s_%d { int a; };" % (tag, i))
            elif what == "union":
                lines.append("union cu%s_%d { int a; char b; };" % (tag, i))
            elif what == "enum":
                lines.append("enum ce%s_%d { CE%s_%d_%d = %d };" % (tag, i, tag, i, k, rng.randrange(3)))
            elif what == "enumtd":
                lines.append("typedef enum { CX%s_%d_%d = %d } cx%s_%d_t;" % (tag, i, k, rng.randrange(3), tag, i))
            elif what == "anonenum":
                lines.append("enum { CA%s_%d_%d = %d };" % (tag, i, k, rng.randrange(3)))
            elif what == "define":
                lines.append("#define CK%s_%d %d" % (tag, i, rng.choice([1, 1, 2])))
            elif what == "func":
                lines.append("int cf%s_%d(int);" % (tag, i))
        ops.append(["cdef", k, "\n".join(lines)])
    for _ in range(rng.choice([2, 3, 4, 6])):
        i, j = rng.randrange(nffi), rng.randrange(nffi)
        if i == j and rng.random() < 0.8:
            j = (j + 1) % nffi
        ops.append(["include", i, j])
        if rng.random() < 0.25:
            ops.append(["cdef", rng.randrange(nffi), "typedef int late%s_%d;" % (tag, len(ops))])
    return dict(kind="inline", nffi=nffi, ops=ops, uses=[], flavour="conflict")


API_SHAPES = {
    # includes per module
    "chain":   [[], [0], [1]],
    "fanin":   [[], [], [0, 1]],               # two sibling includes that do not know each other
    "fanin3":  [[], [], [], [2, 0, 1]],
    "diamond": [[], [0], [0], [1, 2]],
    "mixed":   [[], [], [0], [2, 1]],          # a chain and a sibling
}


def gen_api_case(rng, tag, shape=None):
    shape = shape or rng.choice(sorted(API_SHAPES))
    incs = API_SHAPES[shape]
    n = len(incs)
    mods = []
    for k in range(n):
        inc = list(incs[k])
        s, e, K, D, f, g = ("as%s_%d" % (tag, k), "ae%s_%d" % (tag, k), "AK%s_%d" % (tag, k), "AD%s_%d" % (tag, k),
                            "af%s_%d" % (tag, k), "ag%s_%d" % (tag, k))
        kv, ev = rng.randrange(1, 1000), rng.randrange(2, 50)
        dv = rng.randrange(1, 200) / 8.0 + k              # exactly representable
        inner = ("struct as%s_%d in;" % (tag, inc[0])) if inc else ""
        decl = ("struct %s { %s int v; };\nenum %s { EA_%s, EB_%s = %d };\n#define %s %d\n"
                "int %s(struct %s *);\nextern int %s;\n" % (s, inner, e, e, e, ev, K, kv, f, s, g))
        header = decl + "static const double %s = %r;\n" % (D, dv)
        cdef = decl + "static const double %s;\n" % D
        body = "int %s(struct %s *p) { return p->v + %d; }\nint %s = %d;\n" % (f, s, 1000 * (k + 1), g, 77 + k)
        mods.append(dict(includes=inc, cdef=cdef, cheader=header, cbody=body,
                         types=[("struct", "struct " + s), ("enum", "enum " + e)],
                         consts=[(K, kv), ("EA_" + e, 0), ("EB_" + e, ev)], structs=[(s, False)],
                         funcs=[f], vars=[g], dconsts=[(D, dv)], uses=[]))
    qs, calls = [], []
    for m in range(n):
        vis = [m] + transitive(mods, m)
        for k in range(n):
            s = mods[k]["structs"][0][0]
            qs.append(dict(q="struct", m=m, name=s, union=False, definers=[k]))
            for c, v in mods[k]["consts"]:
                qs.append(dict(q="const", m=m, name=c))
                qs.append(dict(q="lib", m=m, name=c, definers=[k], want=(["val", v] if k in vis else None)))
            # functions and non-integer constants: the very object the declaring module's lib builds
            qs.append(dict(q="lib", m=m, name=mods[k]["funcs"][0], definers=[k],
                           want=(["owner", k] if k in vis else None)))
            D, dv = mods[k]["dconsts"][0]
            qs.append(dict(q="lib", m=m, name=D, definers=[k], want=(["owner", k] if k in vis else None), fvalue=dv))
            if k in vis:
                # global variable: same address, reads and writes go to the declaring module's C object
                qs.append(dict(q="libvar", m=m, name=mods[k]["vars"][0], definers=[k], write=3000 + 10 * m + k))
                calls.append(dict(m=m, type="struct " + s, field="v", value=5, fn=mods[k]["funcs"][0], want=5 + 1000 * (k + 1)))
        qs.append(dict(q="lib", m=m, name="nosuch", definers=[]))
    return dict(kind="api", shape=shape, mods=mods, queries=qs, calls=calls)


def api_world(mods):
    """the recompiler's rule, applied to the case description: an included struct/union is re-declared as an
    external entry; enumerators of every visible enum are re-emitted; macros, functions and variables are not"""
    world = []
    for k, m in enumerate(mods):
        structs = [[s, un, False] for s, un in m["structs"]]
        globs = ([[c, v] for c, v in m["consts"]] + [[f, None] for f in m["funcs"]] + [[g, None] for g in m.get("vars", [])]
                 + [[dn, None] for dn, _ in m.get("dconsts", [])])
        for j in transitive(mods, k):
            structs += [[s, un, True] for s, un in mods[j]["structs"]]
            globs += [[c, v] for c, v in mods[j]["consts"] if c.startswith(("EA_", "EB_", "XA_", "AN"))]
        world.append(dict(structs=sorted(structs), globals=sorted(globs, key=lambda g: g[0]),
                          includes=list(m["includes"]), has_lib=True))
    return world


def generate(ctx):
    rng = ctx.rng
    cases = []
    for i in range(ctx.n(40, 300)):
        mods = gen_dag(rng, "a%d" % i, rng.choice([2, 3, 3, 4, 5, 6]))
        uses = [u for m in mods for u in m["uses"]]
        cases.append(dict(kind="inline", nffi=len(mods), ops=inline_ops_for_dag(mods), uses=uses, flavour="dag"))
    for i in range(ctx.n(120, 900)):
        cases.append(gen_conflict_case(rng, "c%d" % i))
    for i in range(ctx.n(25, 120)):
        mods = gen_dag(rng, "o%d" % i, rng.choice([2, 3, 3, 4, 5, 6, 7]))
        cases.append(dict(kind="ool", mods=mods, queries=ool_queries(rng, mods),
                          uses=[u for m in mods for u in m["uses"]]))
    # the recursion cap: a chain of 104 modules; names declared at the far end only
    mods = gen_dag(rng, "deep", 104, chain=True, rich=False)
    mods[0]["cdef"] += "\n#define DEEPK 7\nstruct deep_s { int q; };"
    mods[0]["consts"].append(("DEEPK", 7))
    mods[0]["structs"].append(("deep_s", False))
    mods[0]["types"].append(("struct", "struct deep_s"))
    qs = []
    for m in (1, 50, 99, 100, 101, 102, 103):
        qs += [dict(q="const", m=m, name="DEEPK"), dict(q="const", m=m, name="NOSUCH"),
               dict(q="lib", m=m, name="DEEPK"), dict(q="struct", m=m, name="deep_s", union=False)]
    cases.append(dict(kind="ool", mods=mods, queries=qs, uses=[], deep=True))
    # chains through a module that declares only types (its _cffi_globals table is empty): a <- b <- c and a <- d;
    # every constant of a must be visible through b, c (integer_const and lib) and d
    tk = [dict(includes=[], cdef="#define TKA 5\nenum { TKAN = 3 };\nstruct tk_s { int q; };",
               types=[("struct", "struct tk_s")], consts=[("TKA", 5), ("TKAN", 3)], structs=[("tk_s", False)]),
          dict(includes=[0], cdef="typedef int tk_t;\nstruct tk_b { struct tk_s s; };",
               types=[("typedef", "tk_t"), ("struct", "struct tk_b")], consts=[], structs=[("tk_b", False)]),
          dict(includes=[1], cdef="#define TKB 6", types=[], consts=[("TKB", 6)], structs=[]),
          dict(includes=[0], cdef="#define TKD 8", types=[], consts=[("TKD", 8)], structs=[]),
          dict(includes=[1, 3], cdef="", types=[], consts=[], structs=[])]
    for m in tk:
        m.update(funcs=[], uses=[])
    cases.append(dict(kind="ool", mods=tk, queries=ool_queries(rng, tk), uses=[]))
    # API mode: one small fan-in case (two sibling includes) in every run; every shape in thorough
    cases.append(gen_api_case(rng, "q0", "fanin"))
    if ctx.thorough:
        for i, shape in enumerate(sorted(API_SHAPES)):
            cases.append(gen_api_case(rng, "p%d" % i, shape))
    return cases


# ------------------------------------------------------------------ Coq literals

def coq_parser(snap):
    return "(mkParser %s %s %s)" % (
        clist(["(%s, (%d%%N, %d%%N))" % (cstr(n), o, q) for n, o, q in snap["decls"]]),
        clist(["(%s, %s)" % (cstr(k), cz(v)) for k, v in snap["consts"]]),
        clist(["%d%%N" % o for o in snap["incl"]]))


def coq_ffi(snap):
    return "(mkFFI %s %s)" % (coq_parser(snap), clist(["0%nat"] * snap["nincluded"]))


EXC = {"FFIError", "ValueError", "TypeError", "RuntimeError", "AttributeError"}


def coq_world(world):
    mods = []
    for m in world:
        mods.append("(mkModule %s %s %s %s)" % (
            clist(["(mkS %s %s %s)" % (cstr(s), cbool(un), cbool(ext)) for s, un, ext in m["structs"]]),
            clist(["(%s, %s)" % (cstr(g), "GOther" if v is None else "(GInt %s)" % cz(v)) for g, v in m["globals"]]),
            clist([cnat(j) for j in m["includes"]]), cbool(m["has_lib"])))
    return clist(mods)


def coq_query(q):
    if q["q"] == "struct":
        return "(QStruct %s %s %s)" % (cnat(q["m"]), cstr(q["name"]), cbool(q["union"]))
    if q["q"] == "const":
        return "(QConst %s %s)" % (cnat(q["m"]), cstr(q["name"]))
    return "(QLib %s %s)" % (cnat(q["m"]), cstr(q["name"]))


def coq_answer(a):
    if a[0] == "owner":
        return "(AOwner %s)" % cnat(a[1]) if a[1] >= 0 else None
    if a[0] == "val":
        return "(AVal %s)" % cz(a[1])
    return "(AErr %s)" % a[1] if a[1] in EXC else None


# ------------------------------------------------------------------ evaluate

def finding_key(bad):
    """known-finding classes of C34 (narrow): in out-of-line modules an enum type (named, or anonymous behind a
    typedef) of an included module is rebuilt by the including module instead of shared"""
    if bad.get("mode") in ("ool", "api") and bad.get("kind") in ("enum", "enumtypedef") \
            and bad.get("what") == "different ctype objects":
        return "ool-enum-not-shared"
    return None


CORR_A = "C34.Model.api_include vs FFI.include / Parser.include"
CORR_B = "C34.Model.run_query vs _fetch_external_struct_or_union / ffi_fetch_int_constant / lib_build_and_cache_attr"


def evaluate(ctx, cases):
    s = ctx.scratch()
    out, p = s.run_worker("c34_worker.py", dict(cases=cases), timeout=3000)
    if out is None:
        ctx.violation(cases[0], "C34 worker crashed (rc=%s): %s" % (p.returncode, (p.stderr or p.stdout)[-1500:]))
        return
    stepcases, stepowner, qcases, qowner = [], [], [], []
    for c, r in zip(cases, out["results"]):
        if "crash" in r:
            ctx.mismatch(c, "harness failure on this case: " + r["crash"], "C34 harness")
            continue
        if c["kind"] == "inline":
            ctx.hist("inline_flavour", c.get("flavour"))
            if r["errors"]:
                # a cdef of the generator was rejected: generator bug, not a verdict on include
                ctx.mismatch(c, "generated cdef rejected: %s" % r["errors"][:2], "C34 generator")
                continue
            for st in r["steps"]:
                ctx.count()
                ctx.hist("include_outcome", st["exc"] or "ok")
                small = dict(c, ops=[o for o in c["ops"]], focus=[st["i"], st["j"]])
                for b in st["bad"]:
                    ctx.violation(small, "in-line include(%d <- %d): %s" % (st["i"], st["j"], b))
                if st["exc"] not in (None,) + tuple(EXC):
                    ctx.mismatch(small, "include raised %s" % st["exc"], CORR_A)
                    continue
                same = st["i"] == st["j"]
                if st["exc"] or len(st["other"]["decls"]) > 1 or same:
                    ctx.nontrivial(("step", st["before"], st["other"], same))
                obs = dict(st["after"], incl=st["after"]["incl_classes"])
                stepcases.append(("(%s, %s, %s)" % (coq_ffi(st["before"]), coq_ffi(st["other"]), cbool(same)),
                                  "(((%s, %s), %s), %s)" % (
                                      coq_parser(obs), clist(["0%nat"] * st["after"]["nincluded"]),
                                      "(Some %s)" % st["exc"] if st["exc"] else "None",
                                      clist(["(%d%%N, %d%%N)" % (a, b) for a, b in st["cls"]]))))
                stepowner.append(small)
            for u, ok in zip(c["uses"], r["uses"]):
                ctx.count()
                if ok is not True:
                    ctx.violation(c, "in-line: field %s.%s is not the included FFI's %s (%s)" % (
                        u["struct"], u["field"], u["type"], ok))
        else:
            mode = c["kind"]
            ctx.hist("module_mode", mode + (":" + c["shape"] if c.get("shape") else ""))
            for b in r["bad"]:
                b = dict(b, mode=mode)
                ctx.violation(dict(c, queries=[]), "%s modules: %s %s seen through module %d and included module %d: %s" % (
                    mode, b["kind"], b["type"], b["m"], b["inc"], b["what"]), key=finding_key(b))
            for u, ok in zip(c.get("uses", []), r.get("uses", [])):
                ctx.count()
                if ok is not True:
                    b = dict(mode=mode, kind=u["kind"], what="different ctype objects" if ok is False else ok)
                    ctx.violation(dict(c, queries=[]), "%s modules: field %s.%s of module %d is not module %d's %s (%s)" % (
                        mode, u["struct"], u["field"], u["ffi"], u["origin"], u["type"], ok), key=finding_key(b))
            for cl, got in zip(c.get("calls", []), r.get("calls", [])):
                ctx.count()
                if got != cl["want"]:
                    ctx.violation(dict(c, queries=[]), "api modules: %s(%s made by module %d) = %r, expected %d" % (
                        cl["fn"], cl["type"], cl["m"], got, cl["want"]))
            world = r["world"] if mode == "ool" else api_world(c["mods"])
            qs, ans = [], []
            for q, a in zip(c["queries"], r["answers"]):
                ctx.count()
                if q["q"] == "libvar":
                    if a != ["owner", q["definers"][0], True]:
                        ctx.violation(dict(c, queries=[q]), "api modules (%s): global variable %s through lib of module %d is not "
                                      "module %d's C object (address/read/write: %r)"
                                      % (c.get("shape"), q["name"], q["m"], q["definers"][0], a))
                    ctx.nontrivial(("q", mode, c.get("shape"), q["name"], q["m"]))
                    continue
                if q.get("want") is not None and (a[:2] != q["want"] or ("fvalue" in q and a[2:] != [q["fvalue"]])):
                    # the property's clause, decided on the implementation: functions, globals and constants of an
                    # included module are reachable through the including lib
                    ctx.violation(dict(c, queries=[q]), "api modules (%s): lib of module %d gives %r for %s declared by included "
                                  "module %d, expected %r" % (c.get("shape"), q["m"], a, q["name"], q["definers"][0], q["want"]))
                a = a[:2]
                if mode == "ool" and q["q"] == "lib" and any(g == q["name"] and v is None for g, v in world[q["m"]]["globals"]):
                    continue        # the module's own function in ABI mode: dlsym in the process, not modelled
                lit = coq_answer(a)
                if lit is None:
                    ctx.mismatch(dict(c, queries=[q]), "lookup %r answered %r" % (q, a), CORR_B)
                    continue
                qs.append(coq_query(q))
                ans.append(lit)
                ctx.hist("query", q["q"] + ":" + a[0] + (":" + str(a[1]) if a[0] == "err" else ""))
                if a[0] == "err" or (a[0] == "owner" and a[1] != q["m"]) or q["q"] != "struct":
                    ctx.nontrivial(("q", mode, len(c["mods"]), q, a))
            qcases.append(("(%s, %s)" % (coq_world(world), clist(qs)), clist(ans)))
            qowner.append(c)
    bad, outs, err = vlib.coq_mismatches(
        ["C34.Model"], "fun c => (include_step (fst (fst c)) (snd (fst c)) (snd c), @nil (N * N))",
        "(fun m o => step_matches (fst m) o)", stepcases, shard=500)
    if err:
        ctx.obligation_broken("C34 model evaluation (include steps)", err)
    for i in bad:
        ctx.mismatch(stepowner[i], "model include_step = %s; implementation state after the include = %s" % (
            outs.get(i), stepcases[i][1][:1500]), CORR_A)
    bad, outs, err = vlib.coq_mismatches(
        ["C34.Model"], "fun c => map (run_query (fst c)) (snd c)", "answers_eqb", qcases, shard=8)
    if err:
        ctx.obligation_broken("C34 model evaluation (module lookups)", err)
    for i in bad:
        c = qowner[i]
        ctx.mismatch(dict(c, mods=c["mods"] if len(c["mods"]) < 20 else "(deep chain)"),
                     "model answers = %s; implementation = %s" % (outs.get(i), qcases[i][1][:1500]), CORR_B)
    for c in cases[:1] + [c for c in cases if c["kind"] == "ool"][:1]:
        ctx.sample(dict(kind=c["kind"], ops=c.get("ops", [])[:6], mods=[m["cdef"] for m in c.get("mods", [])][:3]))


def run(ctx):
    ctx.cov["rule"] = (
        "inline/dag: random include DAGs of 2..6 FFIs (include-then-cdef, later cdefs use earlier typedefs, structs, "
        "unions, enums, opaque pointers as field types); inline/conflict: 2..4 FFIs cdef'ed independently from a small "
        "shared name pool then random include sequences (duplicates, diamonds, self-include, clashing struct/typedef/"
        "enum names, clashing and identical constants, late cdefs after being included); every include step is replayed "
        "through the model from the observed pre-state. ool: the same DAG generator emitted as out-of-line ABI modules "
        "importing each other; model world decoded from the generated files; typeof(struct/union), integer_const and "
        "lib attribute lookups of every name from every module plus unknown names, wrong kind and function names; one "
        "104-module chain for the recursion cap. api: one compiled fan-in case (two sibling includes) in quick, all shapes (chain, fan-in of 2 and 3, diamond, mixed) in thorough; functions, double constants, #defines, global variables (address, read, write) of every included module looked up through the including lib. Non-trivial = include step "
        "with an exception, a self-include or more than one declaration to copy; lookup answered by another module, by "
        "an error, or any constant lookup; distinct by content.")
    ctx.assumptions += [
        "hand-written model C34/Model.v; Part A tied by regenerating the copied-kind table (Gen.v) and by replaying every "
        "observed FFI.include step; Part B tied by the regenerated search rows (Gen.v, read by dfsG / struct_ownG) and "
        "by differential lookup on generated modules",
        "object identity is observed with `is` / id() on live objects; cdef itself is not modelled (its effect on the "
        "declaration dict is observed)",
        "the model world of ABI modules is decoded from the generated .py files (struct flags, globals, _includes); for "
        "API modules it is built from the case description by the recompiler's rule (included struct -> external entry)"]
    evaluate(ctx, generate(ctx))


MANIFEST = dict(
    technique="Coq proof (invariants over association-list environments with object identities; DFS = first hit in "
              "preorder, by induction on the include depth; recursion cap and fuel modelled as distinct outcomes; "
              "invariant over histories of FFI.include steps for the bridge to generated modules) + Gen.v regenerated "
              "from cparser.py (kind table), ffi_obj.c / lib_obj.c (one row per delegating search, read by the model's "
              "dfsG) and recompiler.py (_CFFI_F_EXTERNAL rule) + differential correspondence on in-line FFIs, "
              "out-of-line ABI modules and compiled API modules (chain, sibling/fan-in, diamond shapes)",
    text="Proof, in-line (C34_include_shares_objects, _conflict_rule, _chain, _idempotent): a successful Parser.include "
         "binds every typedef/struct/union/enum name of the included FFI to the same object and every integer constant "
         "to the same value, changes nothing else, fails exactly on a conflicting binding, composes along chains and is "
         "idempotent (kind table regenerated from cparser.py). Generated modules: the three delegating lookups "
         "(_fetch_external_struct_or_union, ffi_fetch_int_constant, lib_build_and_cache_attr) are REGENERATED as rows "
         "of Gen.v by a fail-closed token-template translator (tools/props/c34_regen.py): guards in front of the loop "
         "in source order (NULL tuple, `recursion > 100`, any other early `return NULL` as text), the increment of the "
         "recursive call, the tuple/object passed down, the statement on `sindex < 0`, the two flag masks, the integer "
         "ops; C34_gen_rows_as_modelled (reflexivity against every regenerated Gen.v) and "
         "C34_regenerated_searches_are_the_model prove that the row-reading searches resolve_structG / integer_constG / "
         "lib_getattrG, which the correspondence evaluates, equal the model's searches on every world. ANY world "
         "(cyclic or dangling includes, any depth): the model's fuel is never exhausted (the cap 100 fires first), "
         "every answer other than 'not found' is some module's own answer or the cap's RuntimeError, whatever "
         "'struct x' resolves to is a real non-external definition of that kind. Acyclic include graphs of depth <= "
         "100: the searches equal 'first answer in depth-first preorder of the transitive includes'; an integer "
         "constant is found iff a transitive include declares it. Bridge (C34_recompiled_world_closed): for every list "
         "of FFIs built by successful FFI.include steps (an FFI no longer changes once included elsewhere; cdef not "
         "modelled: initial declarations arbitrary) the emitted modules (module_of: one entry per struct/union "
         "declaration, flag by the regenerated _struct_ctx rule) satisfy `closed`, the first of the two hypotheses of "
         "the sharing theorem C34_included_struct_is_the_same_object; C34_include_marks_external: a freshly copied "
         "declaration is emitted EXTERNAL. The second hypothesis (a single module defines the struct) is still assumed; "
         "C34_closed_nonvacuous exhibits a built world where every hypothesis holds. C34_find_struct_is_search_sorted / "
         "C34_lookup_is_search_sorted: on strictly sorted tables the model's linear scans return what C25's binary "
         "search (search_in_struct_unions / search_in_globals) returns. Tie: every observed include step replayed "
         "through the model; lookups on generated ABI modules (world decoded from the generated files, 104-deep chain "
         "for the cap, chains through a module without globals); compiled API modules in chain, fan-in (two and three "
         "sibling includes), diamond and mixed shapes — one fan-in case in every quick run — with functions, double "
         "constants, #defines and global variables (address, read, write) of every included module reached through "
         "the including lib.",
    note="Trusted: Coq kernel; hand model (Part A tied by regeneration of the kind table + step replay; Part B by the "
         "regenerated rows + differential lookups); the token templates of c34_regen.py (what is outside the holes is "
         "compared verbatim, so an edit there is a broken obligation, not a silent pass); the decoder of generated "
         "module files; CPython object identity; for API worlds the harness's rendering of the recompiler's rule. "
         "module_of is a hand rendering of Recompiler._struct_ctx of which only the EXTERNAL test is regenerated; its "
         "globals table is empty (the bridge theorem is about struct/union entries only). Correspondence only: struct "
         "layouts come from the included module, typedefs of out-of-line modules, globals read/written through the "
         "including lib, 'same ctype' for typedef/pointer/primitive types. Theorems closed under the global context. "
         "Enum ctypes are NOT shared by out-of-line modules (open finding ool-enum-not-shared).",
    design_ref="DESIGN.md §4 C34")
