"""C12: fail-closed extraction of the constant-name array-length branch of parse_sequel()
(/repo/src/c/parse_c_type.c, `case TOK_IDENTIFIER:` inside the `[` ... `]` loop) into Gallina.

What is extracted is the DECISION taken on the constant getter's outcome: which return codes `neg`
and values `gc.value` give an array length and which give which parse error.  The statements after the
call of the getter are translated one by one (assignments to int locals, `if (<cond>) return
parse_error(tok, "...")`, `if (<cond>) { length = (size_t)gc.value; break; }`, fall-through to the
default case) into one Gallina function

    gen_ps_const_length (neg value : Z) : ps_len

over mathematical integers, where `neg` ranges over int and `value` over unsigned long long.  The
mini-C expression language is: || && | & == != < > <= >= ! ( ) decimal literals < 2^31, the int
locals, gc.value and MAX_SSIZE_T.  Typing follows C on LP64: int op int is evaluated on the true
values (none of the accepted operators can overflow); when an int meets an unsigned 64-bit operand it
is converted modulo 2^64.  Anything else raises Untranslatable (the committed snapshot is then used
and the run says "fallback").
"""
import re


class Untranslatable(Exception):
    pass


def strip_comments(s):
    return re.sub(r"/\*.*?\*/", " ", s, flags=re.S)


def norm(s):
    return " ".join(strip_comments(s).split())


MESSAGES = [("too large", "PSTooLarge"), ("disagreement", "PSDisagree"), ("positive", "PSNotPositive")]


def message_kind(msg):
    """the class of a parse error of the array-length branch, by its message; shared with the harness"""
    for sub, kind in MESSAGES:
        if sub in msg:
            return kind
    return None


TOKEN = re.compile(r'"(?:[^"\\]|\\.)*"|[A-Za-z_]\w*|\d\w*|\|\||&&|==|!=|<=|>=|->|[-+*/%<>!&|^~?:;,.(){}\[\]=]')


def tokenize(text):
    toks, pos = [], 0
    text = text.strip()
    while pos < len(text):
        if text[pos].isspace():
            pos += 1
            continue
        m = TOKEN.match(text, pos)
        if not m:
            raise Untranslatable("cannot tokenise %r" % text[pos:pos + 20])
        toks.append(m.group(0))
        pos = m.end()
    return toks


class E:
    """a translated expression: kind 'int' | 'u64' (text is a Z term) or 'bool' (text is a bool term)"""

    def __init__(self, kind, text, lit=None):
        self.kind, self.text, self.lit = kind, text, lit


def as_z(e):
    return "(b2z %s)" % e.text if e.kind == "bool" else e.text


def as_bool(e):
    return e.text if e.kind == "bool" else "(negb (%s =? 0))" % e.text


def zkind(e):
    return "int" if e.kind == "bool" else e.kind


def to_u64(e):
    if zkind(e) == "u64":
        return as_z(e)
    if e.lit is not None and e.lit >= 0:
        return as_z(e)
    return "(Z.modulo %s (2 ^ 64))" % as_z(e)


class BranchParser:
    def __init__(self, toks, int_locals):
        self.t, self.i = toks, 0
        self.locals = set(int_locals)

    def peek(self, k=0):
        return self.t[self.i + k] if self.i + k < len(self.t) else None

    def eat(self, tok=None):
        got = self.peek()
        if got is None or (tok is not None and got != tok):
            raise Untranslatable("expected %r, got %r (token %d)" % (tok, got, self.i))
        self.i += 1
        return got

    def eat_seq(self, *toks):
        for x in toks:
            self.eat(x)

    # ---- expressions, by C precedence
    def expr(self):
        return self.lor()

    def lor(self):
        e = self.land()
        while self.peek() == "||":
            self.eat()
            e = E("bool", "(%s || %s)" % (as_bool(e), as_bool(self.land())))
        return e

    def land(self):
        e = self.bor()
        while self.peek() == "&&":
            self.eat()
            e = E("bool", "(%s && %s)" % (as_bool(e), as_bool(self.bor())))
        return e

    def bitop(self, sub, op, fn):
        e = sub()
        while self.peek() == op:
            self.eat()
            r = sub()
            if zkind(e) == "int" and zkind(r) == "int":
                e = E("int", "(%s %s %s)" % (fn, as_z(e), as_z(r)))
            else:
                e = E("u64", "(%s %s %s)" % (fn, to_u64(e), to_u64(r)))
        return e

    def bor(self):
        return self.bitop(self.band, "|", "Z.lor")

    def band(self):
        return self.bitop(self.equality, "&", "Z.land")

    def compare(self, sub, ops):
        e = sub()
        while self.peek() in ops:
            op = self.eat()
            r = sub()
            if zkind(e) == "int" and zkind(r) == "int":
                a, b = as_z(e), as_z(r)
            else:
                a, b = to_u64(e), to_u64(r)
            e = E("bool", ops[op] % (a, b))
        return e

    def equality(self):
        return self.compare(self.relational, {"==": "(%s =? %s)", "!=": "(negb (%s =? %s))"})

    def relational(self):
        return self.compare(self.unary, {"<": "(%s <? %s)", ">": "(%s >? %s)", "<=": "(%s <=? %s)",
                                         ">=": "(%s >=? %s)"})

    def unary(self):
        if self.peek() == "!":
            self.eat()
            return E("bool", "(negb %s)" % as_bool(self.unary()))
        return self.primary()

    def primary(self):
        t = self.eat()
        if t == "(":
            e = self.expr()
            self.eat(")")
            return e
        if re.fullmatch(r"0|[1-9]\d*", t):
            v = int(t)
            if v >= 1 << 31:
                raise Untranslatable("literal %s is not an int" % t)
            return E("int", str(v), lit=v)
        if t == "gc" and self.peek() == "." and self.peek(1) == "value":
            self.eat_seq(".", "value")
            return E("u64", "value")
        if t == "MAX_SSIZE_T":
            return E("u64", "gen_MAX_SSIZE_T")
        if t in self.locals:
            return E("int", "v_" + t)
        raise Untranslatable("token %r in an expression" % t)

    # ---- statements
    def action(self):
        """the body of an `if`: -> Gallina result term"""
        if self.peek() == "{":
            self.eat()
            if self.peek() == "length":
                self.eat_seq("length", "=", "(", "size_t", ")", "gc", ".", "value", ";", "break", ";", "}")
                return "PSLen value"
            r = self.action()
            self.eat("}")
            return r
        self.eat_seq("return", "parse_error", "(", "tok", ",")
        msg = ""
        while self.peek() is not None and self.peek().startswith('"'):
            msg += self.eat()[1:-1]
        self.eat_seq(")", ";")
        kind = message_kind(msg)
        if kind is None:
            raise Untranslatable("parse_error message %r is not one of the known classes" % msg)
        self.messages.append(msg)
        return "PSErr %s" % kind

    def statements(self, final):
        """-> nested Gallina term; `final` is the result when control falls off the end"""
        self.messages = []
        parts = []
        while self.peek() is not None:
            if self.peek() == "if":
                self.eat_seq("if", "(")
                c = self.expr()
                self.eat(")")
                act = self.action()
                if self.peek() == "else":
                    raise Untranslatable("else branch")
                parts.append("if %s then %s else" % (as_bool(c), act))
            else:
                name = self.eat()
                if name not in self.locals:
                    raise Untranslatable("statement starting with %r" % name)
                self.eat("=")
                e = self.expr()
                self.eat(";")
                if zkind(e) != "int":
                    raise Untranslatable("assignment of an unsigned 64-bit value to int %s" % name)
                parts.append("let v_%s := %s in" % (name, as_z(e)))
        return "\n  ".join(parts + [final])


SHAPE = re.compile(
    r"case TOK_IDENTIFIER: gindex = search_in_globals\(tok->info->ctx, tok->p, tok->size\); "
    r"if \(gindex >= 0\) \{ const struct _cffi_global_s \*g; g = &tok->info->ctx->globals\[gindex\]; "
    r"if \((?P<ops>[^{}]*)\) \{ "
    r"int (?P<ints>[A-Za-z_]\w*(?: ?, ?[A-Za-z_]\w*)*); struct _cffi_getconst_s gc; "
    r"gc\.ctx = tok->info->ctx; gc\.gindex = gindex; "
    r"neg = \(\(int ?\(\*\)\(struct _cffi_getconst_s ?\*\)\)g->address\) ?\(&gc\); "
    r"(?P<body>.*?) \} \} "
    r"default: return parse_error\(tok, (?P<final>(?:\"[^\"]*\" ?)+)\); \} "
    r"next_token\(tok\); write_ds\(tok, _CFFI_OP\(_CFFI_OP_ARRAY, 0\)\); write_ds\(tok, \(_cffi_opcode_t\)length\);")

OPS_TEXT = ("_CFFI_GETOP(g->type_op) == _CFFI_OP_CONSTANT_INT || "
            "_CFFI_GETOP(g->type_op) == _CFFI_OP_ENUM")


def translate(src):
    """src: text of parse_c_type.c -> the Gallina text appended to coq/C12/Gen.v"""
    m = re.search(r"^static int parse_sequel\(token_t \*tok, int outer\)\n\{(.*?)\n\}\n", src, re.S | re.M)
    if not m:
        raise Untranslatable("parse_c_type.c: parse_sequel not found")
    body = norm(m.group(1))
    if body.count("case TOK_IDENTIFIER:") != 1 or body.count("g->address") != 1:
        raise Untranslatable("parse_sequel: more than one TOK_IDENTIFIER case / getter call")
    m = SHAPE.search(body)
    if not m:
        raise Untranslatable("parse_sequel: the constant-name array-length branch changed shape")
    if " ".join(m.group("ops").split()) != OPS_TEXT:
        raise Untranslatable("parse_sequel: which globals are accepted as a length: %r" % m.group("ops"))
    ints = [x.strip() for x in m.group("ints").split(",")]
    if "neg" not in ints or len(set(ints)) != len(ints):
        raise Untranslatable("parse_sequel: int locals %r" % ints)
    final_msg = "".join(x for x in re.findall(r'"([^"]*)"', m.group("final")))
    final_kind = message_kind(final_msg)
    if final_kind != "PSNotPositive":
        raise Untranslatable("parse_sequel: default-case message %r" % final_msg)
    p = BranchParser(tokenize(m.group("body")), ints)
    term = p.statements("PSErr %s" % final_kind)
    # locals other than neg must be assigned before use: Gallina scoping enforces it (v_x unbound => the
    # regenerated file does not compile => broken obligation), neg is the function's parameter
    mm = re.search(r"^#define MAX_SSIZE_T[ \t]+(.*)$", src, re.M)
    if not mm or " ".join(mm.group(1).split()) != "(((size_t)-1) >> 1)":
        raise Untranslatable("parse_c_type.c: #define MAX_SSIZE_T")
    out = []
    out.append("(* ---- /repo/src/c/parse_c_type.c parse_sequel(): an array length written as the NAME of an integer\n"
               "   constant or enumerator (globals of kind _CFFI_OP_CONSTANT_INT or _CFFI_OP_ENUM).  The statements\n"
               "   after `neg = g->address(&gc)`, translated one by one by tools/props/c12_regen.py; neg : int,\n"
               "   value = gc.value : unsigned long long.  Source text:\n     %s\n   then: default: return parse_error(tok, \"%s\") *)"
               % (m.group("body").replace("(*", "( *").replace("*)", "* )"), final_msg))
    out.append("(* #define MAX_SSIZE_T (((size_t)-1) >> 1), size_t = unsigned 64-bit *)")
    out.append("Definition gen_MAX_SSIZE_T : Z := Z.shiftr (2 ^ 64 - 1) 1.\n")
    out.append("Definition gen_ps_const_length (neg value : Z) : ps_len :=\n  let v_neg := neg in\n  %s.\n" % term)
    out.append("(* the globals that take this branch *)")
    out.append("Definition gen_ps_length_from_constant_int : bool := true.")
    out.append("Definition gen_ps_length_from_enumerator : bool := true.")
    return "\n".join(out) + "\n"


if __name__ == "__main__":
    import sys
    print(translate(open(sys.argv[1]).read()))
