"""C26 — ffi.init_once runs the initializer once under any interleaving.

Tie A (regeneration): FFI.init_once (src/cffi/api.py) is flattened by a fail-closed shape-matching
driver into a control-flow graph over the instruction set of coq/C26/Model.v and written to
coq/C26/Gen.v (`py_prog`); the theorems of C26/Props.v are re-checked against it on every run.
Tie B (correspondence): the real Python implementation is driven through every maximal schedule
of the model (2 threads: all; 3 threads: all up to renaming of threads in quick, all in thorough)
with every shared operation (cache read / setdefault / store, lock acquire / release, entry and
outcome of f) as a scheduling point; the C implementation (ffi_obj.c) is driven with a tag whose
__hash__ is a scheduling point plus blocking f's.  Each replayed schedule is re-validated inside
Coq (`run_maximal`: every step enabled in the model, schedule maximal, same trace and outcomes).
"""
import ast
import os
import concurrent.futures

from lib import vlib, py2coq
from props import c26_worker as W

ID = "C26"

SNAPSHOT_PROG = [("IRead", 2, 1), ("ISetDefault", 2), ("IIfDone", 3, 4), ("IRetX",), ("IAcquire", 5),
                 ("IRead", 6, 15), ("IIfDone", 7, 9), ("IRelease", 8), ("IRetX",), ("ICallF", 10, 13),
                 ("IStore", 11), ("IRelease", 12), ("IRetResult",), ("IRelease", 14), ("IRaise", "FExn"),
                 ("IRelease", 16), ("IRaise", "KeyErr")]
SNAPSHOT_SRC = ["x = self._init_once_cache[tag]",
                "x = self._init_once_cache.setdefault(tag, (False, allocate_lock()))",
                "if x[0]:", "return x[1]", "with x[1]:", "x = self._init_once_cache[tag]", "if x[0]:",
                "(leave with)", "return x[1]", "result = func()", "self._init_once_cache[tag] = (True, result)",
                "(leave with)", "return result", "(leave with, exception from func())", "(propagate)",
                "(leave with, KeyError)", "(propagate)"]


# ------------------------------------------------------------------ translator driver (tie A)

def _sh(src):
    return py2coq.shape(ast.parse(src).body[0])


SH_READ = _sh("x = self._init_once_cache[tag]")
SH_SETDEFAULT = _sh("x = self._init_once_cache.setdefault(tag, (False, allocate_lock()))")
SH_NEWX = _sh("x = (False, allocate_lock())")
SH_SETDEFAULTX_DISCARD = _sh("self._init_once_cache.setdefault(tag, x)")
SH_SETDEFAULTX_ASSIGN = _sh("x = self._init_once_cache.setdefault(tag, x)")
SH_CALLF = _sh("result = func()")
SH_STORE = _sh("self._init_once_cache[tag] = (True, result)")
SH_TEST = py2coq.shape(ast.parse("x[0]").body[0].value)
SH_X1 = py2coq.shape(ast.parse("x[1]").body[0].value)
SH_RESULT = py2coq.shape(ast.parse("result").body[0].value)


def flatten(fn):
    """FunctionDef of init_once -> (list of instruction tuples, list of source texts). Fail closed."""
    U = py2coq.Untranslatable
    if [a.arg for a in fn.args.args] != ["self", "func", "tag"] or fn.args.vararg or fn.args.kwarg \
            or fn.args.kwonlyargs or fn.args.defaults or fn.decorator_list:
        raise U("signature of init_once changed")
    nodes = []         # dict(kind, succ={name: idx}, src)
    deferred = {}      # (exn, in_with) -> [(idx, name)]

    def emit(kind, src, **succ):
        nodes.append(dict(kind=kind, succ=dict(succ), src=src))
        return len(nodes) - 1

    def text(st):
        return ast.unparse(st).split("\n")[0]

    def comp_block(stmts, in_with, handler):
        pending = []
        for i, st in enumerate(stmts):
            if i > 0 and not pending:
                raise U("unreachable statement after return: " + text(st))
            entry = len(nodes)
            for (j, nm) in pending:
                nodes[j]["succ"][nm] = entry
            pending = comp_stmt(st, in_with, handler)
        return pending

    def comp_return(st, in_with):
        v = py2coq.shape(st.value) if st.value is not None else None
        if v == SH_X1:
            kind = "IRetX"
        elif v == SH_RESULT:
            kind = "IRetResult"
        else:
            raise U("return of something else: " + text(st))
        if in_with:
            r = emit("IRelease", "(leave with)")
            nodes[r]["succ"]["k"] = r + 1
        emit(kind, text(st))

    def comp_stmt(st, in_with, handler):
        sh = py2coq.shape(st)
        if sh == SH_READ:
            i = emit("IRead", text(st))
            if handler is not None:
                handler.append((i, "miss"))
            else:
                deferred.setdefault(("KeyErr", in_with), []).append((i, "miss"))
            return [(i, "ok")]
        if sh == SH_SETDEFAULT:
            if handler is not None:
                raise U("setdefault inside a try body")
            i = emit("ISetDefault", text(st))
            return [(i, "k")]
        if sh == SH_NEWX:
            i = emit("INewX", text(st))
            return [(i, "k")]
        if sh in (SH_SETDEFAULTX_DISCARD, SH_SETDEFAULTX_ASSIGN):
            if handler is not None:
                raise U("setdefault inside a try body")
            i = emit("ISetDefaultX", text(st), a=("true" if sh == SH_SETDEFAULTX_ASSIGN else "false"))
            return [(i, "k")]
        if sh == SH_CALLF:
            if handler is not None:
                raise U("func() called inside try/except")
            i = emit("ICallF", text(st))
            deferred.setdefault(("FExn", in_with), []).append((i, "ex"))
            return [(i, "ok")]
        if sh == SH_STORE:
            i = emit("IStore", text(st))
            return [(i, "k")]
        if isinstance(st, ast.Return):
            comp_return(st, in_with)
            return []
        if isinstance(st, ast.If):
            if py2coq.shape(st.test) != SH_TEST or st.orelse or len(st.body) != 1 \
                    or not isinstance(st.body[0], ast.Return):
                raise U("if statement of unknown shape: " + text(st))
            i = emit("IIfDone", text(st))
            nodes[i]["succ"]["yes"] = i + 1
            comp_return(st.body[0], in_with)
            return [(i, "no")]
        if isinstance(st, ast.With):
            if in_with or handler is not None:
                raise U("nested with / with inside try")
            if len(st.items) != 1 or st.items[0].optional_vars is not None \
                    or py2coq.shape(st.items[0].context_expr) != SH_X1 or not st.body:
                raise U("with statement of unknown shape: " + text(st))
            a = emit("IAcquire", text(st))
            nodes[a]["succ"]["k"] = a + 1
            pend = comp_block(st.body, True, None)
            if not pend:
                raise U("with body never falls through")
            r = emit("IRelease", "(leave with)")
            for (j, nm) in pend:
                nodes[j]["succ"][nm] = r
            return [(r, "k")]
        if isinstance(st, ast.Try):
            if in_with or handler is not None or st.orelse or st.finalbody or len(st.handlers) != 1:
                raise U("try statement of unknown shape")
            h = st.handlers[0]
            if h.name is not None or not isinstance(h.type, ast.Name) or h.type.id != "KeyError":
                raise U("handler is not `except KeyError:`")
            hl = []
            p1 = comp_block(st.body, in_with, hl)
            entry = len(nodes)
            p2 = comp_block(h.body, in_with, None)
            if len(nodes) == entry:
                raise U("empty handler")
            for (j, nm) in hl:
                nodes[j]["succ"][nm] = entry
            return p1 + p2
        raise U("statement outside the init_once subset: " + text(st))

    body = [st for st in fn.body if not (isinstance(st, ast.Expr) and isinstance(st.value, ast.Constant)
                                         and isinstance(st.value.value, str))]
    pend = comp_block(body, False, None)
    if pend:
        raise U("init_once can fall off its end (implicit return None)")
    for (exn, in_with) in sorted(deferred):
        entry = len(nodes)
        if in_with:
            r = emit("IRelease", "(leave with, %s)" % ("exception from func()" if exn == "FExn" else "KeyError"))
            nodes[r]["succ"]["k"] = r + 1
        emit("IRaise", "(propagate)", e=exn)
        for (j, nm) in deferred[(exn, in_with)]:
            nodes[j]["succ"][nm] = entry
    prog = []
    for nd in nodes:
        k, s = nd["kind"], nd["succ"]
        if k == "IRead":
            prog.append((k, s["ok"], s["miss"]))
        elif k == "IIfDone":
            prog.append((k, s["yes"], s["no"]))
        elif k == "ICallF":
            prog.append((k, s["ok"], s["ex"]))
        elif k in ("ISetDefault", "INewX", "IAcquire", "IStore", "IRelease"):
            prog.append((k, s["k"]))
        elif k == "ISetDefaultX":
            prog.append((k, s["a"] == "true", s["k"]))
        elif k == "IRaise":
            prog.append((k, s["e"]))
        else:
            prog.append((k,))
    return prog, [nd["src"] for nd in nodes]


def gen_text(prog, srcs, origin):
    lines = ["(* C26/Gen.v — %s.  Do not edit: rewritten by tools/props/c26.py regen() on every run. *)" % origin,
             "From Coq Require Import List.", "Import ListNotations.", "From Cffi Require Import C26.Model.", "",
             "Definition py_prog : prog := ["]
    for i, (ins, src) in enumerate(zip(prog, srcs)):
        args = " ".join({True: "true", False: "false"}.get(a, str(a)) if isinstance(a, bool) else str(a)
                        for a in ins[1:])
        lines.append("  (* %2d *) %s%s   (* %s *)" % (i, (ins[0] + " " + args).strip(),
                                                     ";" if i + 1 < len(prog) else "", src.replace("*)", "* )")))
    lines.append("].")
    return "\n".join(lines) + "\n"


_PY_PROG = {}


def py_prog():
    if "prog" not in _PY_PROG:
        path = os.path.join(vlib.REPO, "src", "cffi", "api.py")
        try:
            fn = py2coq.find_function(py2coq.parse_source(path), "init_once", cls="FFI")
            prog, srcs = flatten(fn)
            _PY_PROG.update(prog=prog, srcs=srcs, status=None,
                            origin="regenerated from src/cffi/api.py FFI.init_once")
        except (py2coq.Untranslatable, OSError, SyntaxError) as e:
            _PY_PROG.update(prog=list(SNAPSHOT_PROG), srcs=list(SNAPSHOT_SRC), status="fallback: %s" % e,
                            origin="SNAPSHOT (translation of the current source failed)")
    return _PY_PROG


def regen(ctx):
    g = py_prog()
    st = py2coq.write_if_changed(os.path.join(vlib.COQ, "C26", "Gen.v"), gen_text(g["prog"], g["srcs"], g["origin"]))
    ctx.translator("C26/Gen.v", g["status"] or st)
    ctx.extra["py_prog_equals_snapshot"] = (g["prog"] == SNAPSHOT_PROG)
    # the model evaluation (coq_mismatches) loads Gen.vo: keep it in step with Gen.v even when the proof
    # re-check is skipped (--replay) or fails later in Proofs.v
    ok, log = vlib.coq_make(["C26/Gen.vo"])
    if not ok:
        ctx.obligation_broken("C26/Gen.v does not compile", log)


# ------------------------------------------------------------------ generators

def canonical(sched):
    """threads first appear in the order 0, 1, 2, ..."""
    seen = []
    for t, _o in sched:
        if t not in seen:
            if t != len(seen):
                return False
            seen.append(t)
    return True


def generate(ctx):
    rng = ctx.rng
    prog = py_prog()["prog"]
    cases = []
    for n in (1, 2):
        for s in W.enum_maximal(prog, n):
            cases.append(dict(impl="py", n=n, sched=s))
    all3 = W.enum_maximal(prog, 3)
    ctx.extra["model_maximal_schedules_py"] = {"1": len(W.enum_maximal(prog, 1)), "2": len(W.enum_maximal(prog, 2)),
                                               "3": len(all3) if len(all3) < W.ENUM_CAP else ">= %d (capped)" % W.ENUM_CAP}
    if ctx.thorough or ctx.tier_search == "thorough":
        pick = all3
        ctx.extra["py_3_threads"] = "all %d maximal schedules" % len(all3)
    else:
        canon = [s for s in all3 if canonical(s)]
        pick = rng.sample(canon, min(len(canon), 500))
        ctx.extra["py_3_threads"] = "%d sampled from the %d maximal schedules with threads first appearing in order " \
                                    "0,1,2 (= all %d up to renaming of threads); thorough replays all" % (
                                        len(pick), len(canon), len(all3))
    cases += [dict(impl="py", n=3, sched=s) for s in pick]
    # C implementation: decision lists interpreted online (who gets the lock is the implementation's choice)
    seen = set()
    for n, cnt in ((1, 4), (2, ctx.n(150, 800)), (3, ctx.n(250, 2000)), (4, ctx.n(60, 800))):
        for _ in range(cnt):
            d = tuple(rng.randrange(64) for _ in range(10 * n + 4))
            if (n, d) not in seen:
                seen.add((n, d))
                cases.append(dict(impl="c", n=n, decisions=list(d)))
    # the same free-choice driver on the Python implementation with 4 threads (beyond the exhaustive bound)
    for _ in range(ctx.n(40, 800)):
        cases.append(dict(impl="py", n=4, decisions=[rng.randrange(64) for _ in range(48)]))
    return cases


# ------------------------------------------------------------------ evaluation

predicates = W.predicates


def impl_observation(case, res):
    """the implementation's labelled trace and final observations, in the format of C26.Model.run*"""
    n = case["n"]
    tr = []
    nstart = [0] * n
    ndone = 0
    last_peek = None
    for t, what, extra, peek in res["events"]:
        if peek is not None:
            last_peek = peek
        if what == "op":
            k = extra
        elif what == "fenter":
            k = W.K_CALLF
            nstart[t] += 1
        elif what == "fret":
            k = W.K_FRET
            ndone += 1
        elif what == "fraise":
            k = W.K_FRAISE
        else:
            continue
        if case["impl"] == "py":
            tr += [t, k] + list(peek)
        else:
            tr += [t, 1 if k == "dict" else k]
    fin = []
    for t in range(n):
        o = res["outcomes"][t] or [0]
        fin += [int(x) if isinstance(x, int) else 4 for x in o[:2]] + [nstart[t]]
    if case["impl"] == "py":
        fin += list(last_peek or [0])
    else:
        p = res["probe"] or [9]
        fin += [2, p[1]] if p[0] == 2 else [1]
    return tr + fin + [ndone]


def sched_chunks(sched):
    out = []
    for i in range(0, len(sched), 12):
        code = 1
        for t, o in reversed(sched[i:i + 12]):
            assert 0 <= t < 10 and o in (0, 1, 2)
            code = code * 32 + (3 * t + o)
        out.append("%d" % code)
    return "[" + ";".join(out) + "]%N"


def fp(m, b, l):
    acc = 7
    for z in l:
        acc = (acc * b + z + 1) % m
    return acc


def coq_case(n, sched, obs):
    """(n, schedule chunks) and the two fingerprints of the implementation's observation list;
    see C26.Model.decode_sched / fp / run_code"""
    if not all(isinstance(z, int) and 0 <= z < 1024 for z in obs):
        return None
    return ("(%d%%nat, %s)" % (n, sched_chunks(sched)),
            "(Some (%d%%N, %d%%N))" % (fp(2305843009213693951, 1000003, obs), fp(2147483647, 48271, obs)))


def run_workers(ctx, impl, prog, cases, timeout):
    s = ctx.scratch()
    chunks = [cases[i::8] for i in range(8)]
    chunks = [c for c in chunks if c]
    out = {}

    def one(chunk):
        r, p = s.run_worker("c26_worker.py", dict(impl=impl, prog=prog, cases=chunk, timeout=timeout),
                            timeout=3600)
        return chunk, r, p
    with concurrent.futures.ThreadPoolExecutor(max_workers=len(chunks) or 1) as ex:
        for chunk, r, p in ex.map(one, chunks):
            if r is None:
                raise RuntimeError("c26 worker failed: " + (p.stderr[-2000:] or p.stdout[-500:]))
            for c, x in zip(chunk, r["results"]):
                out[id(c)] = x
    return [out[id(c)] for c in cases]


def evaluate(ctx, cases):
    if ctx.replay_mode and cases and cases[0].get("explore"):
        c = cases[0]
        r = run_workers(ctx, "py", py_prog()["prog"], [dict(impl="py", n=c["n"], explore=True, prefix=c["prefix"],
                                                            tags=c.get("tags"))], 60)[0]
        ctx.count()
        bad = []
        if c.get("tags"):
            for tg in sorted(set(c["tags"])):
                bad += predicates(r, c["n"], [t for t in range(c["n"]) if c["tags"][t] == tg])
        else:
            bad = predicates(r, c["n"])
        if r["status"] in ("timeout", "stuck"):
            bad.append("no call can make progress (%s): %s" % (r["status"], r["detail"]))
        if bad:
            ctx.violation(dict(c, observed=dict(outcomes=r["outcomes"], events=[e[:3] for e in r["events"]][:80])),
                          "init_once (Python api.py implementation, %d threads, schedule %r): %s"
                          % (c["n"], r["sched"], "; ".join(bad[:3])))
        return
    if ctx.replay_mode:
        # a stored schedule belongs to the program of the tree it was found on: follow it as far as the current
        # model allows, then continue with free choices (so that it passes on a repaired tree)
        cases = [dict({k: v for k, v in c.items() if k not in ("observed", "sched_followed", "impl_observation")},
                      lenient=True) for c in cases if "impl" in c]
    g = py_prog()
    progs = dict(py=g["prog"], c=W.C_PROG)
    coq_prog = dict(py="py_prog", c="c_prog")
    for impl in ("py", "c"):
        mine = [c for c in cases if c["impl"] == impl]
        if not mine:
            continue
        import time as _t
        t0 = _t.time()
        ctx.scratch()
        tm = ctx.extra.setdefault("timing_s", {})
        tm["scratch_build_" + impl] = round(_t.time() - t0, 1)
        t0 = _t.time()
        results = run_workers(ctx, impl, progs[impl], mine, 30)
        tm["workers_" + impl] = round(_t.time() - t0, 1)
        # a step that does not arrive is retried once in a fresh process before it counts
        retried = 0
        for i, (c, r) in enumerate(zip(mine, results)):
            if r["status"] == "timeout" and retried < 3:
                retried += 1
                results[i] = run_workers(ctx, impl, progs[impl], [c], 60)[0]
                results[i]["retried"] = True
            elif r["status"] == "timeout":
                r["status"] = "skipped"
        coqcases, owner = [], []
        replayed = 0
        for c, r in zip(mine, results):
            if r["status"] == "skipped":
                ctx.hist("skipped_after_timeouts", impl)
                continue
            ctx.count()
            n = c["n"]
            ctx.hist("impl_threads", "%s/%d" % (impl, n))
            bad = predicates(r, n)
            if r["status"] == "timeout":
                bad.append("no progress within the timeout in two fresh processes (threads %r unfinished): %s"
                           % (r["unfinished"], r["detail"]))
            elif r["unfinished"] and r["status"] == "ok":
                bad.append("threads %r never finished although no f is running" % (r["unfinished"],))
            if bad:
                ctx.violation(dict(c, observed=dict(status=r["status"], detail=r["detail"], outcomes=r["outcomes"],
                                                    events=[e[:3] for e in r["events"]][:80])),
                              "init_once (%s implementation, %d threads): %s" % (
                                  "Python api.py" if impl == "py" else "C ffi_obj.c", n, "; ".join(bad[:3])))
                continue
            if r["status"] != "ok":
                ctx.mismatch(dict(c, observed=dict(status=r["status"], detail=r["detail"], sched=r["sched"])),
                             "the %s implementation left the model's schedule: %s" % (impl, r["detail"]),
                             "C26.Model.%s vs %s" % (coq_prog[impl], "api.py init_once" if impl == "py"
                                                     else "ffi_obj.c ffi_init_once"))
                continue
            nf = sum(1 for e in r["events"] if e[1] == "fenter")
            nr = sum(1 for e in r["events"] if e[1] == "fraise")
            ctx.hist("f_starts", nf)
            ctx.hist("f_raises", nr)
            if n >= 2 and (nr >= 1 or any(e[1] == "op" and e[3] == [1] and e[2] == W.K_READ for e in r["events"])
                           or impl == "c"):
                ctx.nontrivial((impl, n, r["sched"]))
            obs = impl_observation(c, r)
            cc = coq_case(n, r["sched"], obs)
            if cc is None:
                ctx.mismatch(dict(c, sched_followed=r["sched"], impl_observation=obs),
                             "implementation observation outside the model's value range: %r" % (obs,),
                             "C26.Model.%s vs implementation" % coq_prog[impl])
                continue
            coqcases.append(cc)
            owner.append((c, r, obs))
            replayed += 1
        fn = "run_maximal" if impl == "py" else "run_coarse_maximal"
        t0 = _t.time()
        badidx, outs, err = vlib.coq_mismatches(
            ["C26.Model", "C26.Gen"], "run_code %s %s" % ("false" if impl == "py" else "true", coq_prog[impl]),
            "opt_eqb (pair_eqb N.eqb N.eqb)", coqcases, shard=250 if len(coqcases) < 3000 else 1200)
        tm["coq_compare_" + impl] = round(_t.time() - t0, 1)
        if err:
            ctx.obligation_broken("C26 model evaluation (%s)" % impl, err)
        for k, i in enumerate(badidx):
            c, r, obs = owner[i]
            model = "(not evaluated)"
            if k < 3:
                ok, out = vlib.coq_eval(["C26.Model", "C26.Gen"], "Eval vm_compute in (%s %s %d (decode_sched %s)).\n" % (
                    fn, coq_prog[impl], c["n"], sched_chunks(r["sched"])))
                model = " ".join(out.split())[:1500]
            ctx.mismatch(dict(c, sched_followed=r["sched"], impl_observation=obs),
                         "model %s %s %s ; implementation observed %s" % (fn, coq_prog[impl], model, obs),
                         "C26.Model.%s vs %s" % (coq_prog[impl], "api.py init_once" if impl == "py"
                                                 else "ffi_obj.c ffi_init_once"))
        tv = ctx.extra.setdefault("traces_validated_by_implementation", {})
        tv[impl] = tv.get(impl, 0) + replayed - len(badidx)
        ctx.extra["traces_validated_against_impl"] = sum(tv.values())
        for c, r, obs in owner[:2]:
            ctx.sample(dict(impl=impl, n=c["n"], sched=r["sched"], observation=obs))


def explore(ctx, n, limit, rng=None, tags=None, max_seconds=None):
    """Model-free search on the real Python implementation: enumerate the implementation's OWN schedule tree
    (every parked thread is a choice, both outcomes of every f) and evaluate the property on each complete run.
    This is what finds the concrete failing schedule when the implementation no longer follows the model.
    The search runs inside worker processes (depth-first from disjoint first choices)."""
    g = py_prog()
    s = ctx.scratch()
    seed = rng.randrange(1 << 30) if rng is not None else None
    r, p = s.run_worker("c26_worker.py", dict(impl="py", prog=g["prog"], cases=[], timeout=30,
                                              explore_tree=dict(n=n, limit=limit, seed=seed, tags=tags,
                                                                max_seconds=max_seconds)), timeout=3600)
    if r is None:
        raise RuntimeError("c26 explore worker failed: " + (p.stderr[-2000:] or p.stdout[-500:]))
    t = r["tree"]
    ctx.count(t["runs"])
    ctx.hist("explore_threads_%d_runs" % n, t["runs"])
    for key in t["nontrivial"]:
        ctx.nontrivial(("explore", n, key))
    for b in t["bad"]:
        ctx.violation(dict(impl="py", n=n, explore=True, prefix=b["sched"], tags=tags,
                           observed=dict(outcomes=b["outcomes"], events=[e[:3] for e in b["events"]][:80])),
                      "init_once (Python api.py implementation, %d threads, schedule %r): %s"
                      % (n, b["sched"], "; ".join(b["bad"][:3])))
    ctx.extra.setdefault("explored_impl_schedules", {})[str(n) + ("/tags %r" % (tags,) if tags else "")] = dict(
        runs=t["runs"], exhausted=t["exhausted"])


def check_counts(ctx, cases):
    """the exhaustive claim: the number of distinct maximal schedules replayed equals the number the Coq
    model has (count_max), per thread count"""
    g = py_prog()
    want = {}
    for n in (1, 2, 3):
        k = len({tuple(map(tuple, c["sched"])) for c in cases if c["impl"] == "py" and c.get("sched") and c["n"] == n})
        want[n] = k
    full3 = ctx.thorough or ctx.tier_search == "thorough"
    body = "".join("Eval vm_compute in (count_max py_prog %d (fun t => (100 + Z.of_nat t)%%Z) 40 init).\n" % n
                   for n in ((1, 2, 3) if full3 else (1, 2)))
    ok, out = vlib.coq_eval(["C26.Model", "C26.Gen"], body, timeout=900)
    import re
    nums = [int(x) for x in re.findall(r"=\s*(\d+)%N", out)]
    ctx.extra["coq_count_max"] = nums
    if not ok or len(nums) < 2:
        ctx.obligation_broken("C26 count_max evaluation", out[-1500:])
        return
    exp = [want[1], want[2]] + ([want[3]] if full3 else [])
    if nums != exp:
        ctx.mismatch(dict(kind="count", coq=nums, harness=exp),
                     "Coq count_max says %r maximal schedules, the harness replayed %r" % (nums, exp),
                     "schedule enumeration (Python mirror) vs C26.Model.count_max")


def run(ctx):
    ctx.cov["rule"] = ("py: every maximal schedule of the regenerated model for 1 and 2 threads and for 3 threads (quick: up "
                       "to renaming of threads; thorough: all), replayed on the real FFI.init_once with the cache dict, the "
                       "per-tag lock and f as scheduling points; the number of schedules is checked against Coq's count_max; "
                       "plus random free-choice runs with 4 threads. c: random decision lists for 1-4 threads on "
                       "_cffi_backend.FFI().init_once with tag.__hash__ and f as scheduling points (lock winner chosen by the "
                       "implementation, then validated against the model). Every replayed schedule is re-run in Coq "
                       "(run_maximal / run_coarse_maximal) and the traces compared. Non-trivial = at least 2 threads and a "
                       "raising f or a thread that saw the entry pending; distinct by (implementation, threads, schedule).")
    ctx.assumptions += [
        "py_prog is produced by the shape-matching driver flatten() in tools/props/c26.py (trusted, ~120 lines); "
        "c_prog is a hand model of ffi_obj.c tied by this run's schedules only",
        "atomicity: each dict operation / lock operation is one atomic step (GIL; tag with built-in or harness hash)",
        "termination of every call additionally needs weak fairness of the thread scheduler and termination of f "
        "(runtime hypotheses; the model proves no-deadlock and a bound on each call's own steps)",
        "allocation failures (MemoryError paths of ffi_obj.c) are not modelled",
        "tags: cache[tag] and the lock stored in it are the only data a call touches (enforced syntactically by the "
        "translator driver for api.py, by inspection for ffi_obj.c); two-tag runs on the real Python implementation "
        "are part of the model-free search"]
    cases = generate(ctx)
    # stage 1: everything up to 2 threads and the C runs; stage 2 (3 and 4 threads on the Python implementation)
    # only when stage 1 found no violation (a broken implementation is reported after seconds, not minutes)
    first = [c for c in cases if c["n"] <= 2 or c["impl"] == "c"]
    rest = [c for c in cases if not (c["n"] <= 2 or c["impl"] == "c")]
    evaluate(ctx, first)
    import time as _t
    budget = 110 if not ctx.thorough else 540       # seconds of wall time after which optional phases are skipped

    def in_budget(what):
        if _t.time() - ctx.t0 < budget:
            return True
        ctx.extra.setdefault("skipped_for_time", []).append(what)
        return False
    if not ctx.violations:
        # the implementation's own schedule tree, without the model: all of it for 2 threads, a sample for 3
        explore(ctx, 2, 5000)
    if not ctx.violations:
        # the model's schedules for 3 (and 4) threads on the Python implementation; in thorough all 23430
        if ctx.thorough and not in_budget("start of 3-thread replay"):
            rest = rest[:2000]
        evaluate(ctx, rest)
        check_counts(ctx, cases)
    if not ctx.violations and in_budget("explore 3 threads"):
        explore(ctx, 3, ctx.n(800, 5000), rng=ctx.rng, max_seconds=ctx.n(40, 120))
    if not ctx.violations and in_budget("explore two tags"):
        # two tags at once: callers 0,1 on one tag, caller 2 (3) on another; the property per tag
        explore(ctx, 3, ctx.n(300, 1500), rng=ctx.rng, tags=[0, 0, 1], max_seconds=ctx.n(20, 60))
        explore(ctx, 4, ctx.n(150, 1000), rng=ctx.rng, tags=[0, 1, 0, 1], max_seconds=ctx.n(20, 60))


MANIFEST = dict(
    technique="Coq proof (inductive invariant of an N-thread transition system, all schedules) over a step program "
              "regenerated from api.py + exhaustive schedule replay on the real Python and C implementations",
    text="Proof: for the step program regenerated from FFI.init_once and for the hand model of ffi_init_once, for any number "
         "of threads and every schedule: at most one f runs at a time, at most one completes normally, every normal return "
         "is the cached result which never changes, no f starts once cached, only a call's own f makes it raise and such a "
         "call never writes the cache, no ill-typed state is reached, every unfinished call can step or waits for a lock "
         "whose holder can step (no deadlock), and each call makes a bounded number of own steps; an FFI object with many "
         "tags is the product of per-tag states and every theorem holds for every tag (C26_every_tag). Termination of "
         "every call ('no call blocks forever unless an f does') is proved up to scheduler fairness and termination of f, "
         "which are not formalised. Tie: regeneration of the Python program on every run (a changed program re-runs the "
         "proofs); every maximal model schedule of <= 2 threads (quick: a sample of the 3-thread ones, thorough: all 23430) "
         "replayed on the real Python implementation (count checked in Coq); a model-free exhaustive search of the real "
         "implementation's own 2-thread schedule tree and sampled 3/4-thread and two-tag trees with the property decided "
         "on the implementation; controlled and random schedules on the C implementation.",
    note="Trusted: Coq kernel; the flattening driver; hand model c_prog (tied by schedule replay); atomicity of dict and lock "
         "operations under the GIL. Termination of calls needs scheduler fairness and terminating f (hypotheses). "
         "Theorems closed under the global context.",
    design_ref="DESIGN.md §4 C26")
