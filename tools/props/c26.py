"""C26 — ffi.init_once runs the initializer once under any interleaving.

Tie A (regeneration): FFI.init_once (src/cffi/api.py) is flattened by a fail-closed shape-matching
driver into a control-flow graph over the instruction set of coq/C26/Model.v and written to
coq/C26/Gen.v (`py_prog`); ffi_init_once (src/c/ffi_obj.c) by an ordered call-site extractor (`c_prog_gen`);
plus boolean facts about the creation of the cache and of the locks (`gen_*`), from which the initial state
of the implementation-level theorems is built.  The theorems of C26/Props.v are re-checked on every run.
Tie B (correspondence): the real Python implementation is driven through every maximal schedule
of the model (2 threads: all; 3 threads: all up to renaming of threads in quick, all in thorough)
with every shared operation (cache read / setdefault / store, lock acquire / release, entry and
outcome of f) as a scheduling point; the C implementation (ffi_obj.c) is driven with a tag whose
__hash__ is a scheduling point plus blocking f's.  Each replayed schedule is re-validated inside
Coq (`run_maximal`: every step enabled in the model, schedule maximal, same trace and outcomes).
"""
import ast
import os
import concurrent.futures

from lib import vlib, py2coq
from props import c26_worker as W

ID = "C26"

SNAPSHOT_PROG = [("IRead", 2, 1), ("ISetDefault", 2), ("IIfDone", 3, 4), ("IRetX",), ("IAcquire", 5),
                 ("IRead", 6, 15), ("IIfDone", 7, 9), ("IRelease", 8), ("IRetX",), ("ICallF", 10, 13),
                 ("IStore", 11), ("IRelease", 12), ("IRetResult",), ("IRelease", 14), ("IRaise", "FExn"),
                 ("IRelease", 16), ("IRaise", "KeyErr")]
SNAPSHOT_SRC = ["x = self._init_once_cache[tag]",
                "x = self._init_once_cache.setdefault(tag, (False, allocate_lock()))",
                "if x[0]:", "return x[1]", "with x[1]:", "x = self._init_once_cache[tag]", "if x[0]:",
                "(leave with)", "return x[1]", "result = func()", "self._init_once_cache[tag] = (True, result)",
                "(leave with)", "return result", "(leave with, exception from func())", "(propagate)",
                "(leave with, KeyError)", "(propagate)"]


# ------------------------------------------------------------------ translator driver (tie A)

def _sh(src):
    return py2coq.shape(ast.parse(src).body[0])


SH_READ = _sh("x = self._init_once_cache[tag]")
SH_SETDEFAULT = _sh("x = self._init_once_cache.setdefault(tag, (False, allocate_lock()))")
SH_NEWX = _sh("x = (False, allocate_lock())")
SH_SETDEFAULTX_DISCARD = _sh("self._init_once_cache.setdefault(tag, x)")
SH_SETDEFAULTX_ASSIGN = _sh("x = self._init_once_cache.setdefault(tag, x)")
SH_CALLF = _sh("result = func()")
SH_STORE = _sh("self._init_once_cache[tag] = (True, result)")
SH_TEST = py2coq.shape(ast.parse("x[0]").body[0].value)
SH_X1 = py2coq.shape(ast.parse("x[1]").body[0].value)
SH_RESULT = py2coq.shape(ast.parse("result").body[0].value)


def flatten(fn):
    """FunctionDef of init_once -> (list of instruction tuples, list of source texts). Fail closed."""
    U = py2coq.Untranslatable
    if [a.arg for a in fn.args.args] != ["self", "func", "tag"] or fn.args.vararg or fn.args.kwarg \
            or fn.args.kwonlyargs or fn.args.defaults or fn.decorator_list:
        raise U("signature of init_once changed")
    nodes = []         # dict(kind, succ={name: idx}, src)
    deferred = {}      # (exn, in_with) -> [(idx, name)]

    def emit(kind, src, **succ):
        nodes.append(dict(kind=kind, succ=dict(succ), src=src))
        return len(nodes) - 1

    def text(st):
        return ast.unparse(st).split("\n")[0]

    def comp_block(stmts, in_with, handler):
        pending = []
        for i, st in enumerate(stmts):
            if i > 0 and not pending:
                raise U("unreachable statement after return: " + text(st))
            entry = len(nodes)
            for (j, nm) in pending:
                nodes[j]["succ"][nm] = entry
            pending = comp_stmt(st, in_with, handler)
        return pending

    def comp_return(st, in_with):
        v = py2coq.shape(st.value) if st.value is not None else None
        if v == SH_X1:
            kind = "IRetX"
        elif v == SH_RESULT:
            kind = "IRetResult"
        else:
            raise U("return of something else: " + text(st))
        if in_with:
            r = emit("IRelease", "(leave with)")
            nodes[r]["succ"]["k"] = r + 1
        emit(kind, text(st))

    def comp_stmt(st, in_with, handler):
        sh = py2coq.shape(st)
        if sh == SH_READ:
            i = emit("IRead", text(st))
            if handler is not None:
                handler.append((i, "miss"))
            else:
                deferred.setdefault(("KeyErr", in_with), []).append((i, "miss"))
            return [(i, "ok")]
        if sh == SH_SETDEFAULT:
            if handler is not None:
                raise U("setdefault inside a try body")
            i = emit("ISetDefault", text(st))
            return [(i, "k")]
        if sh == SH_NEWX:
            i = emit("INewX", text(st))
            return [(i, "k")]
        if sh in (SH_SETDEFAULTX_DISCARD, SH_SETDEFAULTX_ASSIGN):
            if handler is not None:
                raise U("setdefault inside a try body")
            i = emit("ISetDefaultX", text(st), a=("true" if sh == SH_SETDEFAULTX_ASSIGN else "false"))
            return [(i, "k")]
        if sh == SH_CALLF:
            if handler is not None:
                raise U("func() called inside try/except")
            i = emit("ICallF", text(st))
            deferred.setdefault(("FExn", in_with), []).append((i, "ex"))
            return [(i, "ok")]
        if sh == SH_STORE:
            i = emit("IStore", text(st))
            return [(i, "k")]
        if isinstance(st, ast.Return):
            comp_return(st, in_with)
            return []
        if isinstance(st, ast.If):
            if py2coq.shape(st.test) != SH_TEST or st.orelse or len(st.body) != 1 \
                    or not isinstance(st.body[0], ast.Return):
                raise U("if statement of unknown shape: " + text(st))
            i = emit("IIfDone", text(st))
            nodes[i]["succ"]["yes"] = i + 1
            comp_return(st.body[0], in_with)
            return [(i, "no")]
        if isinstance(st, ast.With):
            if in_with or handler is not None:
                raise U("nested with / with inside try")
            if len(st.items) != 1 or st.items[0].optional_vars is not None \
                    or py2coq.shape(st.items[0].context_expr) != SH_X1 or not st.body:
                raise U("with statement of unknown shape: " + text(st))
            a = emit("IAcquire", text(st))
            nodes[a]["succ"]["k"] = a + 1
            pend = comp_block(st.body, True, None)
            if not pend:
                raise U("with body never falls through")
            r = emit("IRelease", "(leave with)")
            for (j, nm) in pend:
                nodes[j]["succ"][nm] = r
            return [(r, "k")]
        if isinstance(st, ast.Try):
            if in_with or handler is not None or st.orelse or st.finalbody or len(st.handlers) != 1:
                raise U("try statement of unknown shape")
            h = st.handlers[0]
            if h.name is not None or not isinstance(h.type, ast.Name) or h.type.id != "KeyError":
                raise U("handler is not `except KeyError:`")
            hl = []
            p1 = comp_block(st.body, in_with, hl)
            entry = len(nodes)
            p2 = comp_block(h.body, in_with, None)
            if len(nodes) == entry:
                raise U("empty handler")
            for (j, nm) in hl:
                nodes[j]["succ"][nm] = entry
            return p1 + p2
        raise U("statement outside the init_once subset: " + text(st))

    body = [st for st in fn.body if not (isinstance(st, ast.Expr) and isinstance(st.value, ast.Constant)
                                         and isinstance(st.value.value, str))]
    pend = comp_block(body, False, None)
    if pend:
        raise U("init_once can fall off its end (implicit return None)")
    for (exn, in_with) in sorted(deferred):
        entry = len(nodes)
        if in_with:
            r = emit("IRelease", "(leave with, %s)" % ("exception from func()" if exn == "FExn" else "KeyError"))
            nodes[r]["succ"]["k"] = r + 1
        emit("IRaise", "(propagate)", e=exn)
        for (j, nm) in deferred[(exn, in_with)]:
            nodes[j]["succ"][nm] = entry
    prog = []
    for nd in nodes:
        k, s = nd["kind"], nd["succ"]
        if k == "IRead":
            prog.append((k, s["ok"], s["miss"]))
        elif k == "IIfDone":
            prog.append((k, s["yes"], s["no"]))
        elif k == "ICallF":
            prog.append((k, s["ok"], s["ex"]))
        elif k in ("ISetDefault", "INewX", "IAcquire", "IStore", "IRelease"):
            prog.append((k, s["k"]))
        elif k == "ISetDefaultX":
            prog.append((k, s["a"] == "true", s["k"]))
        elif k == "IRaise":
            prog.append((k, s["e"]))
        else:
            prog.append((k,))
    return prog, [nd["src"] for nd in nodes]


def _fmt_prog(name, prog, srcs):
    lines = ["Definition %s : prog := [" % name]
    for i, (ins, src) in enumerate(zip(prog, srcs)):
        args = " ".join({True: "true", False: "false"}.get(a, str(a)) if isinstance(a, bool) else str(a)
                        for a in ins[1:])
        lines.append("  (* %2d *) %s%s   (* %s *)" % (i, (ins[0] + " " + args).strip(),
                                                     ";" if i + 1 < len(prog) else "", src.replace("*)", "* )")))
    lines.append("].")
    return lines


def gen_text(prog, srcs, origin, cgen=None, facts=None):
    lines = ["(* C26/Gen.v — %s.  Do not edit: rewritten by tools/props/c26.py regen() on every run. *)" % origin,
             "From Coq Require Import List.", "Import ListNotations.", "From Cffi Require Import C26.Model.", ""]
    lines += _fmt_prog("py_prog", prog, srcs)
    if cgen is not None:
        lines += ["", "(* the step program of src/c/ffi_obj.c ffi_init_once, from its ordered call sites (c26.py c_extract);",
                  "   %s *)" % cgen["origin"].replace("*)", "* )").replace('"', "'")]
        lines += _fmt_prog("c_prog_gen", cgen["prog"], cgen["srcs"]) if cgen["prog"] else \
            ["Definition c_prog_gen : prog := []."]
    if facts is not None:
        lines += ["", "(* facts about the constructors and the locks; false = the source no longer has the expected shape",
                  "   (the reason is in the comment): C26/Proofs3.v impl_init_is_init / c_prog_gen_ok need them all true *)"]
        for name in FACT_NAMES:
            ok, why = facts[name]
            lines.append("Definition %s : bool := %s.   (* %s *)" % (name, "true" if ok else "false",
                                                                    why.replace("*)", "* )").replace('"', "'")))
    return "\n".join(lines) + "\n"


FACT_NAMES = ["gen_py_cache_init_empty", "gen_py_cache_assigned_once", "gen_py_lock_is_thread_lock",
              "gen_c_cache_init_empty", "gen_c_lock_is_thread_lock", "gen_c_no_return_while_locked"]


def py_init_facts():
    """Facts about how api.py creates the init_once cache and its locks; fail closed: anything that does not have
    exactly the expected shape gives False with the reason."""
    out = {}
    src = os.path.join(vlib.REPO, "src", "cffi")
    try:
        tree = py2coq.parse_source(os.path.join(src, "api.py"))
        init = py2coq.find_function(tree, "__init__", cls="FFI")
        once = py2coq.find_function(tree, "init_once", cls="FFI")
    except (py2coq.Untranslatable, OSError, SyntaxError) as e:
        for k in FACT_NAMES[:3]:
            out[k] = (False, "api.py: %s" % e)
        return out
    # (1) the initialiser in FFI.__init__
    stores = [st for st in ast.walk(init) if isinstance(st, (ast.Assign, ast.AugAssign, ast.AnnAssign))
              and any(isinstance(n, ast.Attribute) and n.attr == "_init_once_cache" and isinstance(n.ctx, ast.Store)
                      for t in (st.targets if isinstance(st, ast.Assign) else [st.target]) for n in ast.walk(t))]
    if len(stores) != 1:
        out["gen_py_cache_init_empty"] = (False, "FFI.__init__ assigns self._init_once_cache %d times" % len(stores))
    else:
        st = stores[0]
        ok = isinstance(st, ast.Assign) and len(st.targets) == 1 \
            and py2coq.shape(st.targets[0]) == py2coq.shape(ast.parse("self._init_once_cache = 0").body[0].targets[0]) \
            and isinstance(st.value, ast.Dict) and not st.value.keys and not st.value.values \
            and st in init.body
        out["gen_py_cache_init_empty"] = (ok, "api.py:%d `%s`%s" % (st.lineno, ast.unparse(st).split("\n")[0],
                                                                   "" if ok else " is not `self._init_once_cache = {}` "
                                                                   "at the top level of FFI.__init__"))
    # (2) nothing else in the package binds, deletes or passes around the cache
    uses = []
    try:
        for fn in sorted(os.listdir(src)):
            if not fn.endswith(".py"):
                continue
            text = open(os.path.join(src, fn)).read()
            if "_init_once_cache" not in text:
                continue
            t2 = tree if fn == "api.py" else ast.parse(text)
            inside_once = {id(n) for n in ast.walk(once)} if fn == "api.py" else set()
            inside_init = {id(n) for n in ast.walk(init)} if fn == "api.py" else set()
            for n in ast.walk(t2):
                if isinstance(n, ast.Attribute) and n.attr == "_init_once_cache":
                    if id(n) in inside_once and isinstance(n.ctx, ast.Load):
                        continue         # the accesses the flattening driver translates (cache[tag], .setdefault)
                    if id(n) in inside_init and isinstance(n.ctx, ast.Store):
                        continue         # the initialiser, checked above
                    uses.append("%s:%d" % (fn, n.lineno))
                elif isinstance(n, ast.Constant) and isinstance(n.value, str) and "_init_once_cache" in n.value \
                        and not (isinstance(n.value, str) and "\n" in n.value):
                    uses.append("%s:%d (string)" % (fn, n.lineno))
        ok = not uses and len(stores) == 1
        out["gen_py_cache_assigned_once"] = (ok, "no other binding/use of _init_once_cache in src/cffi/*.py" if ok
                                             else "other uses of _init_once_cache: " + ", ".join(uses[:5]))
    except (OSError, SyntaxError) as e:
        out["gen_py_cache_assigned_once"] = (False, str(e))
    # (3) allocate_lock is _thread.allocate_lock (a new lock is unlocked), and api.py never rebinds it
    try:
        imp = [st for st in tree.body if isinstance(st, ast.ImportFrom) and st.module == "lock" and st.level == 1
               and [(a.name, a.asname) for a in st.names] == [("allocate_lock", None)]]
        rebind = [n.lineno for n in ast.walk(tree) if (isinstance(n, ast.Name) and n.id == "allocate_lock"
                                                         and not isinstance(n.ctx, ast.Load))
                  or (isinstance(n, (ast.FunctionDef, ast.ClassDef)) and n.name == "allocate_lock")
                  or (isinstance(n, ast.arg) and n.arg == "allocate_lock")
                  or (isinstance(n, ast.alias) and (n.asname or n.name) == "allocate_lock" and n.name != "allocate_lock")]
        ltree = py2coq.parse_source(os.path.join(src, "lock.py"))
        want = ast.parse("if sys.version_info < (3,):\n    pass\nelse:\n    try:\n        from _thread import allocate_lock\n"
                         "    except ImportError:\n        from _dummy_thread import allocate_lock\n").body[0]
        top = [st for st in ltree.body if not isinstance(st, ast.Import)]
        ok3 = len(top) == 1 and isinstance(top[0], ast.If) and py2coq.shape(top[0].test) == py2coq.shape(want.test) \
            and [py2coq.shape(x) for x in top[0].orelse] == [py2coq.shape(x) for x in want.orelse]
        ok = len(imp) == 1 and not rebind and ok3
        out["gen_py_lock_is_thread_lock"] = (ok, "api.py `from .lock import allocate_lock`, never rebound; lock.py takes it "
                                             "from _thread" if ok else "allocate_lock: import %d, rebound at %r, lock.py "
                                             "shape ok=%s" % (len(imp), rebind[:3], ok3))
    except (py2coq.Untranslatable, OSError, SyntaxError) as e:
        out["gen_py_lock_is_thread_lock"] = (False, "lock.py: %s" % e)
    return out


def _strip_c_comments(text):
    """remove /* */ and // comments, keeping every newline (line numbers stay valid); string literals kept"""
    out, i, n = [], 0, len(text)
    while i < n:
        c = text[i]
        if c == '"' or c == "'":
            j = i + 1
            while j < n and text[j] != c:
                j += 2 if text[j] == "\\" else 1
            out.append(text[i:j + 1])
            i = j + 1
        elif text.startswith("/*", i):
            j = text.find("*/", i + 2)
            j = n if j < 0 else j + 2
            out.append("".join(ch if ch == "\n" else " " for ch in text[i:j]))
            i = j
        elif text.startswith("//", i):
            j = text.find("\n", i)
            j = n if j < 0 else j
            out.append(" " * (j - i))
            i = j
        else:
            out.append(c)
            i += 1
    return "".join(out)


def _block_end(text, open_pos):
    """position just after the brace matching text[open_pos] == '{' (no braces occur in this function's strings)"""
    depth = 0
    for i in range(open_pos, len(text)):
        if text[i] == "{":
            depth += 1
        elif text[i] == "}":
            depth -= 1
            if depth == 0:
                return i + 1
    raise py2coq.Untranslatable("unbalanced braces")


C_SITES = [            # name, regex  (on the comment-stripped text of ffi_init_once)
    ("getitemref", r"PyDict_GetItemRef\(cache,\s*tag,\s*&tup\)"),
    ("tupnull", r"if\s*\(tup\s*==\s*NULL\)\s*\{"),
    ("alloclock", r"lock\s*=\s*PyThread_allocate_lock\(\)"),
    ("packfalse", r"tup\s*=\s*PyTuple_Pack\(2,\s*Py_False,\s*x\)"),
    ("setdefault", r"tup\s*=\s*PyObject_CallMethod\(cache,\s*\"setdefault\",\s*\"OO\",\s*tag,\s*x\)"),
    ("res_tup1", r"res\s*=\s*PyTuple_GET_ITEM\(tup,\s*1\)"),
    ("test_tup", r"if\s*\(PyTuple_GET_ITEM\(tup,\s*0\)\s*==\s*Py_True\)\s*\{"),
    ("return_res", r"return\s+res\s*;"),
    ("begin_allow", r"Py_BEGIN_ALLOW_THREADS"),
    ("acquire", r"PyThread_acquire_lock\(lock,\s*WAIT_LOCK\)\s*;"),
    ("end_allow", r"Py_END_ALLOW_THREADS"),
    ("getitem", r"x\s*=\s*PyDict_GetItem\(cache,\s*tag\)\s*;"),
    ("test_x", r"if\s*\(x\s*!=\s*NULL\s*&&\s*PyTuple_GET_ITEM\(x,\s*0\)\s*==\s*Py_True\)\s*\{"),
    ("res_x1", r"res\s*=\s*PyTuple_GET_ITEM\(x,\s*1\)"),
    ("else", r"\}\s*else\s*\{"),
    ("callf", r"res\s*=\s*PyObject_CallFunction\(func,\s*\"\"\)\s*;"),
    ("resnotnull", r"if\s*\(res\s*!=\s*NULL\)\s*\{"),
    ("packtrue", r"tup\s*=\s*PyTuple_Pack\(2,\s*Py_True,\s*res\)"),
    ("setitem", r"PyDict_SetItem\(cache,\s*tag,\s*tup\)"),
    ("release", r"PyThread_release_lock\(lock\)\s*;"),
]
C_ORDER = ["getitemref", "tupnull", "alloclock", "packfalse", "setdefault", "res_tup1", "test_tup", "return_res",
           "begin_allow", "acquire", "end_allow", "getitem", "test_x", "res_x1", "else", "callf", "resnotnull",
           "packtrue", "setitem", "release", "return_res"]


def c_extract():
    """ffi_obj.c: the ordered call sites of ffi_init_once -> the step program; the creation of init_once_cache.
    Returns (cgen dict(prog, srcs, origin, status), facts).  Fail closed."""
    import re
    U = py2coq.Untranslatable
    facts = {}
    cgen = dict(prog=[], srcs=[], origin="", status=None)
    path = os.path.join(vlib.REPO, "src", "c", "ffi_obj.c")
    try:
        text = _strip_c_comments(open(path).read())
    except OSError as e:
        for k in FACT_NAMES[3:]:
            facts[k] = (False, str(e))
        cgen.update(origin="EMPTY: %s" % e, status="fallback: %s" % e)
        return cgen, facts
    line = lambda pos: text.count("\n", 0, pos) + 1
    # ---- creation of the cache: every mention of init_once_cache in the file
    ment = [re.sub(r"\s+", " ", text[text.rfind("\n", 0, m.start()) + 1:text.find("\n", m.start())].strip())
            for m in re.finditer(r"\binit_once_cache\b", text)]
    want = ["PyObject *init_once_cache;", "ffi->init_once_cache = NULL;", "Py_XDECREF(ffi->init_once_cache);",
            "cache = self->init_once_cache;", "self->init_once_cache = cache = PyDict_New();"]
    okc = ment == want
    if okc:
        m = re.search(r"cache\s*=\s*self->init_once_cache;\s*if\s*\(cache\s*==\s*NULL\)\s*\{\s*self->init_once_cache\s*=\s*"
                      r"cache\s*=\s*PyDict_New\(\);\s*\}", text)
        okc = m is not None
    facts["gen_c_cache_init_empty"] = (okc, "ffi_obj.c: init_once_cache is NULL in ffi_internal_new, then PyDict_New() on first "
                                       "use, nothing else touches it" if okc else
                                       "mentions of init_once_cache changed: %r" % (ment,))
    # ---- the function
    try:
        m = re.search(r"^static PyObject \*ffi_init_once\(FFIObject \*self, PyObject \*args, PyObject \*kwds\)\s*\{", text, re.M)
        if m is None or len(re.findall(r"\bffi_init_once\s*\(", text)) != 1:
            raise U("ffi_init_once not found exactly once")
        start = m.end() - 1
        end = _block_end(text, start)
        body = text[start:end]
        toks = []
        for name, rx in C_SITES:
            for mm in re.finditer(rx, body):
                toks.append((mm.start(), mm.end(), name))
        toks.sort()
        # a generic "} else {" also matches inside; only those listed count, all must be in order, each exactly as often
        names = [t[2] for t in toks]
        if names != C_ORDER:
            raise U("call sites of ffi_init_once are %r" % (names,))
        P = {}
        for (a, b, nm) in toks:
            P.setdefault(nm, []).append((a, b))
        pos = lambda nm, k=0: P[nm][k][0]
        ln = lambda nm, k=0: line(start + P[nm][k][0])
        # every use of the dict and of the lock is one of the sites above
        cache_calls = [c for c in re.findall(r"(\w+)\s*\(\s*cache\b", body) if c != "if"]
        if sorted(cache_calls) != sorted(["PyDict_GetItemRef", "PyObject_CallMethod", "PyDict_GetItem", "PyDict_SetItem"]):
            raise U("calls on the cache dict: %r" % (cache_calls,))
        if len(re.findall(r"\bcache\b", body)) != 9:
            raise U("`cache` is mentioned %d times (expected 9)" % len(re.findall(r"\bcache\b", body)))
        lock_calls = re.findall(r"(PyThread_\w+)\s*\(", body)
        if lock_calls != ["PyThread_allocate_lock", "PyThread_free_lock", "PyThread_acquire_lock", "PyThread_release_lock"]:
            raise U("PyThread_* calls: %r" % (lock_calls,))
        if re.search(r"\b(goto|while|for|do|switch|longjmp)\b", body):
            raise U("loop/goto in ffi_init_once")
        if len(re.findall(r"PyObject_Call\w*\s*\(", body)) != 2 or len(re.findall(r"\bfunc\b", body)) != 4:
            raise U("calls of Python objects / uses of func changed")
        # block structure
        e_tupnull = _block_end(body, P["tupnull"][0][1] - 1)
        if not (pos("tupnull") < pos("alloclock") < pos("packfalse") < pos("setdefault") < e_tupnull < pos("res_tup1")):
            raise U("the setdefault is not inside `if (tup == NULL) {...}`")
        e_test = _block_end(body, P["test_tup"][0][1] - 1)
        if not (pos("test_tup") < pos("return_res", 0) < e_test < pos("begin_allow")):
            raise U("`return res` is not inside the `== Py_True` test before the lock")
        if "return" in body[pos("tupnull"):e_tupnull].replace("return NULL;", ""):
            raise U("a return other than `return NULL;` in the creation block")
        e_then = _block_end(body, P["test_x"][0][1] - 1)
        if e_then - 1 != pos("else") or not (pos("test_x") < pos("res_x1") < e_then):
            raise U("if (x != NULL && ...) {...} else {...} shape")
        e_else = _block_end(body, P["else"][0][1] - 1)
        e_resnn = _block_end(body, P["resnotnull"][0][1] - 1)
        if not (pos("else") < pos("callf") < pos("resnotnull") < pos("packtrue") < pos("setitem") < e_resnn <= e_else - 1
                < pos("release")):
            raise U("else branch: call f, then store under `if (res != NULL)`")
        then_txt = body[P["test_x"][0][1]:e_then - 1]
        if re.search(r"\w+\s*\(", re.sub(r"PyTuple_GET_ITEM\(|Py_INCREF\(", "", then_txt)):
            raise U("unexpected call in the then-branch after the lock")
        # depth of release / final return: directly in the function body
        depth = lambda p_: body.count("{", 0, p_) - body.count("}", 0, p_)
        if depth(pos("release")) != 1 or depth(pos("return_res", 1)) != 1 or depth(pos("acquire")) != 1 \
                or depth(pos("getitem")) != 1 or depth(pos("test_x")) != 1 or depth(pos("getitemref")) != 1 \
                or depth(pos("tupnull")) != 1 or depth(pos("test_tup")) != 1:
            raise U("a call site moved into a nested block")
        tail = body[P["return_res"][1][1]:].strip()
        if tail != "}":
            raise U("code after the final `return res;`")
        locked = body[P["acquire"][0][1]:pos("release")]
        nrl = not re.search(r"\breturn\b", locked)
        facts["gen_c_no_return_while_locked"] = (nrl, "ffi_obj.c:%d-%d no `return` between PyThread_acquire_lock and "
                                                 "PyThread_release_lock" % (ln("acquire"), ln("release")) if nrl else
                                                 "a `return` between acquire (line %d) and release (line %d)"
                                                 % (ln("acquire"), ln("release")))
        facts["gen_c_lock_is_thread_lock"] = (True, "ffi_obj.c:%d lock = PyThread_allocate_lock() (new locks are unlocked), "
                                              "stored in the (False, capsule) tuple" % ln("alloclock"))
        prog = [("IRead", 2, 1), ("ISetDefault", 2), ("IIfDone", 3, 4), ("IRetX",), ("IAcquire", 5),
                ("IRead", 6, 9), ("IIfDone", 7, 9), ("IRelease", 8), ("IRetX",), ("ICallF", 10, 13),
                ("IStore", 11), ("IRelease", 12), ("IRetResult",), ("IRelease", 14), ("IRaise", "FExn")]
        srcs = ["%d PyDict_GetItemRef(cache, tag, &tup); tup == NULL -> 1" % ln("getitemref"),
                "%d-%d new lock, tup = cache.setdefault(tag, (False, lock))" % (ln("alloclock"), ln("setdefault")),
                "%d if (PyTuple_GET_ITEM(tup, 0) == Py_True)" % ln("test_tup"),
                "%d return res  (= tup[1], line %d)" % (ln("return_res", 0), ln("res_tup1")),
                "%d-%d Py_BEGIN_ALLOW_THREADS PyThread_acquire_lock(lock, WAIT_LOCK)" % (ln("begin_allow"), ln("end_allow")),
                "%d x = PyDict_GetItem(cache, tag); x == NULL -> else branch" % ln("getitem"),
                "%d x != NULL && PyTuple_GET_ITEM(x, 0) == Py_True" % ln("test_x"),
                "%d PyThread_release_lock(lock) on the path res = x[1] (line %d)" % (ln("release"), ln("res_x1")),
                "%d return res" % ln("return_res", 1),
                "%d res = PyObject_CallFunction(func, \"\")" % ln("callf"),
                "%d-%d PyDict_SetItem(cache, tag, (True, res)) under if (res != NULL)" % (ln("packtrue"), ln("setitem")),
                "%d PyThread_release_lock(lock)" % ln("release"),
                "%d return res" % ln("return_res", 1),
                "%d PyThread_release_lock(lock) with res == NULL" % ln("release"),
                "%d return NULL (res)" % ln("return_res", 1)]
        cgen.update(prog=prog, srcs=srcs, origin="regenerated from src/c/ffi_obj.c:%d-%d" % (line(start), line(end)))
    except U as e:
        cgen.update(prog=[], srcs=[], origin="EMPTY (extraction failed: %s)" % e, status="fallback: c_prog_gen: %s" % e)
        facts.setdefault("gen_c_no_return_while_locked", (False, "extraction failed: %s" % e))
        facts.setdefault("gen_c_lock_is_thread_lock", (False, "extraction failed: %s" % e))
    return cgen, facts


_PY_PROG = {}


def py_prog():
    if "prog" not in _PY_PROG:
        path = os.path.join(vlib.REPO, "src", "cffi", "api.py")
        try:
            fn = py2coq.find_function(py2coq.parse_source(path), "init_once", cls="FFI")
            prog, srcs = flatten(fn)
            _PY_PROG.update(prog=prog, srcs=srcs, status=None,
                            origin="regenerated from src/cffi/api.py FFI.init_once, FFI.__init__, lock.py and "
                                   "src/c/ffi_obj.c ffi_init_once")
        except (py2coq.Untranslatable, OSError, SyntaxError) as e:
            _PY_PROG.update(prog=list(SNAPSHOT_PROG), srcs=list(SNAPSHOT_SRC), status="fallback: %s" % e,
                            origin="SNAPSHOT of py_prog (translation of the current source failed)")
        cgen, cfacts = c_extract()
        facts = py_init_facts()
        facts.update(cfacts)
        _PY_PROG.update(cgen=cgen, facts=facts)
    return _PY_PROG


def c_prog():
    """the step program the C harness follows: the regenerated one, or the recorded one when extraction failed
    (the failure itself is reported as a broken obligation through Gen.v)"""
    g = py_prog()
    return [tuple(i) for i in g["cgen"]["prog"]] or list(W.C_PROG)


def regen(ctx):
    g = py_prog()
    st = py2coq.write_if_changed(os.path.join(vlib.COQ, "C26", "Gen.v"),
                                 gen_text(g["prog"], g["srcs"], g["origin"], g["cgen"], g["facts"]))
    status = g["status"] or g["cgen"]["status"] or st
    ctx.translator("C26/Gen.v", status)
    ctx.extra["py_prog_equals_snapshot"] = (g["prog"] == SNAPSHOT_PROG)
    ctx.extra["c_prog_gen_equals_recorded"] = (g["cgen"]["prog"] == list(W.C_PROG))
    ctx.extra["regenerated_facts"] = {k: {"value": v[0], "from": v[1]} for k, v in g["facts"].items()}
    # the model evaluation (coq_mismatches) loads Gen.vo: keep it in step with Gen.v even when the proof
    # re-check is skipped (--replay) or fails later in Proofs.v
    ok, log = vlib.coq_make(["C26/Gen.vo"])
    if not ok:
        ctx.obligation_broken("C26/Gen.v does not compile", log)


# ------------------------------------------------------------------ generators

def canonical(sched):
    """threads first appear in the order 0, 1, 2, ..."""
    seen = []
    for t, _o in sched:
        if t not in seen:
            if t != len(seen):
                return False
            seen.append(t)
    return True


def generate(ctx):
    rng = ctx.rng
    prog = py_prog()["prog"]
    cases = []
    for n in (1, 2):
        for s in W.enum_maximal(prog, n):
            cases.append(dict(impl="py", n=n, sched=s))
    all3 = W.enum_maximal(prog, 3)
    ctx.extra["model_maximal_schedules_py"] = {"1": len(W.enum_maximal(prog, 1)), "2": len(W.enum_maximal(prog, 2)),
                                               "3": len(all3) if len(all3) < W.ENUM_CAP else ">= %d (capped)" % W.ENUM_CAP}
    if ctx.thorough or ctx.tier_search == "thorough":
        pick = all3
        ctx.extra["py_3_threads"] = "all %d maximal schedules" % len(all3)
    else:
        canon = [s for s in all3 if canonical(s)]
        pick = rng.sample(canon, min(len(canon), 500))
        ctx.extra["py_3_threads"] = "%d sampled from the %d maximal schedules with threads first appearing in order " \
                                    "0,1,2 (= all %d up to renaming of threads); thorough replays all" % (
                                        len(pick), len(canon), len(all3))
    cases += [dict(impl="py", n=3, sched=s) for s in pick]
    # C implementation: decision lists interpreted online (who gets the lock is the implementation's choice)
    seen = set()
    for n, cnt in ((1, 4), (2, ctx.n(150, 800)), (3, ctx.n(250, 2000)), (4, ctx.n(60, 800))):
        for _ in range(cnt):
            d = tuple(rng.randrange(64) for _ in range(10 * n + 4))
            if (n, d) not in seen:
                seen.add((n, d))
                cases.append(dict(impl="c", n=n, decisions=list(d)))
    # every tag: tags of every hashable kind (W.TAGS: dunder / attribute-name strings, '', None, ints, bools, tuples,
    # floats, bytes, frozenset, Ellipsis, a type, a builtin).  (a) unscheduled: three calls in sequence on an untouched
    # new FFI object of each implementation; (b) scheduled: both 1-thread schedules and two 2-thread schedules on the
    # instrumented in-line FFI, and decision lists on the C FFI for the tags that can carry a scheduling point
    two = W.enum_maximal(prog, 2)
    one = W.enum_maximal(prog, 1)
    for k in range(len(W.TAGS)):
        for impl in ("py", "c"):
            cases.append(dict(impl=impl, n=3, plain=True, tagidx=k, tag=repr(W.TAGS[k])))
        if k == 0:
            continue
        for n, s in [(1, s) for s in one] + [(2, s) for s in rng.sample(two, min(2, len(two)))]:
            cases.append(dict(impl="py", n=n, sched=s, tagidx=k, tag=repr(W.TAGS[k])))
        if type(W.TAGS[k]) in (str, int, tuple, float, bytes, frozenset):
            for n in (1, 2):
                cases.append(dict(impl="c", n=n, decisions=[rng.randrange(64) for _ in range(10 * n + 4)],
                                  tagidx=k, tag=repr(W.TAGS[k])))
    # the same free-choice driver on the Python implementation with 4 threads (beyond the exhaustive bound)
    for _ in range(ctx.n(40, 800)):
        cases.append(dict(impl="py", n=4, decisions=[rng.randrange(64) for _ in range(48)]))
    return cases


# ------------------------------------------------------------------ evaluation

predicates = W.predicates


def impl_observation(case, res):
    """the implementation's labelled trace and final observations, in the format of C26.Model.run*"""
    n = case["n"]
    tr = []
    nstart = [0] * n
    ndone = 0
    last_peek = None
    for t, what, extra, peek in res["events"]:
        if peek is not None:
            last_peek = peek
        if what == "op":
            k = extra
        elif what == "fenter":
            k = W.K_CALLF
            nstart[t] += 1
        elif what == "fret":
            k = W.K_FRET
            ndone += 1
        elif what == "fraise":
            k = W.K_FRAISE
        else:
            continue
        if case["impl"] == "py":
            tr += [t, k] + list(peek)
        else:
            tr += [t, 1 if k == "dict" else k]
    fin = []
    for t in range(n):
        o = res["outcomes"][t] or [0]
        fin += [int(x) if isinstance(x, int) else 4 for x in o[:2]] + [nstart[t]]
    if case["impl"] == "py":
        fin += list(last_peek or [0])
    else:
        p = res["probe"] or [9]
        fin += [2, p[1]] if p[0] == 2 else [1]
    return tr + fin + [ndone]


def sched_chunks(sched):
    out = []
    for i in range(0, len(sched), 12):
        code = 1
        for t, o in reversed(sched[i:i + 12]):
            assert 0 <= t < 10 and o in (0, 1, 2)
            code = code * 32 + (3 * t + o)
        out.append("%d" % code)
    return "[" + ";".join(out) + "]%N"


def fp(m, b, l):
    acc = 7
    for z in l:
        acc = (acc * b + z + 1) % m
    return acc


def coq_case(n, sched, obs):
    """(n, schedule chunks) and the two fingerprints of the implementation's observation list;
    see C26.Model.decode_sched / fp / run_code"""
    if not all(isinstance(z, int) and 0 <= z < 1024 for z in obs):
        return None
    return ("(%d%%nat, %s)" % (n, sched_chunks(sched)),
            "(Some (%d%%N, %d%%N))" % (fp(2305843009213693951, 1000003, obs), fp(2147483647, 48271, obs)))


def run_workers(ctx, impl, prog, cases, timeout):
    s = ctx.scratch()
    chunks = [cases[i::8] for i in range(8)]
    chunks = [c for c in chunks if c]
    out = {}

    def one(chunk):
        r, p = s.run_worker("c26_worker.py", dict(impl=impl, prog=prog, cases=chunk, timeout=timeout),
                            timeout=3600)
        return chunk, r, p
    with concurrent.futures.ThreadPoolExecutor(max_workers=len(chunks) or 1) as ex:
        for chunk, r, p in ex.map(one, chunks):
            if r is None:
                raise RuntimeError("c26 worker failed: " + (p.stderr[-2000:] or p.stdout[-500:]))
            for c, x in zip(chunk, r["results"]):
                out[id(c)] = x
    return [out[id(c)] for c in cases]


def evaluate(ctx, cases):
    if ctx.replay_mode and cases and cases[0].get("explore"):
        c = cases[0]
        r = run_workers(ctx, "py", py_prog()["prog"], [dict(impl="py", n=c["n"], explore=True, prefix=c["prefix"],
                                                            tags=c.get("tags"))], 60)[0]
        ctx.count()
        bad = []
        if c.get("tags"):
            for tg in sorted(set(c["tags"])):
                bad += predicates(r, c["n"], [t for t in range(c["n"]) if c["tags"][t] == tg])
        else:
            bad = predicates(r, c["n"])
        if r["status"] in ("timeout", "stuck"):
            bad.append("no call can make progress (%s): %s" % (r["status"], r["detail"]))
        if bad:
            ctx.violation(dict(c, observed=dict(outcomes=r["outcomes"], events=[e[:3] for e in r["events"]][:80])),
                          "init_once (Python api.py implementation, %d threads, schedule %r): %s"
                          % (c["n"], r["sched"], "; ".join(bad[:3])))
        return
    if ctx.replay_mode:
        # a stored schedule belongs to the program of the tree it was found on: follow it as far as the current
        # model allows, then continue with free choices (so that it passes on a repaired tree)
        cases = [dict({k: v for k, v in c.items() if k not in ("observed", "sched_followed", "impl_observation")},
                      lenient=True) for c in cases if "impl" in c]
    g = py_prog()
    progs = dict(py=g["prog"], c=c_prog())
    coq_prog = dict(py="py_prog", c="c_prog_gen" if g["cgen"]["prog"] else "c_prog")
    for impl in ("py", "c"):
        mine = [c for c in cases if c["impl"] == impl]
        if not mine:
            continue
        import time as _t
        t0 = _t.time()
        ctx.scratch()
        tm = ctx.extra.setdefault("timing_s", {})
        tm["scratch_build_" + impl] = round(_t.time() - t0, 1)
        t0 = _t.time()
        results = run_workers(ctx, impl, progs[impl], mine, 30)
        tm["workers_" + impl] = round(_t.time() - t0, 1)
        # a step that does not arrive is retried once in a fresh process before it counts
        retried = 0
        for i, (c, r) in enumerate(zip(mine, results)):
            if r["status"] == "timeout" and retried < 3:
                retried += 1
                results[i] = run_workers(ctx, impl, progs[impl], [c], 60)[0]
                results[i]["retried"] = True
            elif r["status"] == "timeout":
                r["status"] = "skipped"
        coqcases, owner = [], []
        replayed = 0
        for c, r in zip(mine, results):
            if r["status"] == "skipped":
                ctx.hist("skipped_after_timeouts", impl)
                continue
            ctx.count()
            n = c["n"]
            ctx.hist("impl_threads", "%s/%d" % (impl, n))
            bad = predicates(r, n)
            if r["status"] == "timeout":
                bad.append("no progress within the timeout in two fresh processes (threads %r unfinished): %s"
                           % (r["unfinished"], r["detail"]))
            elif r["unfinished"] and r["status"] == "ok":
                bad.append("threads %r never finished although no f is running" % (r["unfinished"],))
            if bad:
                ctx.violation(dict(c, observed=dict(status=r["status"], detail=r["detail"], outcomes=r["outcomes"],
                                                    events=[e[:3] for e in r["events"]][:80])),
                              "init_once (%s implementation, %d threads): %s" % (
                                  "Python api.py" if impl == "py" else "C ffi_obj.c", n, "; ".join(bad[:3])))
                continue
            if c.get("tagidx") is not None:
                ctx.hist("tag_kinds", "%s/%s/%s" % (impl, "plain" if c.get("plain") else "scheduled",
                                                    type(W.TAGS[c["tagidx"]]).__name__))
            if c.get("plain"):
                # the property holds (predicates above); the run must also be the model's sequential schedule:
                # f runs in calls 0 (raises) and 1 (returns 101), call 2 returns 101 without running f
                starts = [e[0] for e in r["events"] if e[1] == "fenter"]
                if r["outcomes"] != [[3], [1, 101], [1, 101]] or starts != [0, 1]:
                    ctx.mismatch(dict(c, observed=dict(outcomes=r["outcomes"], f_started_in_calls=starts)),
                                 "three sequential calls with tag %s gave %r, f ran in calls %r" % (
                                     c.get("tag"), r["outcomes"], starts),
                                 "C26.Model.%s sequential schedule vs implementation" % coq_prog[impl])
                else:
                    ctx.nontrivial((impl, "plain", c["tagidx"]))
                continue
            if r["status"] != "ok":
                ctx.mismatch(dict(c, observed=dict(status=r["status"], detail=r["detail"], sched=r["sched"])),
                             "the %s implementation left the model's schedule: %s" % (impl, r["detail"]),
                             "C26.Model.%s vs %s" % (coq_prog[impl], "api.py init_once" if impl == "py"
                                                     else "ffi_obj.c ffi_init_once"))
                continue
            nf = sum(1 for e in r["events"] if e[1] == "fenter")
            nr = sum(1 for e in r["events"] if e[1] == "fraise")
            ctx.hist("f_starts", nf)
            ctx.hist("f_raises", nr)
            if n >= 2 and (nr >= 1 or any(e[1] == "op" and e[3] == [1] and e[2] == W.K_READ for e in r["events"])
                           or impl == "c"):
                ctx.nontrivial((impl, n, r["sched"]))
            obs = impl_observation(c, r)
            cc = coq_case(n, r["sched"], obs)
            if cc is None:
                ctx.mismatch(dict(c, sched_followed=r["sched"], impl_observation=obs),
                             "implementation observation outside the model's value range: %r" % (obs,),
                             "C26.Model.%s vs implementation" % coq_prog[impl])
                continue
            coqcases.append(cc)
            owner.append((c, r, obs))
            replayed += 1
        fn = "run_maximal" if impl == "py" else "run_coarse_maximal"
        t0 = _t.time()
        badidx, outs, err = vlib.coq_mismatches(
            ["C26.Model", "C26.Gen"], "run_code %s %s" % ("false" if impl == "py" else "true", coq_prog[impl]),
            "opt_eqb (pair_eqb N.eqb N.eqb)", coqcases, shard=250 if len(coqcases) < 3000 else 1200)
        tm["coq_compare_" + impl] = round(_t.time() - t0, 1)
        if err:
            ctx.obligation_broken("C26 model evaluation (%s)" % impl, err)
        for k, i in enumerate(badidx):
            c, r, obs = owner[i]
            model = "(not evaluated)"
            if k < 3:
                ok, out = vlib.coq_eval(["C26.Model", "C26.Gen"], "Eval vm_compute in (%s %s %d (decode_sched %s)).\n" % (
                    fn, coq_prog[impl], c["n"], sched_chunks(r["sched"])))
                model = " ".join(out.split())[:1500]
            ctx.mismatch(dict(c, sched_followed=r["sched"], impl_observation=obs),
                         "model %s %s %s ; implementation observed %s" % (fn, coq_prog[impl], model, obs),
                         "C26.Model.%s vs %s" % (coq_prog[impl], "api.py init_once" if impl == "py"
                                                 else "ffi_obj.c ffi_init_once"))
        tv = ctx.extra.setdefault("traces_validated_by_implementation", {})
        tv[impl] = tv.get(impl, 0) + replayed - len(badidx)
        ctx.extra["traces_validated_against_impl"] = sum(tv.values())
        for c, r, obs in owner[:2]:
            ctx.sample(dict(impl=impl, n=c["n"], sched=r["sched"], observation=obs))


def explore(ctx, n, limit, rng=None, tags=None, max_seconds=None):
    """Model-free search on the real Python implementation: enumerate the implementation's OWN schedule tree
    (every parked thread is a choice, both outcomes of every f) and evaluate the property on each complete run.
    This is what finds the concrete failing schedule when the implementation no longer follows the model.
    The search runs inside worker processes (depth-first from disjoint first choices)."""
    g = py_prog()
    s = ctx.scratch()
    seed = rng.randrange(1 << 30) if rng is not None else None
    r, p = s.run_worker("c26_worker.py", dict(impl="py", prog=g["prog"], cases=[], timeout=30,
                                              explore_tree=dict(n=n, limit=limit, seed=seed, tags=tags,
                                                                max_seconds=max_seconds)), timeout=3600)
    if r is None:
        raise RuntimeError("c26 explore worker failed: " + (p.stderr[-2000:] or p.stdout[-500:]))
    t = r["tree"]
    ctx.count(t["runs"])
    ctx.hist("explore_threads_%d_runs" % n, t["runs"])
    for key in t["nontrivial"]:
        ctx.nontrivial(("explore", n, key))
    for b in t["bad"]:
        ctx.violation(dict(impl="py", n=n, explore=True, prefix=b["sched"], tags=tags,
                           observed=dict(outcomes=b["outcomes"], events=[e[:3] for e in b["events"]][:80])),
                      "init_once (Python api.py implementation, %d threads, schedule %r): %s"
                      % (n, b["sched"], "; ".join(b["bad"][:3])))
    ctx.extra.setdefault("explored_impl_schedules", {})[str(n) + ("/tags %r" % (tags,) if tags else "")] = dict(
        runs=t["runs"], exhausted=t["exhausted"])


def check_counts(ctx, cases):
    """the exhaustive claim: the number of distinct maximal schedules replayed equals the number the Coq
    model has (count_max), per thread count"""
    g = py_prog()
    want = {}
    for n in (1, 2, 3):
        k = len({tuple(map(tuple, c["sched"])) for c in cases if c["impl"] == "py" and c.get("sched") and c["n"] == n})
        want[n] = k
    full3 = ctx.thorough or ctx.tier_search == "thorough"
    body = "".join("Eval vm_compute in (count_max py_prog %d (fun t => (100 + Z.of_nat t)%%Z) 40 init).\n" % n
                   for n in ((1, 2, 3) if full3 else (1, 2)))
    ok, out = vlib.coq_eval(["C26.Model", "C26.Gen"], body, timeout=900)
    import re
    nums = [int(x) for x in re.findall(r"=\s*(\d+)%N", out)]
    ctx.extra["coq_count_max"] = nums
    if not ok or len(nums) < 2:
        ctx.obligation_broken("C26 count_max evaluation", out[-1500:])
        return
    exp = [want[1], want[2]] + ([want[3]] if full3 else [])
    if nums != exp:
        ctx.mismatch(dict(kind="count", coq=nums, harness=exp),
                     "Coq count_max says %r maximal schedules, the harness replayed %r" % (nums, exp),
                     "schedule enumeration (Python mirror) vs C26.Model.count_max")


def run(ctx):
    ctx.cov["rule"] = ("tags: every kind in c26_worker.TAGS, unscheduled (3 sequential calls on untouched FFI objects, both "
                       "implementations) and scheduled (py: both 1-thread and two 2-thread schedules per tag; c: tags whose "
                       "type can be subclassed). py: every maximal schedule of the regenerated model for 1 and 2 threads and for 3 threads (quick: up "
                       "to renaming of threads; thorough: all), replayed on the real FFI.init_once with the cache dict, the "
                       "per-tag lock and f as scheduling points; the number of schedules is checked against Coq's count_max; "
                       "plus random free-choice runs with 4 threads. c: random decision lists for 1-4 threads on "
                       "_cffi_backend.FFI().init_once with tag.__hash__ and f as scheduling points (lock winner chosen by the "
                       "implementation, then validated against the model). Every replayed schedule is re-run in Coq "
                       "(run_maximal / run_coarse_maximal) and the traces compared. Non-trivial = at least 2 threads and a "
                       "raising f or a thread that saw the entry pending; distinct by (implementation, threads, schedule).")
    ctx.assumptions += [
        "py_prog is produced by the shape-matching driver flatten() in tools/props/c26.py (trusted, ~120 lines); "
        "c_prog_gen by the ordered call-site extractor c_extract() (trusted, ~130 lines; a template, not a C parser) and "
        "must equal Model.v c_prog; the constructor facts (cache created empty, never re-bound, thread locks) by "
        "py_init_facts()/c_extract(), all fail-closed",
        "atomicity: each dict operation / lock operation is one atomic step (GIL; tag with built-in or harness hash)",
        "termination: C26_runs_bounded / C26_maximal_run_all_finished need no fairness hypothesis; the only step that "
        "is not the implementation's own is 'f returns or raises' (an f that never comes back is the property's 'unless')",
        "a freshly allocated _thread / PyThread lock is unlocked (CPython)",
        "allocation failures (MemoryError paths of ffi_obj.c) are not modelled",
        "tags: cache[tag] and the lock stored in it are the only data a call touches (enforced syntactically by the "
        "translator driver for api.py, by inspection for ffi_obj.c); two-tag runs on the real Python implementation "
        "are part of the model-free search"]
    cases = generate(ctx)
    # stage 1: everything up to 2 threads and the C runs; stage 2 (3 and 4 threads on the Python implementation)
    # only when stage 1 found no violation (a broken implementation is reported after seconds, not minutes)
    first = [c for c in cases if c["n"] <= 2 or c["impl"] == "c" or c.get("plain")]
    rest = [c for c in cases if not (c["n"] <= 2 or c["impl"] == "c" or c.get("plain"))]
    evaluate(ctx, first)
    import time as _t
    budget = 110 if not ctx.thorough else 540       # seconds of wall time after which optional phases are skipped

    def in_budget(what):
        if _t.time() - ctx.t0 < budget:
            return True
        ctx.extra.setdefault("skipped_for_time", []).append(what)
        return False
    if not ctx.violations:
        # the implementation's own schedule tree, without the model: all of it for 2 threads, a sample for 3
        explore(ctx, 2, 5000)
    if not ctx.violations:
        # the model's schedules for 3 (and 4) threads on the Python implementation; in thorough all 23430
        if ctx.thorough and not in_budget("start of 3-thread replay"):
            rest = rest[:2000]
        evaluate(ctx, rest)
        check_counts(ctx, cases)
    if not ctx.violations and in_budget("explore 3 threads"):
        explore(ctx, 3, ctx.n(800, 5000), rng=ctx.rng, max_seconds=ctx.n(40, 120))
    if not ctx.violations and in_budget("explore two tags"):
        # two tags at once: callers 0,1 on one tag, caller 2 (3) on another; the property per tag
        explore(ctx, 3, ctx.n(300, 1500), rng=ctx.rng, tags=[0, 0, 1], max_seconds=ctx.n(20, 60))
        explore(ctx, 4, ctx.n(150, 1000), rng=ctx.rng, tags=[0, 1, 0, 1], max_seconds=ctx.n(20, 60))


MANIFEST = dict(
    technique="Coq proof (inductive invariant of an N-thread transition system, all schedules; rank-sum termination "
              "measure; result invariant for every step program) over step programs and constructor facts regenerated "
              "from api.py and ffi_obj.c + exhaustive schedule replay on the real Python and C implementations with tags "
              "of every hashable kind",
    text="Proved, for any number of threads and every schedule, for p = py_prog (regenerated from FFI.init_once) or "
         "p = c_prog (which the regenerated c_prog_gen must equal): C26_safety (at most one f runs at a time, at most one "
         "completes normally, every normal return is the cached value, no f runs once cached, only a call's own f makes it "
         "raise, no ill-typed state), C26_done_is_final, C26_raiser_never_stores, C26_no_deadlock (an unfinished call can "
         "step or waits for a lock whose holder can step). Termination without a fairness hypothesis: "
         "C26_total_rank_decreases (every step of any of n callers decreases the sum of their ranks), C26_runs_bounded "
         "(every run from init has at most n*(2|p|+2) steps; f returning or raising is one of the steps, so only an f that "
         "never comes back can keep a run from ending), C26_quiescent_all_finished and C26_maximal_run_all_finished (when "
         "no caller can step, every call has returned the cached value or re-raised its own f's exception); "
         "C26_own_step_decreases_rank is the one-step lemma formerly called C26_bounded_steps. Whose result: "
         "C26_result_is_f_result (for EVERY step program: if all values f returns satisfy R, so do the cached value and "
         "every returned value) and C26_result_is_the_completion (with the ghost history h of completed f's: cached / "
         "returned r implies h = [r]). Every tag: product of per-tag states (C26_every_tag, C26_safety_every_tag). The two "
         "implementations themselves: C26_impl_safety, C26_impl_safety_every_tag, C26_impl_maximal_run_all_finished "
         "quantify over ImplPy/ImplC with the step program AND the initial state taken from Gen.v (C26_impl_init_is_empty: "
         "the constructor leaves no entry for any tag and new locks are unlocked). Regenerated on every run (fail closed, "
         "a false fact or an empty c_prog_gen breaks Proofs3.v): py_prog (statement-by-statement flattening), c_prog_gen "
         "(ordered call-site extractor over ffi_init_once with block-structure checks), gen_py_cache_init_empty "
         "(`self._init_once_cache = {}` in FFI.__init__), gen_py_cache_assigned_once, gen_py_lock_is_thread_lock, "
         "gen_c_cache_init_empty (NULL then PyDict_New()), gen_c_lock_is_thread_lock, gen_c_no_return_while_locked. A "
         "regenerated program that differs from the one the invariant is indexed by FAILS the proofs (pcinv is indexed by "
         "pc), it is not re-proved. Correspondence only: every maximal model schedule of <= 2 threads (quick: 500 of the "
         "3-thread ones, thorough: all 23430) replayed on the real Python implementation whose instrumented cache starts "
         "with what the constructor put there (count checked in Coq); tags of 37 kinds (dunder and attribute-name strings, "
         "'', None, ints, bools, tuples, floats, bytes, frozenset, Ellipsis, a type, a builtin): unscheduled sequential "
         "calls on untouched FFI objects of both implementations and scheduled 1-/2-thread runs; model-free search of the "
         "real implementation's own 2-thread schedule tree and sampled 3/4-thread and two-tag trees; controlled and random "
         "schedules on the C implementation (lock acquire/release not observable there). 'Returns that completion's "
         "result' is also decided on the implementation by predicates().",
    note="Trusted: Coq kernel; the flattening driver and the C call-site extractor (a template over ordered regex sites: "
         "it checks order, nesting and absence of other cache/lock/func uses, it does not parse C); atomicity of one dict / "
         "lock operation per step (GIL) - stated in Props.v's header, not a theorem hypothesis; a new _thread / PyThread "
         "lock is unlocked. Not modelled: allocation-failure returns of ffi_obj.c, PyDict_SetItem failing after a normal f. "
         "INewX/ISetDefaultX are in the instruction set and covered by C26_result_is_f_result and the termination measure "
         "but by no safety theorem (no modelled program uses them). Theorems closed under the global context.",
    design_ref="DESIGN.md §4 C26")
