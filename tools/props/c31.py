"""C31 — comments, spacing and line directives do not change a cdef's meaning.

Ties (regen on /repo's working tree, the others on the scratch copy of it):
  regen : coq/C31/Gen.v from cparser.py (tools/props/c31_regen.py): regex sources, statement order of _preprocess and of
          the front part of Parser._parse (obligations C31_sources_pinned, C31_preprocess_order_tie, C31_parse_front_tie)
  regex : random texts through the real `_r_comment.sub(...)` / `_r_words.findall` vs the Coq scanners
          `sc` / `words` (coq/C31/Model.v)
  pre   : random directive/comment/#define soups through the real `cparser._preprocess` vs the Coq
          `preprocess` (text, macros dict, or the exception class of _put_back_line_directives)
  ctn   : random word soups through the real `cparser._common_type_names` vs C31.Order.common_type_names (the list of
          common types is read from the scratch build's cffi.commontypes)
  meta  : the property itself on the real parser: random valid cdefs x random insertions between
          tokens; declarations, constants, sizeof/offsets, emit_c_code()/emit_python_code() text of
          base and variant must be identical.  gcc -E -dD is asked whether base and variant are the
          same token sequence for a C compiler; a variant gcc does not consider equivalent is a
          generator error and is dropped (never an alarm).
"""
import concurrent.futures
import os
import re
import subprocess
import time

from lib import vlib, py2coq
from lib.vlib import cstr, clist, cpair, cn
from props import c31_regen

ID = "C31"


def regen(ctx):
    """coq/C31/Gen.v from /repo's cparser.py: regex pattern texts + flags, the statements of _preprocess,
    _remove/_put_back_line_directives, _common_type_names and of the front part of Parser._parse, in source order.
    Fail closed: when the source no longer has the expected shape the snapshot stays and run() reports a broken
    obligation."""
    path = os.path.join(vlib.COQ, "C31", "Gen.v")
    try:
        text = c31_regen.translate(vlib.REPO)
    except (c31_regen.RegenError, OSError) as e:
        ctx.translator("C31/Gen.v", "fallback: %s" % e)
        ctx.extra["c31_regen_error"] = str(e)
        return
    ctx.translator("C31/Gen.v", py2coq.write_if_changed(path, text))

# ----------------------------------------------------------------------------- random texts

REGEX_ALPHABETS = ["/*\\\n a", "/*\\\n a\"#1", "/* \n", "/\\\n", "/*a\n\\ */"]
WORD_ALPHABET = "ab_Z09 \t\n\r\f\v;,(){}*[]#.\\/-+<>"
PRE_FRAGS = ["#", "define", "line", " ", " ", "\t", "\n", "\n", "\\\n", "X", "Y1", "_a", "1", "0x1f", "/*", "*/",
             "//", "\\", "#line@", "0", "12", "\"f.h\"", ";", "i", "@", "\r", "\f", "#define X 1", "# 7 \"a//b\"",
             "#line@0", "/**/", "lines", "5a", "\n#", "#line@-1", "#line@ +1 ", "#line@1_0", "#line@0_", "#line@+", "_", "+", "-",
             "/*\n*/#line@"]


PRE_FIXED = ["/*\n*/#line@7\nint y;", "/**/# 5", "/*\n*/#line@-1\n# 5\n", "/*\n*/#line@0x\n# 5", "/*\n*/#line@ +0_0 \n#line 3",
             "/*\n*/#line@-2\n# 5\n", "# \\\n define \\\n X 1\n", "#define\\\nX 1", "#\\define X 1", "int\fx;\r\n#define Y 2\r\n"]


# word soups for _common_type_names' state machine (typedef statements, commas inside and outside parentheses, names
# that are discarded from look_for_words -- also ';' ',' '(' ')' 'typedef' themselves can be discarded)
CTN_FRAGS = ["typedef", "typedef", ";", ";", ",", ",", "(", ")", "size_t", "uint8_t", "FILE", "bool", "wchar_t", "ssize_t",
             "int", "x", "*", "struct", "{", "}", "typedefs", "size_tt", "_Bool", "uint8_t", "size_t", "// ", "/*", "*/"]
CTN_FIXED = ["// typedef unsigned char uint8_t;\nuint8_t x;", "typedef ; ; typedef int size_t ; size_t", "typedef ( ; ( size_t ) ;",
             "typedef int a , size_t , ( uint8_t , b ) , FILE ; size_t uint8_t FILE", "typedef typedef ; typedef size_t ;",
             "size_t , typedef , ; size_t", "typedef int (*size_t)(uint8_t, bool); size_t bool"]


def gen_regex_cases(ctx):
    rng, out = ctx.rng, [dict(kind="pre", text=t) for t in PRE_FIXED]
    for _ in range(ctx.n(400, 7000)):
        a = rng.choice(REGEX_ALPHABETS)
        out.append(dict(kind="comment", text="".join(rng.choice(a) for _ in range(rng.randrange(0, 22)))))
    for _ in range(ctx.n(200, 3000)):
        out.append(dict(kind="words", text="".join(rng.choice(WORD_ALPHABET) for _ in range(rng.randrange(0, 20)))))
    for _ in range(ctx.n(400, 7000)):
        out.append(dict(kind="pre", text="".join(rng.choice(PRE_FRAGS) for _ in range(rng.randrange(0, 13)))))
    out += [dict(kind="ctn", text=t) for t in CTN_FIXED]
    for _ in range(ctx.n(300, 5000)):
        out.append(dict(kind="ctn", text="".join(rng.choice(CTN_FRAGS) + rng.choice(["", " ", " ", "\n"])
                                                 for _ in range(rng.randrange(0, 16)))))
    return out


# ----------------------------------------------------------------------------- random cdefs (token level)

PRIMS = ["int", "unsigned int", "char", "signed char", "unsigned char", "short", "long", "unsigned long",
         "long long", "float", "double", "size_t", "uint8_t", "int32_t", "uint64_t", "bool", "wchar_t",
         "ssize_t", "intptr_t", "_Bool", "unsigned short"]
INTPRIMS = ["int", "unsigned int", "unsigned char", "short", "long", "unsigned long", "uint8_t", "int32_t"]


class CdefGen:
    """items: list of dict(define=bool, toks=[...]). All names are fresh, so every item is valid."""

    def __init__(self, rng):
        self.rng, self.k = rng, 0
        self.vtypes, self.consts, self.items = [], [], []
        self.partial = False

    def fresh(self, p):
        self.k += 1
        return "%s%d" % (p, self.k)

    def vtype(self):
        r = self.rng
        if self.vtypes and r.random() < 0.35:
            return list(r.choice(self.vtypes))
        return r.choice(PRIMS).split()

    def lit(self):
        r = self.rng
        v = r.randrange(1, 9)
        return r.choice(["%d" % v, "0x%x" % v, "0%o" % v, "%du" % v, "%dL" % v, "0X%XUL" % v])

    def cexpr(self, depth=0):
        """positive small integer constant expression, as tokens"""
        r = self.rng
        k = r.random()
        if depth >= 2 or k < 0.45:
            if self.consts and r.random() < 0.25:
                return [r.choice(self.consts)]
            return [self.lit()]
        if k < 0.6:
            return ["("] + self.cexpr(depth + 1) + [")"]
        if k < 0.7:
            return ["+"] + self.cexpr(depth + 1)
        op = r.choice(["+", "*", "|", "<<", "/", "+"])
        if op == "<<":
            return self.cexpr(depth + 1) + ["<<", r.choice(["1", "2"])]
        if op == "/":
            return ["("] + self.cexpr(depth + 1) + ["+", "7", ")", "/", r.choice(["2", "3"])]
        return self.cexpr(depth + 1) + [op] + self.cexpr(depth + 1)

    def params(self):
        r = self.rng
        if r.random() < 0.2:
            return ["void"]
        out = []
        for i in range(r.randrange(1, 4)):
            if out:
                out.append(",")
            out += self.vtype()
            k = r.random()
            if k < 0.3:
                out.append("*")
            if r.random() < 0.5:
                out.append(self.fresh("p"))
            if k > 0.85:
                out += ["[", "]"]
        if r.random() < 0.2:
            out += [",", "..."]
        return out

    def declarator(self, name, allow_partial_array=False):
        r = self.rng
        k = r.random()
        if k < 0.4:
            return [name]
        if k < 0.55:
            return ["*"] * r.randrange(1, 3) + [name]
        if k < 0.62:
            return ["*", "const", name]
        if k < 0.8:
            out = [name]
            for _ in range(r.randrange(1, 3)):
                out += ["["] + self.cexpr() + ["]"]
            return out
        if k < 0.86 and allow_partial_array:
            self.partial = True
            return [name, "[", "...", "]"]
        if k < 0.95:
            return ["(", "*", name, ")", "("] + self.params() + [")"]
        return ["*", name, "["] + self.cexpr() + ["]"]

    def fields(self, depth=0):
        r = self.rng
        out = []
        for _ in range(r.randrange(1, 5)):
            k = r.random()
            if k < 0.15:
                out += r.choice(["unsigned int", "int", "unsigned char", "long"]).split() + [
                    self.fresh("b"), ":", r.choice(["1", "3", "7", "( 2 + 1 )", "0x5"]), ";"]
            elif k < 0.25 and depth == 0:
                out += [r.choice(["struct", "union"]), "{"] + self.fields(1) + ["}", ";"]
            elif k < 0.32 and depth == 0:
                out += [r.choice(["struct", "union"]), "{"] + self.fields(1) + ["}", self.fresh("n"), ";"]
            else:
                q = ["const"] if r.random() < 0.1 else []
                out += q + self.vtype() + self.declarator(self.fresh("f")) + [";"]
        return out

    def add(self, toks, define=False):
        self.items.append(dict(define=define, toks=toks))

    def item(self):
        r = self.rng
        k = r.randrange(19)
        if k == 0:
            n = self.fresh("T")
            self.add(["typedef"] + self.vtype() + self.declarator(n) + [";"])
            # (arrays/pointers/functions are fine as later value types for fields except functions: keep prims only)
        elif k == 1:
            n = self.fresh("U")
            self.add(["typedef"] + r.choice(PRIMS).split() + [n, ";"])
            self.vtypes.append([n])
        elif k in (2, 3):
            n = self.fresh("s")
            kw = r.choice(["struct", "struct", "union"])
            self.add([kw, n, "{"] + self.fields() + ["}", ";"])
            self.vtypes.append([kw, n])
        elif k == 4:
            n = self.fresh("S")
            self.add(["typedef", "struct", "{"] + self.fields() + ["}", n, ",", "*", n + "_p", ";"])
            self.vtypes.append([n])
        elif k == 5:
            n = self.fresh("e")
            toks, names = ["enum", n, "{"], []
            for i in range(r.randrange(1, 5)):
                en = self.fresh("E")
                names.append(en)
                toks.append(en)
                kk = r.random()
                if kk < 0.4:
                    toks += ["="] + (["-"] if r.random() < 0.2 else []) + self.cexpr()
                elif kk < 0.5:
                    toks += ["=", "'%s'" % r.choice("aZ0*")]
                toks.append(",")
            if r.random() < 0.5:
                toks.pop()
            toks += ["}", ";"]
            self.add(toks)
            self.consts += names
        elif k == 6:
            self.add(self.vtype() + [self.fresh("fn"), "("] + self.params() + [")", ";"])
        elif k == 7:
            self.add(["extern"] + self.vtype() + self.declarator(self.fresh("v")) + [";"])
        elif k == 8:
            n = self.fresh("K")
            neg = ["-"] if r.random() < 0.3 else []
            self.add(["static", "const", r.choice(INTPRIMS[:2] + ["long"]), n, "="] + neg + [self.lit(), ";"])
            self.consts.append(n)
        elif k in (9, 10):
            n = self.fresh("D")
            kk = r.random()
            if kk < 0.8:
                self.add(["#", "define", n, self.lit()], define=True)
                self.consts.append(n)
            else:
                self.partial = True
                self.add(["#", "define", n, "..."], define=True)
        elif k == 11:   # partial constructs ('...' rewriting)
            self.partial = True
            kk = r.randrange(7)
            n = self.fresh("P")
            if kk == 0:
                self.add(["typedef", "struct", "{", "int", self.fresh("f"), ";", "...", ";", "}", n, ";"])
            elif kk == 1:
                self.add(["struct", n, "{", "...", ";", "}", ";"])
            elif kk == 2:
                self.add(["typedef", r.choice(["int", "unsigned long", "long int"]), "...", n, ";"])
            elif kk == 3:
                self.add(["typedef", "...", n, ";"])
            elif kk == 4:
                self.add(["typedef", "...", "*", n, ";"])
            elif kk == 5:
                self.add(["extern", "int", n, "[", "...", "]", ";"])
            else:
                self.add(["typedef", r.choice(["float", "double"]), "...", n, ";"])
        elif k == 12:   # partial enums
            self.partial = True
            n = self.fresh("pe")
            a, b = self.fresh("E"), self.fresh("E")
            kk = r.randrange(3)
            if kk == 0:
                self.add(["enum", n, "{", a, ",", b, ",", "...", "}", ";"])
            elif kk == 1:
                self.add(["enum", n, "{", a, "=", "...", ",", b, "}", ";"])
            else:
                self.add(["enum", n, "{", a, ",", b, "=", "...", "}", ";"])
        elif k == 13:   # extern "Python"
            self.partial = True
            lang = r.choice(['"Python"', '"Python"', '"Python+C"', '"C+Python"'])
            if r.random() < 0.5:
                self.add(["extern", lang] + self.vtype() + [self.fresh("cb"), "("] + self.params_noell() + [")", ";"])
            else:
                toks = ["extern", lang, "{"]
                for _ in range(r.randrange(1, 3)):
                    toks += self.vtype() + [self.fresh("cb"), "("] + self.params_noell() + [")", ";"]
                toks.append("}")
                self.add(toks)
        elif k == 14:   # calling conventions (textual hacks)
            kk = r.randrange(3)
            if kk == 0:
                self.add(["int", r.choice(["__stdcall", "WINAPI", "__cdecl"]), self.fresh("w"), "(", "int", ")", ";"])
            elif kk == 1:
                self.add(["extern", "int", "(", r.choice(["__stdcall", "WINAPI"]), "*", self.fresh("w"),
                          ")", "(", "int", ",", "long", ")", ";"])
            else:
                self.add(["typedef", "int", "(", "__cdecl", "*", self.fresh("W"), ")", "(", "void", ")", ";"])
        elif k == 15:   # a common type name (re)defined by the cdef itself
            n = r.choice(["uint8_t", "bool", "ssize_t", "wchar_t", "FILE"])
            if ("redef", n) not in self.__dict__.setdefault("seen", set()) and not any(
                    n in it["toks"] for it in self.items):
                self.seen.add(("redef", n))
                self.add(["typedef", "unsigned", "char", n, ";"])
            else:
                self.add(["extern", "FILE", "*", self.fresh("fp"), ";"])
        elif k in (16, 17):   # uses of common type names the cdef does not define (pre-declared by Parser._parse from the
            #                   words of the comment-free text)
            a, b, c = (r.choice(COMMON_NAMES) for _ in range(3))
            kk = r.randrange(4)
            if kk == 0:
                self.add([a, self.fresh("fn"), "(", b, ",", c, "*", self.fresh("p"), ")", ";"])
            elif kk == 1:       # an unnamed function-typed parameter: only a parameter NAME when `a` is not a type name
                self.add(["int", self.fresh("fn"), "(", "int", "(", a, ")", ")", ";"])
            elif kk == 2:
                self.add(["typedef", "struct", "{", a, self.fresh("f"), ";", b, self.fresh("f"), "[", "2", "]", ";", "}",
                          self.fresh("H"), ";"])
            else:
                self.add(["extern", a, "*", self.fresh("v"), ";"])
        else:
            self.add(["struct", self.fresh("o"), ";"])

    def params_noell(self):
        p = self.params()
        return p[:-2] if p[-1:] == ["..."] else p


def gen_cdef(rng):
    g = CdefGen(rng)
    for _ in range(rng.randrange(1, 7)):
        g.item()
    return g.items, g.partial


# ----------------------------------------------------------------------------- insertions

CPIECES = ["a", "bc", " ", " ", "*", "/", "#", "\"", "'", ".", ";", "{", "}", "[", "]", "=", ",", "(", ")",
           "define", "extern \"Python\"", "...", "//", "/*", "#line 3", "int", "__stdcall", "\\x", "#define Q 1",
           # C-looking words: comments in real headers are commented-out declarations and prose about types
           "typedef", "typedef ", " typedef ", "struct", "enum", "union", "extern", "#define", "WINAPI", "__cdecl",
           "unsigned", "char", "long", ";", ";", ",", ",", " ;", " ,"]

# names of cffi's common types (cffi/commontypes.py): a cdef may use them without defining them; cparser._common_type_names
# decides from the WORDS of the comment-free text which of them are pre-declared to pycparser
COMMON_NAMES = ["size_t", "ssize_t", "uint8_t", "int32_t", "uint64_t", "uint16_t", "intptr_t", "wchar_t", "bool", "FILE",
                "ptrdiff_t", "int8_t", "uintptr_t", "char16_t"]


def ctext(rng):
    """text of a comment that looks like C about a common type name: a commented-out typedef, prose with the word
    'typedef' before a type name that is followed by ';' or ',' (what _common_type_names' state machine reacts to), a
    struct/enum/extern "Python"/#define fragment.  The names are preferably those the cdef under test uses."""
    names = getattr(rng, "c31_names", None) or COMMON_NAMES
    n, m = rng.choice(names), rng.choice(names + COMMON_NAMES)
    k = rng.randrange(12)
    if k == 0:
        return " typedef %s %s; " % (rng.choice(["unsigned char", "unsigned long", "int", "struct _x", "..."]), n)
    if k == 1:
        return " typedef'd in <std%s.h>, like %s, %s " % (rng.choice(["int", "def", "io"]), n, m)
    if k == 2:
        return " see the typedef of %s; " % n
    if k == 3:
        return "typedef struct { %s a; } %s, *%s;" % (m, n, m)
    if k == 4:
        return " typedef int (*%s)(%s, %s); " % (rng.choice(["cb", n]), n, m)
    if k == 5:
        return " typedef %s" % n                      # an open typedef: the next ';' of the CDEF would close it
    if k == 6:
        return " %s, %s; typedef " % (n, m)
    if k == 7:
        return " extern \"Python\" %s f(%s); " % (n, m)
    if k == 8:
        return " #define %s %s " % (n, m)
    if k == 9:
        return " struct %s { %s x; }; enum { %s, }; " % (n, m, n)
    if k == 10:
        return " %s __stdcall WINAPI f(%s ...); [...] = ..., } " % (n, m)
    return "typedef %s;%s,%s;" % (n, m, n)


_DIRLIKE = re.compile(r"^[ \t]*#[ \t]*(?:line|\d+)\b.*$", re.MULTILINE)


def dirlike_tail(body):
    """the last line of a multi-line comment body looks like a line directive (cffi stashes such lines,
    with the comment terminator, before it removes comments): known finding directive_like_line_in_comment"""
    return "\n" in body and _DIRLIKE.match(body.rsplit("\n", 1)[1]) is not None


def cbody(rng, nl=False, line=False):
    while True:
        s = cbody1(rng, nl, line)
        if not dirlike_tail(s):
            return s


def cpieces(rng, n):
    out = []
    for _ in range(n):
        out.append(ctext(rng) if rng.random() < 0.22 else rng.choice(CPIECES))
    return "".join(out)


def cbody1(rng, nl=False, line=False):
    s = cpieces(rng, rng.randrange(0, 6))
    if nl:
        parts = [s, rng.choice(["\n", "\n\n", "\n# 5 \"q.h\"\n", "\n#define Z 3\n", "\n * ", "\n typedef "]),
                 cpieces(rng, rng.randrange(0, 4))]
        s = "".join(parts)
    if line:
        s = s.replace("\n", " ").rstrip("\\")
    else:
        while "*/" in s:
            s = s.replace("*/", "* /")
    return s


# (a \r that is not followed by \n is a line end for gcc -- old Mac line ends -- so inside a directive line only \f and \v
#  are white space; \r is used as the \r of a \r\n line end)
OTHER_WS = ["\f", "\v", " \f", "\f ", "\v\t", "\f\v"]


def directive(rng, other_ws=True):
    """a line directive; with other_ws, \\r \\f \\v are put ON the directive line (before the '#', between '#' and the
    number, between the fields, after the file name / flags, at the end of the line, also as the \\r of a \\r\\n line end):
    all white space for a C compiler, and cffi must treat the line as it treats the blank-only form"""
    n = rng.randrange(1, 500)
    f = rng.choice(["foo.h", "a//b.h", "x/*y.h", "d/e f.h", "<built-in>"])
    fields = rng.choice([["#", "%d" % n, '"%s"' % f], ["#line", "%d" % n], ["#line", "%d" % n, '"%s"' % f],
                         ["#", "%d" % n], ["#", "%d" % n, '"%s"' % f, "1"], ["#", "line", "%d" % n, '"%s"' % f]])
    lead = rng.choice(["", "", "  ", "\t"])
    gaps = [rng.choice([" ", " ", "  ", "\t"]) for _ in fields[1:]]
    if fields[0] == "#" and rng.random() < 0.3:
        gaps[0] = ""                                   # "#12" / "#line"
        if fields[1] == "line":
            pass
    tail = rng.choice(["", "", " ", "\t"])
    if other_ws and rng.random() < 0.5:
        for _ in range(rng.randrange(1, 3)):
            k = rng.randrange(4)
            w = rng.choice(OTHER_WS)
            if k == 0:
                lead = rng.choice([w, lead + w, w + lead])
            elif k == 1:
                j = rng.randrange(len(gaps))
                gaps[j] = rng.choice([w, gaps[j] + w, w + gaps[j]]) if gaps[j] or fields[0] == "#" else w
            elif k == 2:
                tail = rng.choice([w, tail + w])
            else:
                tail = tail + "\r"                     # the line ends with \r\n
    if fields[:2] == ["#", "line"] and gaps[0] == "":
        pass                                            # "#line"
    out = lead + fields[0]
    for g, fld in zip(gaps, fields[1:]):
        out += g + fld
    return out + tail


HWS = [" ", " ", "\t", "  ", " \t ", "\f", " \v"]          # \r \f \v: fixed finding other_whitespace, now in the main stream
VWS = ["\n", "\n\n", " \n\t", "\n  ", "\r\n", "\r\n\r\n"]


def atom_decl(rng):
    """(text, tag) usable between two tokens of an ordinary declaration"""
    k = rng.random()
    if k < 0.25:
        return rng.choice(HWS), "hws"
    if k < 0.4:
        return rng.choice(VWS), "vws"
    if k < 0.6:
        return "/*" + cbody(rng) + "*/", "blk"
    if k < 0.72:
        return "/*" + cbody(rng, nl=True) + "*/", "blknl"
    if k < 0.87:
        return "//" + cbody(rng, line=True) + "\n", "line"
    return "\n" + directive(rng) + "\n", "dir"


def atom_define(rng):
    """usable between the tokens of a #define line (after the macro name)"""
    k = rng.random()
    if k < 0.4:
        return rng.choice(HWS), "hws"
    if k < 0.7:
        return "/*" + cbody(rng) + "*/", "blk"
    return rng.choice(HWS + [""]) + "\\\n" + rng.choice(HWS + [""]), "cont"


PUNCT_SAFE = set("()[]{},;")


def can_abut(a, b):
    """may tokens a b be written without anything between them? (conservative)"""
    x, y = a[-1], b[0]
    wx, wy = x.isalnum() or x in "_'\"", y.isalnum() or y in "_'\""
    if wx and wy:
        return False
    return x in PUNCT_SAFE or y in PUNCT_SAFE


# token pairs inside which cffi's textual rewriting looks for adjacent tokens
def sensitive_pair(a, b):
    if a == "extern" and b.startswith('"'):
        return True
    if a.startswith('"'):            # _r_extern_python ends with \s*. : it looks at whatever follows
        return True
    if "..." in (a, b):
        return True
    if b in ("__stdcall", "WINAPI", "__cdecl") or a in ("__stdcall", "WINAPI", "__cdecl"):
        return True
    return False


def fill_decl(rng, a, b, special):
    """filler between decl tokens a and b (a or b may be None at the item's ends)"""
    if special is None and rng.random() < 0.45:
        if a is not None and b is not None and can_abut(a, b) and rng.random() < 0.5:
            return "", []
        return " ", ["hws"]
    text, tags = "", []
    for _ in range(rng.randrange(1, 4)):
        t, tag = atom_decl(rng)
        if tag == "dir" and a is not None and b is not None and sensitive_pair(a, b):
            t, tag = rng.choice(VWS), "vws"          # (kept for the known-finding stream only)
        text += t
        tags.append(tag)
    if a is not None and a.endswith("/") and text[:1] in "/*":
        text = " " + text
    if a is not None and b is not None and not can_abut(a, b) and not text:
        text = " "
    return text, tags


def render(items, fills, seps):
    out = []
    for it, fl, sep in zip(items, fills, seps):
        toks = it["toks"]
        s = fl[0]
        for i, t in enumerate(toks):
            s += t + fl[i + 1]
        out.append(s + sep)
    return "".join(out)


def base_fills(items):
    fills, seps = [], []
    for it in items:
        n = len(it["toks"])
        if it["define"]:
            fills.append(["", ""] + [" "] * (n - 2) + [""])
        else:
            fills.append([""] + [" "] * (n - 1) + [""])
        seps.append("\n")
    return fills, seps


SPECIALS = ["define_multiline_comment", "define_continuation_before_name", "directive_in_rewritten_construct",
            "comment_on_directive_line", "other_whitespace", "directive_like_line_in_comment"]


def make_variant(rng, items, special=None):
    """returns (fills, seps, tags, applied_special)"""
    fills, seps, alltags = [], [], []
    applied = None
    # where to apply the special insertion
    spec_item = None
    if special in ("define_multiline_comment", "define_continuation_before_name"):
        cands = [i for i, it in enumerate(items) if it["define"]]
        spec_item = rng.choice(cands) if cands else None
    elif special == "directive_in_rewritten_construct":
        cands = [(i, j) for i, it in enumerate(items) if not it["define"]
                 for j in range(len(it["toks"]) - 1) if sensitive_pair(it["toks"][j], it["toks"][j + 1])]
        spec_item = rng.choice(cands) if cands else None
    elif special in ("comment_on_directive_line", "other_whitespace", "directive_like_line_in_comment"):
        cands = [(i, j) for i, it in enumerate(items) if not it["define"] for j in range(len(it["toks"]) - 1)
                 if not sensitive_pair(it["toks"][j], it["toks"][j + 1])]
        spec_item = rng.choice(cands) if cands else None
    plain = special is not None      # in the known-finding stream everything else is plain spacing
    for idx, it in enumerate(items):
        toks = it["toks"]
        n = len(toks)
        if it["define"]:
            fl = [rng.choice(["", " ", "\t", "/*" + cbody(rng) + "*/ "]) if not plain else ""]
            fl.append(rng.choice(["", " ", "  ", "/**/", " \\\n ", "\\\n"]) if not plain else "")    # between # and define
            for j in range(2, n):
                text, tags = "", []
                if plain:
                    text, tags = " ", ["hws"]
                else:
                    for _ in range(rng.randrange(1, 3)):
                        t, tag = atom_define(rng)
                        # (a continuation before the macro name: fixed finding define_continuation_before_name,
                        #  now part of the main stream)
                        text += t
                        tags.append(tag)
                    if not text.strip(" \t\\\n") and not text:
                        text = " "
                    if text.replace("\\\n", "") == "":
                        text = " " + text
                fl.append(text)
                alltags += tags
            end = ""
            if not plain:
                k = rng.random()
                if k < 0.3:
                    end = rng.choice(HWS) + "//" + cbody(rng, line=True)
                    alltags.append("line")
                elif k < 0.5:
                    end = " /*" + cbody(rng) + "*/"
                    alltags.append("blk")
                elif k < 0.6:
                    end = " \\\n"
                    alltags.append("cont")
            fl.append(end)
            if special == "define_multiline_comment" and spec_item == idx:
                j = rng.randrange(2, n + 1) if rng.random() < 0.8 else 1
                fl[j] = " /*" + cbody(rng, nl=True) + "*/ "
                applied = special
            if special == "define_continuation_before_name" and spec_item == idx:
                j = rng.choice([1, 2])
                fl[j] = rng.choice([" \\\n ", "\\\n ", " \\\n"])
                if j == 2 and not fl[j].strip("\\\n"):
                    fl[j] = " " + fl[j]
                applied = special
            fills.append(fl)
            seps.append("\n" + ("" if plain else rng.choice(["", "", "\n", "  \n"])))
        else:
            fl = []
            for j in range(n + 1):
                a = toks[j - 1] if j > 0 else None
                b = toks[j] if j < n else None
                if plain:
                    text, tags = ("" if j in (0, n) else " "), []
                else:
                    text, tags = fill_decl(rng, a, b, None)
                    if j == 0 and idx > 0 and items[idx - 1]["define"]:
                        pass
                fl.append(text)
                alltags += tags
            if isinstance(spec_item, tuple) and spec_item[0] == idx:
                j = spec_item[1] + 1
                if special == "directive_in_rewritten_construct":
                    fl[j] = "\n" + directive(rng, other_ws=False) + "\n"
                elif special == "comment_on_directive_line":
                    d = directive(rng, other_ws=False)
                    c = "/*" + cbody(rng) + "*/"
                    fl[j] = "\n" + rng.choice([c + " " + d, d + " " + c, d + " //" + cbody(rng, line=True),
                                               d.replace("#", "# " + c, 1) if d.lstrip().startswith("# ") else c + d]) + "\n"
                elif special == "directive_like_line_in_comment":
                    fl[j] = " /*" + cbody(rng) + "\n" + rng.choice(["#line 3", " # 12 ", "#line x", "# 4 \"f.h\""]) + "*/ "
                else:
                    fl[j] = rng.choice(["\r\n", "\f", "\v", " \r\n ", "\r"])
                applied = special
            fills.append(fl)
            # the next item may be a #define: it has to start on a fresh line
            seps.append("\n" if plain else rng.choice(["\n", "\n", " \n", "\n\n"]))
    return fills, seps, sorted(set(alltags)), applied


def gen_meta_cases(ctx):
    rng, out = ctx.rng, []
    n_main, n_known = ctx.n(170, 1800), ctx.n(40, 300)
    for i in range(n_main + n_known):
        items, partial = gen_cdef(rng)
        special = rng.choice(SPECIALS) if i >= n_main else None
        # the comments of this case talk about the common type names the cdef uses (see ctext)
        rng.c31_names = sorted(set(t for it in items for t in it["toks"] if t in COMMON_NAMES)) or None
        bf, bs = base_fills(items)
        for _ in range(2 if special is None else 1):
            vf, vs, tags, applied = make_variant(rng, items, special)
            if special is not None and applied is None:
                continue
            out.append(dict(kind="meta", base=render(items, bf, bs), variant=render(items, vf, vs),
                            partial=partial, tags=tags, special=applied))
    return out


def generate(ctx):
    corpus = [
        dict(kind="meta", base="#define X 1\nint y;\n", variant="/* c */ #define X /* d */ 1 // e\nint/**/y;\n",
             partial=False, tags=["blk", "line"], special=None),
        dict(kind="meta", base="#define X 1\nint y;\n", variant="#define X \\\n 1 \\\n\nint\n# 3 \"a//b.h\"\ny;\n",
             partial=False, tags=["cont", "dir"], special=None),
        dict(kind="meta", base="enum e { A , B = ... , ... } ;\n", variant="enum e{A,B=/* = ... } */...//}\n,/**/...\n}\n;\n",
             partial=True, tags=["blk", "line"], special=None),
        dict(kind="meta", base="int a [ 6 / 2 ] ;\n", variant="int a[6 / /* 3 */2];\n", partial=False, tags=["blk"],
             special=None),
    ]
    # comments whose text looks like C (commented-out declarations, prose with 'typedef' before a common type name)
    hdr = ("typedef struct { uint8_t tag ; uint16_t len ; } hdr_t ;\n#define LIMIT 42\nenum color { RED , GREEN = 7 , BLUE } ;\n"
           "size_t hdr_size ( hdr_t * h , int n ) ;\n")
    for var in ("// typedef unsigned char uint8_t;\n" + hdr,
                hdr.replace("tag ; ", "tag ; /* typedef'd in <stdint.h>, like\n uint16_t, uint32_t */ "),
                hdr.replace("size_t hdr_size", "/* on this platform: typedef unsigned long size_t; */\nsize_t hdr_size"),
                hdr.replace("size_t hdr_size", "size_t /* typedef */ hdr_size"),
                hdr.replace("uint8_t tag", "uint8_t /* typedef x */ tag")):
        corpus.append(dict(kind="meta", base=hdr, variant=var, partial=False, tags=["blk", "ctext"], special=None))
    corpus.append(dict(kind="meta", base="int apply ( int ( size_t ) ) ;\n",
                       variant="/* see <stddef.h> for the typedef of size_t; */\nint apply ( int ( size_t ) ) ;\n",
                       partial=False, tags=["blk", "ctext"], special=None))
    # \r \f \v on a directive line, every position (all handled by the tree as of ec3bae5)
    for w_ in ("\f", "\v"):
        for var in ("int x ;\n%s# 12 \"foo.h\"\nint y ;\n", "int x ;\n#%s12 \"foo.h\"\nint y ;\n", "int x ;\n# 12%s\"foo.h\"\nint y ;\n",
                    "int x ;\n# 12 \"foo.h\"%s\nint y ;\n", "int x ;\n# 12 \"foo.h\" 1%s\nint y ;\n", "int x ;\n#line%s12\nint y ;\n",
                    "int\n#line 12%s\nx ; int y ;\n"):
            corpus.append(dict(kind="meta", base="int x ;\nint y ;\n", variant=var % w_, partial=False, tags=["dir", "ows"],
                               special=None))
    corpus.append(dict(kind="meta", base="int x ;\nint y ;\n", variant="int x ;\r\n# 12 \"foo.h\"\r\nint y ;\r\n", partial=False,
                       tags=["dir", "ows"], special=None))
    # witnesses of the known findings (reported under their key while open; silent once repaired)
    def w(base, variant, key, partial=False):
        return dict(kind="meta", base=base, variant=variant, partial=partial, tags=[], special=key)
    corpus += [
        w("#define X 1\nint y;\n", "#define X /* a\n b */ 1\nint y;\n", "define_multiline_comment"),
        w("#define X 1\nint y;\n", "#define \\\n X 1\nint y;\n", "define_continuation_before_name"),
        w("#define X 1\nint y;\n", "# \\\n define X 1\nint y;\n", "define_continuation_before_name"),
        w("extern int a [ ... ] ;\n", "extern int a [\n# 3 \"f\"\n... ] ;\n", "directive_in_rewritten_construct", True),
        w("extern \"Python\" int f ( int ) ;\n", "extern\n#line 4\n\"Python\" int f ( int ) ;\n",
          "directive_in_rewritten_construct", True),
        w("int x ;\nint y ;\n", "int x ;\n/* c */ # 12 \"foo.h\"\nint y ;\n", "comment_on_directive_line"),
        w("int x ;\nint y ;\n", "int x ;\n# 12 \"foo.h\" /* c */\nint y ;\n", "comment_on_directive_line"),
        w("int x ;\nint y ;\n", "int x ;\r\nint y ;\n", "other_whitespace"),
        w("int x ;\n", "int\fx ;\n", "other_whitespace"),
        w("int y ;\n", "int /* x\n#line 3*/ y ;\n", "directive_like_line_in_comment"),
    ]
    return corpus + gen_regex_cases(ctx) + gen_meta_cases(ctx)


def finding_key(case):
    """known-finding class of a meta case, computed from the case alone (the generator applies the
    corresponding insertion to exactly one place and plain single blanks everywhere else)"""
    return case.get("special")


# ----------------------------------------------------------------------------- gcc as the judge of "between tokens"

_TOK = re.compile(r"[A-Za-z_0-9]+|\"[^\"\n]*\"|'[^'\n]*'|\.\.\.|<<|>>|\S")


def gcc_tokens(work, text):
    p = subprocess.run(["gcc", "-E", "-dD", "-P", "-undef", "-w", "-x", "c", "-"], input=text, capture_output=True,
                       text=True, cwd=work)
    if p.returncode != 0:
        return ("error", p.stderr[-300:])
    out = []
    for line in p.stdout.split("\n"):
        if line.startswith("#define __STDC") or line.startswith("#define _STDC"):
            continue
        toks = _TOK.findall(line)
        if line.startswith("#define"):
            out.append(tuple(toks))
        else:
            out += toks
    return out


SEP = "\n;__C31_SEP__;\n"


def gcc_equivalent(work, cases, batch=40):
    """for each case: does gcc -E see base and variant as the same token sequence (and the same #defines)?
    Batches are judged as a whole first (one cc1 run per side); a batch that differs is re-judged case by case."""
    verdict = [None] * len(cases)

    def judge(lo):
        chunk = cases[lo:lo + batch]
        b = gcc_tokens(work, SEP.join(c["base"] for c in chunk))
        v = gcc_tokens(work, SEP.join(c["variant"] for c in chunk))
        if b == v and not isinstance(b, tuple):
            return [True] * len(chunk)
        out = []
        for c in chunk:
            b, v = gcc_tokens(work, c["base"]), gcc_tokens(work, c["variant"])
            out.append(b == v and not isinstance(b, tuple))
        return out

    with concurrent.futures.ThreadPoolExecutor(max_workers=8) as ex:
        los = list(range(0, len(cases), batch))
        for lo, res in zip(los, ex.map(judge, los)):
            verdict[lo:lo + len(res)] = res
    return verdict


# ----------------------------------------------------------------------------- evaluation

def text_of(s):
    return cstr(s) if s else "(@nil N)"


def evaluate(ctx, cases):
    s = ctx.scratch()
    rx = [c for c in cases if c["kind"] in ("comment", "words", "pre")]
    ctn = [c for c in cases if c["kind"] == "ctn"]
    if ctn:
        out, p = s.run_worker("c31_worker.py", dict(op="regex", cases=ctn), timeout=600)
        if out is None:
            ctx.violation(ctn[0], "ctn worker failed: " + (p.stderr[-1500:] or p.stdout[-500:]))
            return
        common = [k for k in out["common"] if all(ord(ch) < 128 for ch in k)]
        tl = lambda ws: "[" + "; ".join(text_of(w) for w in ws) + "]" if ws else "(@nil (list N))"
        pairs = []
        for c, r in zip(ctn, out["results"]):
            ctx.count()
            ctx.hist("ctn_found", len(r))
            if "typedef" in c["text"] and r:
                ctx.nontrivial(("ctn", c["text"]))
            pairs.append((text_of(c["text"]), tl(r)))
        bad, outs, err = vlib.coq_mismatches(["C31.Model", "C31.Order"], "ctn_eval common_types",
                                             "list_eqb (list_eqb N.eqb)", pairs, shard=2500,
                                             prelude="Definition common_types : list (list N) := %s." % tl(common))
        if err:
            ctx.obligation_broken("C31 model evaluation (ctn)", err)
        for i in bad:
            ctx.mismatch(ctn[i], "model %s, implementation %r" % (outs.get(i), out["results"][i]),
                         "C31.Order.common_type_names vs cparser._common_type_names")
        ctx.sample(dict(ctn[0], impl=out["results"][0]))
    meta = [c for c in cases if c["kind"] == "meta"]
    if rx:
        out, p = s.run_worker("c31_worker.py", dict(op="regex", cases=rx), timeout=600)
        if out is None:
            ctx.violation(rx[0], "regex worker failed: " + (p.stderr[-1500:] or p.stdout[-500:]))
            return
        NILM = "(@nil (list N * list N))"
        pairs, names = [], {"comment": "C31.Model.sc vs cparser._r_comment.sub(replace_keeping_newlines)",
                            "words": "C31.Model.words vs cparser._r_words.findall",
                            "pre": "C31.Model.preprocess vs cparser._preprocess"}
        for c, r in zip(rx, out["results"]):
            ctx.count()
            t = c["text"]
            if c["kind"] == "comment":
                inp, exp = cpair(cn(0), text_of(t)), cpair(cn(0), cpair(text_of(r), NILM))
                ctx.hist("comment_changed", r != t)
                if r != t:
                    ctx.nontrivial(("comment", t))
            elif c["kind"] == "words":
                ws = "[" + "; ".join(cpair(text_of(w), "(@nil N)") for w in r) + "]" if r else NILM
                inp, exp = cpair(cn(1), text_of(t)), cpair(cn(0), cpair("(@nil N)", ws))
                if len(r) > 1:
                    ctx.nontrivial(("words", t))
            else:
                if r["exc"]:
                    code = {"CDefError": 4, "AssertionError": 1, "IndexError": 2, "ValueError": 3}.get(r["exc"], 7)
                    exp = cpair(cn(code), cpair("(@nil N)", NILM))
                else:
                    ms = "[" + "; ".join(cpair(text_of(k), text_of(v)) for k, v in r["macros"]) + "]" if r["macros"] else NILM
                    exp = cpair(cn(0), cpair(text_of(r["text"]), ms))
                inp = cpair(cn(2), text_of(t))
                ctx.hist("preprocess_outcome", r["exc"] or ("macros" if r["macros"] else "plain"))
                if r["exc"] or r["macros"] or r["text"] != t:
                    ctx.nontrivial(("pre", t))
            pairs.append((inp, exp))
        eqb = "pair_eqb N.eqb (pair_eqb (list_eqb N.eqb) (list_eqb (pair_eqb (list_eqb N.eqb) (list_eqb N.eqb))))"
        bad, outs, err = vlib.coq_mismatches(["C31.Model"], "corr_eval", eqb, pairs, shard=500)
        if err:
            ctx.obligation_broken("C31 model evaluation", err)
        for i in bad:
            ctx.mismatch(rx[i], "model %s, implementation %r" % (outs.get(i), out["results"][i]), names[rx[i]["kind"]])
        groups = {k: [(c, r) for c, r in zip(rx, out["results"]) if c["kind"] == k] for k in names}
        for c, r in groups["pre"][:2] + groups["comment"][:1]:
            ctx.sample(dict(c, impl=r))
    if meta:
        # gcc: is the variant the same token sequence as the base?
        t0 = time.time()
        keep = []
        for c, ok in zip(meta, gcc_equivalent(s.work, meta)):
            if not ok:
                ctx.hist("dropped_gcc_says_not_equivalent", c.get("special") or "main")
                ctx.extra.setdefault("dropped_by_gcc", []).append(c["variant"][:300])
                continue
            keep.append(c)
        ctx.extra["gcc_s"] = round(time.time() - t0, 1)
        t0 = time.time()
        out, p = s.run_worker("c31_worker.py", dict(op="meta", cases=keep), timeout=1800)
        ctx.extra["meta_worker_s"] = round(time.time() - t0, 1)
        if out is None:
            ctx.violation(keep[0] if keep else None, "meta worker failed: " + (p.stderr[-1500:] or p.stdout[-500:]))
            return
        for c, r in zip(keep, out["results"]):
            ctx.count()
            ctx.hist("base_outcome", r["base_outcome"])
            for t in c["tags"]:
                ctx.hist("insertion_kind", t)
            if c.get("special"):
                ctx.hist("known_finding_stream", c["special"])
            if r["base_outcome"] == "ok" and c["variant"] != c["base"]:
                ctx.nontrivial(("meta", c["base"], c["variant"]))
            if r["diff"]:
                ctx.violation(c, "cdef meaning changed by insertions (%s): %s" % (",".join(c["tags"]) or c.get("special"),
                                                                                  r["diff"]), key=finding_key(c))
        for c in keep[:3]:
            ctx.sample(c)


def run(ctx):
    ctx.cov["rule"] = ("regex: random texts over comment-critical alphabets through the real _r_comment.sub / _r_words.findall / "
                       "_preprocess vs the Coq scanners (non-trivial = output differs from input or macros/exception produced); "
                       "ctn: word soups of typedef ; , ( ) and common type names through the real _common_type_names vs the "
                       "Coq state machine (non-trivial = contains 'typedef' and a name is found); "
                       "meta: random valid cdefs (typedefs, structs/unions with bitfields and nested aggregates, enums with "
                       "constant expressions, functions, globals, constants, #define, partial '...' forms, extern \"Python\", "
                       "calling conventions, common type names) x random fillers between all tokens (blanks, tabs, newlines, "
                       "/* */ with and without newlines, // comments -- comment texts are C-looking: keywords, typedef statements and "
                       "prose about the common type names the cdef uses, punctuation, quotes --, '# N \"file\"' / #line "
                       "directives, backslash-newline in #define), accepted by gcc -E as the same token sequence; non-trivial = base parses and variant text "
                       "differs; distinct by (base, variant).")
    ctx.assumptions += [
        "hand-written scanners in C31/Model.v stand for the regular expressions of cparser.py; their pattern texts and flags "
        "are pinned through the regenerated C31/Gen.v and their behaviour is tied to Python's re by this run's differential "
        "tests (ASCII texts)",
        "C31/Order.v maps each regenerated statement text of _preprocess / Parser._parse to the model function it stands "
        "for; the '...' / __stdcall / extern \"Python\" statements are identity stages (outside the model's domain)",
        "pycparser's lexer/parser is not modelled: the meaning-preservation of insertions past _preprocess is tested "
        "(metamorphic), not proved",
        "gcc -E -dD decides whether an insertion is 'between tokens' for a C compiler"]
    if ctx.extra.get("c31_regen_error"):
        ctx.obligation_broken("C31/Gen.v regeneration: cparser.py no longer has the shape the model was written for",
                              ctx.extra["c31_regen_error"])
    evaluate(ctx, generate(ctx))


MANIFEST = dict(
    technique="Coq proof about an executable model of cparser's textual pre-processing (comment scanner, word scanner, "
              "#define extraction, line-directive stash/restore, _common_type_names' state machine, the front part of "
              "Parser._parse) + C31/Gen.v regenerated from cparser.py on every run (regex pattern texts and flags, the "
              "statement lists of _preprocess / _remove_line_directives / _put_back_line_directives / _common_type_names / "
              "Parser._parse's front part, interpreted by C31/Order.v) + differential tie of every scanner to Python's re, to "
              "the real _preprocess and to the real _common_type_names + metamorphic test of the real parser with gcc -E as "
              "token-equivalence oracle",
    text="Partial. Proved (all texts, unbounded): comment stripping preserves the number of newlines (C31_newlines_preserved) and "
         "is compositional at cuts outside comments (C31_scanner_compositional); a /* */ comment, a // comment with its "
         "newline (C31_block_comment_is_space, C31_line_comment_is_space), white space, or any "
         "sequence of these inserted at such a cut is replaced by white space only, so the \\w+|\\S word sequence seen by the "
         "later steps is unchanged (C31_insertion_keeps_words), including line ends when the filler has no newline "
         "(C31_inline_insertion_keeps_lines); \\r \\f \\v become blanks without changing the words and none is left "
         "(C31_normalize_keeps_words, C31_normalize_removes); a backslash-newline or blanks inside a #define value leave the "
         "macro value unchanged (C31_define_continuation, C31_macro_value_blanks: statements about the value group / "
         "macro_value, not lifted to the whole _preprocess); stash and restore of line directives is the identity "
         "(C31_line_directives_roundtrip) and the '#line@N' placeholder is inert for the comment scanner "
         "(C31_placeholder_inert); the composed model of _preprocess returns plain declarations unchanged "
         "(C31_preprocess_plain), returns a line directive inserted between two lines of plain declarations verbatim "
         "(C31_directive_insertion_plain), and on every text without '#' -- comments allowed -- returns the text with its "
         "comments replaced by white space, no macros, no error (C31_preprocess_hashfree, C31_preprocess_hashfree_norm); "
         "hence for '#'-free cdefs an insertion of comments/white space between tokens changes neither the words handed on "
         "nor the macros (C31_insertion_preprocess_hashfree: first composed statement with comments) nor the set of common "
         "type names that Parser._parse pre-declares to pycparser, whatever the comment says, for every set of common types "
         "and earlier typedefs (C31_ctn_words_only, C31_typenames_comment_invariant, C31_parse_front_comment_invariant). "
         "Regenerated and proved on every run: executing the statement list of _preprocess found in the source IS the "
         "model's preprocess (C31_preprocess_order_tie), executing the front part of Parser._parse IS parse_front, i.e. "
         "_preprocess runs before _common_type_names and the latter scans the comment-free text (C31_parse_front_tie); the "
         "five pattern texts, their flags and the statements of the stash/restore functions and of _common_type_names are "
         "the ones the model was written for (Example C31_sources_pinned). The composed statement for arbitrary fillers is "
         "false (C31_full_statement_refuted; known findings). Tested, not proved: everything past _preprocess (pycparser), "
         "the '...' / extern \"Python\" / __stdcall rewriting (identity stages in Order.v), comments or directives next to "
         "#define lines and directives next to comments in the composed model, cdefs with '#' in the comment-insertion "
         "theorems.",
    note="Trusted: Coq kernel; hand models C31/Model.v, C31/Order.v of the regular expressions and of _common_type_names "
         "(pattern texts/flags/statements pinned through the regenerated C31/Gen.v, behaviour tied by differential testing "
         "against re, _preprocess and _common_type_names on every run, ASCII only); the translator c31_regen.py "
         "(ast.unparse of top-level statements; fail closed); Order.v's table mapping statement texts to model functions; "
         "gcc -E as oracle for token equivalence; pycparser not modelled.",
    design_ref="DESIGN.md §4 C31")
