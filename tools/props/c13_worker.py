"""C13 worker: build ONE API-mode module + one plain .so from the generated recording functions, then
perform every call through the four paths and report canonical outcomes.

paths: 0 = API-mode lib attribute (generated _cffi_f_ wrapper), 1 = ffi.addressof(lib, name) (libffi through
_cffi_d_), 2 = in-line ABI ffi.dlopen(), 3 = out-of-line ABI module's ffi.dlopen().
"""
import importlib
import importlib.util
import os
import struct
import subprocess
import sys
import warnings

import cffi
from lib.vlib import worker_main
import c13_common as cc

warnings.simplefilter("ignore")


class IntLike(object):
    def __init__(self, v):
        self.v = v

    def __int__(self):
        return self.v


class IndexOnly(object):
    def __index__(self):
        return 3


def build(payload, work):
    sigs = payload["sigs"]
    tag = payload.get("tag", "m")
    csrc = cc.gen_source(sigs)
    cdef = cc.gen_cdef(sigs)
    asan = bool(payload.get("asan"))
    cflags = ["-O0", "-w"] + (["-fsanitize=address,undefined", "-fno-omit-frame-pointer",
                                "-fno-sanitize-recover=undefined"] if asan else [])
    # API mode
    ffi = cffi.FFI()
    ffi.cdef(cdef)
    modname = "_c13_api_" + tag
    ffi.set_source(modname, csrc, extra_compile_args=cflags,
                   extra_link_args=(["-fsanitize=address,undefined"] if asan else []))
    ffi.compile(tmpdir=work)
    if work not in sys.path:
        sys.path.insert(0, work)
    mod = importlib.import_module(modname)
    # plain shared object from the same source
    cpath = os.path.join(work, "c13_plain_%s.c" % tag)
    with open(cpath, "w") as f:
        f.write(csrc)
    so = os.path.join(work, "libc13_%s.so" % tag)
    p = subprocess.run(["gcc", "-shared", "-fPIC"] + cflags + [cpath, "-o", so], capture_output=True, text=True)
    if p.returncode:
        raise RuntimeError("plain .so does not compile: " + p.stderr[-2000:])
    # in-line ABI
    ffi_in = cffi.FFI()
    ffi_in.cdef(cdef)
    lib_in = ffi_in.dlopen(so)
    # out-of-line ABI
    ffi_o = cffi.FFI()
    ffi_o.cdef(cdef)
    oname = "_c13_ool_" + tag
    ffi_o.set_source(oname, None)
    opath = os.path.join(work, oname + ".py")
    ffi_o.emit_python_code(opath)
    spec = importlib.util.spec_from_file_location(oname, opath)
    omod = importlib.util.module_from_spec(spec)
    spec.loader.exec_module(omod)
    lib_o = omod.ffi.dlopen(so)
    return [
        ("api", mod.ffi, mod.lib, lambda n: getattr(mod.lib, n)),
        ("addressof", mod.ffi, mod.lib, lambda n: mod.ffi.addressof(mod.lib, n)),
        ("abi-inline", ffi_in, lib_in, lambda n: getattr(lib_in, n)),
        ("abi-ool", omod.ffi, lib_o, lambda n: getattr(lib_o, n)),
    ]


def mk(ffi, lib, spec, keep, pathidx):
    t = spec[0]
    if t == "int":
        return spec[1]
    if t == "bool":
        return bool(spec[1])
    if t == "float":
        return struct.unpack("<d", bytes.fromhex(spec[1]))[0]
    if t == "bytes":
        return bytes.fromhex(spec[1])
    if t == "str":
        return "".join(chr(c) for c in spec[1])
    if t == "none":
        return None
    if t == "list":
        return [mk(ffi, lib, s, keep, pathidx) for s in spec[1]]
    if t == "tuple":
        return tuple(mk(ffi, lib, s, keep, pathidx) for s in spec[1])
    if t == "dict":
        return dict((k, mk(ffi, lib, s, keep, pathidx)) for k, s in spec[1])
    if t == "cast":
        return ffi.cast(spec[1], mk(ffi, lib, spec[2], keep, pathidx))
    if t == "new":          # owned memory, observed after the call
        p = ffi.new(spec[1], mk(ffi, lib, spec[2], keep, pathidx))
        keep.append(p)
        return p
    if t == "deref":        # struct cdata: ffi.new("struct s *", init)[0]
        p = ffi.new(spec[1] + " *", mk(ffi, lib, spec[2], keep, pathidx))
        keep.append(p)
        return p[0]
    if t == "null":
        return ffi.NULL
    if t == "intlike":
        return IntLike(spec[1])
    if t == "obj":
        return object()
    if t == "fnptr":        # the path's own handle on a C function (builtin in API mode, cdata otherwise)
        return lib.c13_helper if pathidx != 1 else ffi.addressof(lib, "c13_helper")
    if t == "ld":           # long double cdata
        return ffi.cast("long double", struct.unpack("<d", bytes.fromhex(spec[1]))[0])
    raise ValueError(spec)


def fbits(x):
    return struct.pack("<d", x).hex()


def canon(ffi, lib, r, keep):
    if r is None:
        return ["none"]
    if r is True or r is False:
        return ["bool", int(r)]
    if isinstance(r, int):
        return ["int", r]
    if isinstance(r, float):
        return ["float", fbits(r)]
    if isinstance(r, bytes):
        return ["bytes", r.hex()]
    if isinstance(r, str):
        return ["str", [ord(c) for c in r]]
    if isinstance(r, ffi.CData):
        ct = ffi.typeof(r)
        if ct.kind == "pointer":
            a = int(ffi.cast("uintptr_t", r))
            if a == 0:
                return ["ptr", ct.cname, "null"]
            for k, p in enumerate(keep):
                base = int(ffi.cast("uintptr_t", p))
                if base <= a < base + max(1, len(ffi.buffer(p))):
                    return ["ptr", ct.cname, "kept", k, a - base]
            g = int(ffi.cast("uintptr_t", ffi.addressof(lib, "c13_gbuf")))
            if g <= a < g + 64:
                return ["ptr", ct.cname, "global", a - g]
            return ["ptr", ct.cname, "other"]
        if ct.kind == "struct":
            out = []
            for fname, fld in ct.fields:
                v = getattr(r, fname)
                out.append(canon(ffi, lib, v, keep))
            return ["struct", ct.cname, out]
        if ct.kind == "array":
            return ["array", [canon(ffi, lib, r[i], keep) for i in range(len(r))]]
        if ct.kind == "primitive":      # long double
            return ["cdata", ct.cname, fbits(float(r))]
        return ["cdata", ct.cname]
    return ["other", type(r).__name__]


def one_call(paths, sigs, call, progress):
    sig = sigs[call["sig"]]
    outs = []
    for pi, (pname, ffi, lib, get) in enumerate(paths):
        keep = []
        o = dict(path=pname)
        try:
            fn = get(sig["name"])
            args = [mk(ffi, lib, s, keep, pi) for s in call["args"]]
        except Exception as e:      # building the arguments must not fail: harness error
            o["harness_error"] = "%s: %s" % (type(e).__name__, e)
            outs.append(o)
            continue
        before = [bytes(ffi.buffer(p)) if ffi.typeof(p).kind in ("pointer", "array") else b"" for p in keep]
        lib.c13_reclen = 0
        for j, n in enumerate(call["plen"]):
            lib.c13_plen[j] = n
        ffi.errno = call["errno"]
        progress(call, pi)
        try:
            r = fn(*args)
            o["exc"] = None
            o["ret"] = canon(ffi, lib, r, keep)
        except BaseException as e:
            o["exc"] = type(e).__name__
            o["ret"] = None
        o["errno"] = ffi.errno
        n = lib.c13_reclen
        o["rec"] = bytes(ffi.buffer(lib.c13_rec, n)).hex() if n > 0 else ""
        o["called"] = n > 0
        o["mem"] = [bytes(ffi.buffer(p)).hex() for p in keep]
        o["mem_before"] = [b.hex() for b in before]
        outs.append(o)
    return outs


def main(payload):
    work = os.environ["VERIF_WORK"]
    pf = open(os.path.join(work, "c13_progress_%s.txt" % payload.get("tag", "m")), "w")

    def progress(call, pi):
        pf.seek(0)
        pf.write("%d %d      \n" % (call["id"], pi))
        pf.flush()

    paths = build(payload, work)
    res = []
    for call in payload["calls"]:
        res.append(one_call(paths, payload["sigs"], call, progress))
    pf.seek(0)
    pf.write("done       \n")
    pf.close()
    return dict(outcomes=res)


worker_main(main)
