"""C27 — non-aggregate ctypes are canonical over any history.

Tie, two levels.
raw: random histories of _cffi_backend.new_primitive/void/pointer/array/function/struct/union types,
     complete_struct_or_union, dropping handles (cascading frees, address reuse by the real
     allocator), rebuilding the same descriptions, gc.collect() — one fresh process per history.
     For every construction the oldest live handle that IS the returned object (or "fresh"), and
     the number of ctype objects alive at the end, are compared with the Coq model
     C27.Model.run_case (which runs the same low-level steps the theorems are about, with a
     lowest-free-address allocator).  Independently of the model: a construction returns an object
     identical to a live handle iff that handle has the same description.
ffi: histories over several cffi.FFI objects and an out-of-line module FFI (typeof of type strings,
     derived pointer/array types, dropping handles and whole FFI objects, gc.collect()); at
     checkpoints the partition of the live non-aggregate handles by `is` must equal the partition
     by structural description (aggregates by identity).
"""
import json
import os
import re

from lib import vlib
from lib.py2coq import Untranslatable
from lib.vlib import cn, cz, clist, cpair

ID = "C27"

# ---------------------------------------------------------------- regeneration of coq/C27/Gen.v

GEN = os.path.join(vlib.COQ, "C27", "Gen.v")
KEYSRC = {
    "ptypes": "KStatic", '"void"': "KStatic", "ctitem": "KItem", "ctptr": "KPtr", "(void*)length": "KLen",
    "fresult": "KResult", "(constvoid*)(Py_ssize_t)((fabi<<1)|!!ellipsis)": "KFlags",
    "(constvoid*)(Py_ssize_t)(funcbuilder.nargs)": "KNargs",
    "PyTuple_GET_ITEM(fct->ct_stuff,2+i)": "KArgsStored", "PyTuple_GET_ITEM(fargs,i)": "KArgsRaw",
}
CONSTRUCTORS = [   # (Gen name, regex of the function header, texts that must occur: what the new type stores)
    ("primitive_key", r"static PyObject \*new_primitive_type\(const char \*name\)", []),
    ("pointer_key", r"static PyObject \*new_pointer_type\(CTypeDescrObject \*ctitem\)",
     ["td = ctypedescr_new_on_top(ctitem,"]),
    ("array_key", r"new_array_type\(CTypeDescrObject \*ctptr, Py_ssize_t length\)",
     ["ctitem = ctptr->ct_itemdescr;", "td = ctypedescr_new_on_top(ctitem,", "td->ct_stuff = (PyObject *)ctptr;"]),
    ("void_key", r"static PyObject \*new_void_type\(void\)", []),
    ("function_key", r"static PyObject \*new_function_type\(PyObject \*fargs,[^{;]*\)",
     ["PyTuple_SET_ITEM(fct->ct_stuff, 1, (PyObject *)fresult);",
      "if (((CTypeDescrObject *)o)->ct_flags & CT_ARRAY)\n            o = ((CTypeDescrObject *)o)->ct_stuff;",
      "PyTuple_SET_ITEM(fct->ct_stuff, 2 + i, o);"]),
]


def translate_key_recipes(repo):
    from props import c29
    try:
        raw = open(os.path.join(repo, "src", "c", "_cffi_backend.c")).read()
    except OSError as e:
        raise Untranslatable(str(e))
    text = c29._strip_comments(raw)
    defs = []
    for name, header, must in CONSTRUCTORS:
        ms = list(re.finditer(header + r"\s*\{", text))
        if len(ms) != 1:
            raise Untranslatable("%s: function header found %d times" % (name, len(ms)))
        end = text.find("\n}\n", ms[0].end())
        if end < 0:
            raise Untranslatable("%s: end of function not found" % name)
        body = text[ms[0].end():end]
        for m_ in must:
            if re.sub(r"\s+", " ", m_) not in re.sub(r"\s+", " ", body):
                raise Untranslatable("%s: the new type no longer stores its children as modelled (%r missing)"
                                     % (name, m_))
        calls = re.findall(r"get_unique_type\(\s*\w+\s*,\s*unique_key\s*,\s*([^;]+)\);", body)
        if len(calls) != 1:
            raise Untranslatable("%s: expected one get_unique_type(..., unique_key, N) call" % name)
        n = re.sub(r"\s+", "", calls[0])
        slots = {}
        for idx, expr in re.findall(r"unique_key\[([^\]]+)\]\s*=\s*([^;]+);", body):
            idx, expr = re.sub(r"\s+", "", idx), re.sub(r"\s+", "", expr)
            pos = {"0": 0, "1": 1, "2": 2, "3+i": 3}.get(idx)
            if pos is None or pos in slots:
                raise Untranslatable("%s: unexpected key index %r" % (name, idx))
            # WHICH expression goes into the slot: anything outside the vocabulary is recorded as KOther (quoted in
            # a comment), so that the model's key words — and the proofs about them — change with the source
            slots[pos] = KEYSRC[expr] if expr in KEYSRC else "KOther (* %s *)" % re.sub(r"[^\w\[\]+<>|!&,. -]", " ", expr)
        if len(re.findall(r"unique_key\s*\[", body)) - len(re.findall(r"\*\s*unique_key\s*\[\d+\]\s*;", body)) != len(slots):
            raise Untranslatable("%s: a use of unique_key[...] that is not a plain assignment" % name)
        length = {"1": 1, "2": 2, "3+funcbuilder.nargs": 4}.get(n)
        if length is None:
            raise Untranslatable("%s: unexpected key length %r" % (name, n))
        if sorted(slots) != list(range(len(slots))):
            raise Untranslatable("%s: key slots %r are not contiguous" % (name, sorted(slots)))
        defs.append("Definition %s : list ksrc := [ %s ]." % (
            name, "; ".join(slots[i] for i in range(min(length, len(slots))))))
    head = open(GEN + ".snapshot").read().split("Definition primitive_key")[0]
    return head + "\n".join(defs + translate_protocol(text)) + "\n"


def _flat(stmts, conds=()):
    """statements in source order with the stack of enclosing if-conditions: (tokens, conds)"""
    out = []
    for st in stmts:
        if st[0] == "expr":
            out.append((st[1], conds))
        elif st[0] == "return":
            out.append((["return"] + st[1], conds))
        elif st[0] == "if":
            out += _flat(st[2], conds + ("".join(st[1]),))
            if len(st) == 4:
                out += _flat(st[3], conds + ("!(" + "".join(st[1]) + ")",))
        else:
            raise Untranslatable("loop in a cache-protocol function")
    return out


def translate_protocol(text):
    """remove_dead_unique_reference, ctypedescr_dealloc, get_or_insert_unique_type, ctypedescr_clear -> the four
    gen_* facts; any statement about the cache / the weak references / the child fields that is not of the
    expected form makes the translation fail (fallback, reported as a broken obligation)"""
    from props import c29

    def body(header):
        b = c29._function_body(text, header)
        if "#" in b:
            raise Untranslatable("%s: preprocessor line inside" % header)
        return _flat(c29._Stmts(c29._tokens(b)).all())

    def j(toks):
        return "".join(toks)

    # --- remove_dead_unique_reference: is PyDict_DelItem under the dead-weakref test?
    flat = body("static void remove_dead_unique_reference(PyObject *unique_key)\n{")
    dels = [(i, t, c) for i, (t, c) in enumerate(flat) if "PyDict_DelItem" in t or "PyDict_Clear" in t or "PyDict_Pop" in t]
    if len(dels) != 1 or j(dels[0][1]) != "err=PyDict_DelItem(unique_cache,unique_key)":
        raise Untranslatable("remove_dead_unique_reference: expected exactly one err = PyDict_DelItem(unique_cache, unique_key)")
    i, _, conds = dels[0]
    gets = [k for k, (t, c) in enumerate(flat) if j(t) == "wr=PyDict_GetItemWithError(unique_cache,unique_key)" and not c]
    if len(gets) != 1 or gets[0] > i:
        raise Untranslatable("remove_dead_unique_reference: the lookup of the key is not as expected")
    if conds == ("wr!=NULL", "err==0"):
        test = [k for k, (t, c) in enumerate(flat) if j(t) == "err=PyWeakref_GetRef(wr,&tmp)" and c == ("wr!=NULL",)]
        if len(test) != 1 or not gets[0] < test[0] < i or any(
                t[:2] in (["err", "="], ["wr", "="], ["tmp", "="]) for t, c in flat[test[0] + 1:i]):
            raise Untranslatable("remove_dead_unique_reference: err == 0 is not the result of PyWeakref_GetRef(wr, &tmp)")
        only_if_dead = True
    elif conds == ("wr!=NULL",):
        only_if_dead = False
    else:
        raise Untranslatable("remove_dead_unique_reference: PyDict_DelItem under unexpected conditions %r" % (conds,))

    # --- ctypedescr_dealloc: order of the relevant statements
    flat = body("ctypedescr_dealloc(CTypeDescrObject *ct)\n{")
    STEP = {"PyObject_ClearWeakRefs((PyObject*)ct)": ("DClearWeakrefs", ()),
            "remove_dead_unique_reference(ct->ct_unique_key)": ("DRemoveKey", ("ct->ct_unique_key!=NULL",)),
            "Py_XDECREF(ct->ct_itemdescr)": ("DDecrefItem", ()), "Py_XDECREF(ct->ct_stuff)": ("DDecrefStuff", ()),
            "Py_TYPE(ct)->tp_free((PyObject*)ct)": ("DFree", ())}
    IGNORE = {"PyObject_GC_UnTrack(ct)": (), "Py_DECREF(ct->ct_unique_key)": ("ct->ct_unique_key!=NULL",),
              "PyObject_Free(ct->ct_extra)": ("ct->ct_flags&CT_FUNCTIONPTR",)}
    order = []
    for t, c in flat:
        k = j(t)
        if k in STEP and STEP[k][1] == c:
            order.append(STEP[k][0])
        elif not (k in IGNORE and IGNORE[k] == c):
            raise Untranslatable("ctypedescr_dealloc: statement outside the subset: %s under %r" % (" ".join(t), c))
    if len(set(order)) != len(order):
        raise Untranslatable("ctypedescr_dealloc: a step occurs twice")

    # --- get_or_insert_unique_type: live hit returned before the insertion; ct_unique_key set only after it
    flat = body("static PyObject *get_or_insert_unique_type(CTypeDescrObject *x,\n                                           PyObject *key)\n{")
    js = [(j(t), c) for t, c in flat]

    def where(stmt, conds=None):
        ks = [k for k, (t, c) in enumerate(js) if t == stmt and (conds is None or c == conds)]
        if len(ks) != 1:
            raise Untranslatable("get_or_insert_unique_type: expected exactly one %r" % stmt)
        return ks[0]
    hit = where("returnobj", ("wr!=NULL", "obj!=NULL"))
    ins = where("returnNULL", ("PyDict_SetItem(unique_cache,key,wr)<0",))
    setk = where("x->ct_unique_key=key", ())
    lookup = [k for k, (t, c) in enumerate(js) if t == "returnNULL" and c == ("PyDict_GetItemRef(unique_cache,key,&wr)<0",)]
    getref = [k for k, (t, c) in enumerate(js) if c == ("wr!=NULL", "PyWeakref_GetRef(wr,&obj)<0")]
    neww = where("wr=PyWeakref_NewRef((PyObject*)x,NULL)", ())
    if len(lookup) != 1 or not getref or not lookup[0] < getref[0] < hit:
        raise Untranslatable("get_or_insert_unique_type: lookup / PyWeakref_GetRef(wr, &obj) / return obj not in this order")
    uses = {x for t, c in js for x in (t,) + tuple(c) if "unique_cache" in x}
    if uses != {"PyDict_GetItemRef(unique_cache,key,&wr)<0", "PyDict_SetItem(unique_cache,key,wr)<0"} \
            or sum(1 for t, c in js if "ct_unique_key" in t and t != "assert(x->ct_unique_key==NULL)") != 1:
        raise Untranslatable("get_or_insert_unique_type: more uses of unique_cache / ct_unique_key than modelled")
    if any(t.startswith(("obj=", "wr=")) for t, c in js[lookup[0] + 1:hit]):
        raise Untranslatable("get_or_insert_unique_type: wr / obj reassigned before the live test")
    insert_after = hit < neww < ins < setk

    # --- ctypedescr_clear
    flat = body("ctypedescr_clear(CTypeDescrObject *ct)\n{")
    FIELD = {"Py_CLEAR(ct->ct_itemdescr)": "FItem", "Py_CLEAR(ct->ct_stuff)": "FStuff",
             "Py_CLEAR(ct->ct_unique_key)": "FUniqueKey"}
    fields = []
    for t, c in flat:
        k = j(t)
        if k == "return0" and not c:
            continue
        if c:
            raise Untranslatable("ctypedescr_clear: conditional statement")
        m = re.fullmatch(r"Py_CLEAR\(ct->\w+\)", k)
        if not m:
            raise Untranslatable("ctypedescr_clear: statement outside the subset: %s" % " ".join(t))
        fields.append(FIELD.get(k, "FOther"))
    return ["Definition gen_remove_only_if_dead : bool := %s." % ("true" if only_if_dead else "false"),
            "Definition gen_dealloc_order : list dstep := [ %s ]." % "; ".join(order),
            "Definition gen_insert_after_live_check : bool := %s." % ("true" if insert_after else "false"),
            "Definition gen_clear_fields : list cfield := [ %s ]." % "; ".join(fields)]


def regen(ctx):
    from props import c35
    c35.regen_file(ctx, GEN, translate_key_recipes)


PRIM_NAMES = ["char", "short", "int", "long", "long long", "signed char", "unsigned char", "unsigned short",
              "unsigned int", "unsigned long", "unsigned long long", "float", "double", "long double", "_Bool",
              "wchar_t", "char16_t", "char32_t", "int8_t", "uint8_t", "int16_t", "uint16_t", "int32_t", "uint32_t",
              "int64_t", "uint64_t", "intptr_t", "uintptr_t", "ptrdiff_t", "size_t", "ssize_t"]
NPRIMS = len(PRIM_NAMES)


def decayed(d):
    """array-to-pointer decay of a function argument description: (3, len, (ptr,)) -> ptr"""
    return d[2][0] if d[0] == 3 else d


def func_desc(param, kid_descs):
    return (4, param, (kid_descs[0],) + tuple(decayed(k) for k in kid_descs[1:]))
# types that exist for the whole life of the process (created by the backend's module init):
# void, void *, char, char *, char[], int, FILE.  The model gets them as never-dropped handles.
PRELUDE = [["new", 900001, 1, 0, []], ["new", 900002, 2, 0, [900001]], ["new", 900003, 0, 0, []],
           ["new", 900004, 2, 0, [900003]], ["new", 900005, 3, -1, [900004]], ["new", 900006, 0, 2, []],
           ["new", 900007, 5, 0, []]]


# descriptions of the permanent types (kind, param, kids): void*, char*, char[]
PERMANENT = {(2, 0, ((1, 0, ()),)), (2, 0, ((0, 0, ()),)), (3, -1, ((2, 0, ((0, 0, ()),)),))}


class RawGen:
    def __init__(self, rng):
        self.rng = rng
        self.ops = []
        self.info = {}           # live handle -> dict(kind, sized, desc, order)
        self.next_h = 1
        self.order = 0
        self.completed = set()
        self.agg_fields = {}     # aggregate number -> descriptions of its field types
        self.prims = rng.sample(range(NPRIMS), rng.choice([2, 3, 5]))
        self.nagg = 0

    def live(self, pred=lambda i: True):
        return [h for h, i in self.info.items() if pred(i)]

    def add(self, kind, param, kids, sized, extra=None):
        h = self.next_h
        self.next_h += 1
        self.order += 1
        if kind == 5:
            self.nagg += 1
            desc = ("agg", self.nagg)
        elif kind == 4:
            desc = func_desc(param, [self.info[k]["desc"] for k in kids])
        else:
            desc = (kind, param, tuple(self.info[k]["desc"] for k in kids))
        self.ops.append(["new", h, kind, param, list(kids)])
        self.info[h] = dict(kind=kind, sized=sized, desc=desc, order=self.order, extra=extra)
        return h

    def new_any(self):
        rng = self.rng
        k = rng.random()
        if k < 0.22 or not self.info:
            return self.add(0, rng.choice(self.prims), [], True)
        if k < 0.25:
            return self.add(1, 0, [], False)
        if k < 0.55:
            # pointer to anything (re-deriving from the same few targets makes collisions likely)
            t = rng.choice(self.live())
            return self.add(2, 0, [t], True, extra=self.info[t]["sized"])
        if k < 0.72:
            ptrs = self.live(lambda i: i["kind"] == 2 and i["extra"])
            if ptrs:
                length = rng.choice([-1, 0, 3, 3, 7])
                return self.add(3, length, [rng.choice(ptrs)], length >= 0)
            return self.add(0, rng.choice(self.prims), [], True)
        if k < 0.92:
            ok_arg = self.live(lambda i: i["kind"] in (0, 2, 3, 4))      # arrays too: they decay to pointers
            ok_res = self.live(lambda i: i["kind"] in (0, 1, 2, 4))
            if ok_arg and ok_res:
                nargs = rng.choice([0, 1, 1, 2, 3])
                kids = [rng.choice(ok_res)] + [rng.choice(ok_arg) for _ in range(nargs)]
                return self.add(4, rng.choice([0, 0, 1]) if nargs else 0, kids, True)
            return self.add(0, rng.choice(self.prims), [], True)
        return self.add(5, rng.randrange(2), [], False)

    def rebuild(self):
        """re-issue one of the earlier constructions whose children are all still alive"""
        cands = [op for op in self.ops if op[0] == "new" and op[2] != 5 and all(k in self.info for k in op[4])]
        if not cands:
            return self.new_any()
        op = self.rng.choice(cands[-40:])
        i = next((i for h, i in self.info.items() if h == op[1]), None)
        sized = True if op[2] in (0, 2, 4) else (op[3] >= 0 if op[2] == 3 else False)
        extra = self.info[op[4][0]]["sized"] if op[2] == 2 else None
        return self.add(op[2], op[3], op[4], sized, extra=extra)

    def drop(self, h=None):
        live = self.live()
        if not live:
            return
        h = h if h is not None else self.rng.choice(live)
        del self.info[h]
        self.ops.append(["drop", h])

    def array_arg_burst(self):
        """function types built from array-typed arguments in several spellings of the same C type, the array
        types then dropped (the function type does not keep them alive), arrays of ANOTHER item type with an
        equally long name created right away (to land on the freed address), function types built from those"""
        rng = self.rng
        by_len = {}
        for i, nm in enumerate(PRIM_NAMES):
            by_len.setdefault(len(nm), []).append(i)
        group = rng.choice([g for g in by_len.values() if len(g) >= 2])
        p1, p2 = rng.sample(group, 2)
        res = self.add(0, rng.choice(self.prims), [], True)
        t1 = self.add(0, p1, [], True)
        ptr1 = self.add(2, 0, [t1], True, extra=True)
        lens = rng.sample([-1, 0, 3, 5, 7], 3)
        arrs = [self.add(3, n, [ptr1], n >= 0) for n in lens]
        ell = rng.choice([0, 0, 1])
        fs = [self.add(4, ell, [res, a], True) for a in arrs] + [self.add(4, ell, [res, ptr1], True)]
        for a in arrs:
            self.drop(a)
        if rng.random() < 0.5:
            self.ops.append(["collect"])
        t2 = self.add(0, p2, [], True)
        ptr2 = self.add(2, 0, [t2], True, extra=True)
        arrs2 = [self.add(3, n, [ptr2], n >= 0) for n in lens + rng.sample([-1, 0, 3, 5, 7], 2)]
        fs2 = [self.add(4, ell, [res, a], True) for a in arrs2] + [self.add(4, ell, [res, ptr2], True)]
        for h in rng.sample(fs + fs2 + arrs2, rng.randrange(len(fs + fs2 + arrs2))):
            self.drop(h)

    def ptr_to(self, t):
        return self.add(2, 0, [t], True, extra=True)

    def zero_size_burst(self):
        """array types whose ITEM type has size 0 (T[0] of a primitive / of an array / of an empty struct, a
        struct or union completed with no fields and total size 0, arrays of those, int[n][0]) built with several
        different lengths that are alive at the same time, re-built in another order (must be the same objects),
        dropped (optionally gc.collect()) and re-built in the opposite order; then zero-length arrays of each of
        them (T[n][0] next to T[0][n]), pointers to them and function types taking them (arguments decay)"""
        rng = self.rng
        flavour = rng.choice(["arr0", "arr0", "empty", "arr_of_empty", "arr0_of_arr", "nested", "empty_arr0"])
        prim = self.add(0, rng.choice(self.prims), [], True)
        pp = self.ptr_to(prim)

        def empty_agg():
            a = self.add(5, rng.randrange(2), [], False)
            self.completed.add(a)
            self.agg_fields[self.info[a]["desc"][1]] = []
            self.info[a]["sized"] = True
            self.ops.append(["complete", a, []])          # the worker completes it with total size 0
            return a
        if flavour == "arr0":
            item = self.add(3, 0, [pp], True)                                   # prim[0]
        elif flavour == "empty":
            item = empty_agg()                                                  # struct {} of size 0
        elif flavour == "arr_of_empty":
            item = self.add(3, rng.choice([0, 2, 4]), [self.ptr_to(empty_agg())], True)
        elif flavour == "empty_arr0":
            item = self.add(3, 0, [self.ptr_to(empty_agg())], True)
        elif flavour == "arr0_of_arr":
            item = self.add(3, 0, [self.ptr_to(self.add(3, 5, [pp], True))], True)   # prim[0][5]
        else:
            item = self.add(3, rng.choice([3, 4]), [self.ptr_to(self.add(3, 0, [pp], True))], True)   # prim[4][0]
        pitem = self.ptr_to(item)
        lens = rng.sample([-1, 0, 1, 2, 3, 5, 7, 9], rng.choice([3, 4, 5]))
        arrs = [self.add(3, n, [pitem], n >= 0) for n in lens]
        for n in rng.sample(lens, 2):
            self.add(3, n, [pitem], n >= 0)
        sized = [a for a in arrs if self.info[a]["sized"]]
        # T[n][0] over every live T[n], next to the item's own [0] array; pointers and decaying arguments
        zs = [self.add(3, 0, [self.ptr_to(a)], True) for a in rng.sample(sized, min(2, len(sized)))]
        fs = [self.add(4, 0, [prim, a], True) for a in rng.sample(arrs, 2)]
        for a in rng.sample(arrs, rng.randrange(1, len(arrs) + 1)):
            self.drop(a)
        if rng.random() < 0.5:
            self.ops.append(["collect"])
        again = [self.add(3, n, [pitem], n >= 0) for n in reversed(lens)]
        more = [self.add(3, n, [pitem], n >= 0) for n in rng.sample([0, 1, 2, 3, 4, 5, 6, 7, 8, 9, 11], 3)]
        every = [h for h in arrs + zs + fs + again + more if h in self.info]
        for h in rng.sample(every, rng.randrange(len(every) + 1)):
            self.drop(h)

    def drop_rebuild(self):
        """drop the LAST reference to a type (no other live handle has or contains its description) while
        a weakref callback rebuilds it"""
        def contains(d, x):
            if d == x:
                return True
            if d[0] == "agg":               # a completed aggregate keeps its field types alive
                return any(contains(k, x) for k in self.agg_fields.get(d[1], ()))
            return any(contains(k, x) for k in d[2])
        cands = []
        for h, i in self.info.items():
            if i["kind"] == 5:
                continue
            if (i["kind"], i["desc"][1]) in ((0, 0), (0, 2), (1, 0)):
                continue                      # char, int, void are permanent
            if i["desc"] in PERMANENT:
                continue
            if any(h2 != h and contains(i2["desc"], i["desc"]) for h2, i2 in self.info.items()):
                continue
            cands.append(h)
        if not cands:
            return
        h = self.rng.choice(cands)
        info = self.info.pop(h)
        h2 = self.next_h
        self.next_h += 1
        self.order += 1
        self.ops.append(["drop_rebuild", h, h2])
        self.info[h2] = dict(info, order=self.order)

    def complete(self):
        aggs = [h for h in self.live(lambda i: i["kind"] == 5) if h not in self.completed]
        if not aggs:
            return
        a = self.rng.choice(aggs)
        older = [h for h, i in self.info.items() if i["order"] < self.info[a]["order"] and i["kind"] in (0, 2, 4)]
        if not older:
            return
        kids = [self.rng.choice(older) for _ in range(self.rng.choice([1, 2, 3]))]
        self.completed.add(a)
        self.agg_fields[self.info[a]["desc"][1]] = [self.info[k]["desc"] for k in kids]
        self.ops.append(["complete", a, kids])


def gen_raw(rng, size):
    g = RawGen(rng)
    zero_at = rng.randrange(size) if size >= 100 else -1     # every history of 100+ operations has a zero-size burst
    for step in range(size):
        k = rng.random()
        nlive = len(g.info)
        if step == zero_at:
            g.zero_size_burst()
        elif k < 0.40:
            g.new_any()
        elif k < 0.60:
            g.rebuild()
        elif k < 0.88:
            g.drop()
        elif k < 0.91:
            g.complete()
        elif k < 0.93:
            g.ops.append(["collect"])
        elif k < 0.96:
            g.drop_rebuild()
        elif k < 0.975:
            g.array_arg_burst()
        elif k < 0.985:
            g.zero_size_burst()
        else:
            # drop a whole family: everything, or all but a few, then rebuild from scratch
            live = g.live()
            rng.shuffle(live)
            for h in live[: len(live) * rng.choice([1, 2, 3]) // 3]:
                g.drop(h)
        if nlive > 60:
            for _ in range(20):
                g.drop()
    return dict(level="raw", ops=[list(o) for o in PRELUDE[:6]] + g.ops)


TYPE_STRINGS = ["int", "int *", "int **", "char *", "char **", "int[3]", "int[]", "int *[3]", "int(*)[3]",
                "struct s *", "struct s **", "s_t *", "fn_t", "fn_t *", "int(*)(int, char *)", "void *", "void **",
                "void(*)(void)", "union u *", "struct s *(*)(struct s *)", "long double *", "enum e *",
                "int(*)(int, ...)", "int(*)(int)", "unsigned int", "unsigned int *", "char[4]", "struct s[2]",
                "short", "short *", "double(*)(double, double)", "struct s", "union u", "enum e"]
# array types whose item type has size 0, with several lengths each; zero-length arrays of sized arrays
ZERO_STRINGS = ["int[0]", "int[7][0]", "int[9][0]", "int[3][0]", "int[][0]", "int[0][7]", "int[0][9]", "int(*)[0]",
                "int(*)[5][0]", "int(*)[7][0]", "char[0]", "char[5][0]", "char[4][0]", "short[2][3][0]",
                "short[4][3][0]", "short[2][0][3]", "short[4][0][3]", "struct s[0]", "struct s[2][0]", "struct s[3][0]",
                "int *[0]", "int *[2][0]", "int *[6][0]", "struct empty[2]", "struct empty[4]", "struct empty[2][0]",
                "struct empty[4][0]", "void(*)(int[7][0], int[9][0])", "void(*)(int[2][0], int[4][0])"]


def gen_ffi(rng, size):
    ops = [["ffi", 0, False], ["ffi", 1, False], ["ffi", 2, True], ["ffi", 3, 2]]
    ffis = {0, 1, 2, 3}
    handles = []
    nh = 1
    for step in range(size):
        k = rng.random()
        if k < 0.45 and ffis:
            ops.append(["typeof", nh, rng.choice(sorted(ffis)),
                        rng.choice(ZERO_STRINGS if rng.random() < 0.4 else TYPE_STRINGS)])
            handles.append(nh)
            nh += 1
        elif k < 0.60 and handles and ffis:
            ops.append(["derive", nh, rng.choice(sorted(ffis)), rng.choice(handles),
                        rng.choice(["ptr", "arr", "item", "arr0", "arr5", "arr7", "arr"])])
            handles.append(nh)
            nh += 1
        elif k < 0.80 and handles:
            h = rng.choice(handles)
            handles.remove(h)
            ops.append(["drop", h])
        elif k < 0.86 and ffis:
            f = rng.choice(sorted(ffis))
            ffis.discard(f)
            ops.append(["dropffi", f])
        elif k < 0.92:
            f = rng.randrange(5)
            ffis.add(f)
            ops.append(["ffi", f, rng.choice([False, False, False, True, 2])])    # 2: a bare _cffi_backend.FFI()
        else:
            ops.append(["collect"])
        if step % 12 == 11:
            ops.append(["check"])
    ops += [["collect"], ["check"]]
    return dict(level="ffi", ops=ops)


def generate(ctx):
    rng = ctx.rng
    cases = []
    for size in ctx.n([40, 120, 300, 600, 600, 1000], [40, 120] + [300] * 6 + [600] * 10 + [1000] * 12 + [2000] * 6):
        cases.append(gen_raw(rng, size))
    for size in ctx.n([60, 200, 400], [60] + [200] * 5 + [400] * 10 + [800] * 6):
        cases.append(gen_ffi(rng, size))
    return cases


# ---------------------------------------------------------------- model literals

def c_hop(op):
    if op[0] == "new":
        _, h, kind, param, kids = op
        return "HNew %s (%s, %s) %s" % (cn(h), cn(kind), cz(param), clist([cn(k) for k in kids]))
    if op[0] == "complete":
        return "HComplete %s %s" % (cn(op[1]), clist([cn(k) for k in op[2]]))
    if op[0] == "drop":
        return "HDrop %s" % cn(op[1])
    if op[0] == "drop_rebuild":
        return "HDropRebuild %s %s" % (cn(op[1]), cn(op[2]))
    return "HCollect"


def c_hout(o):
    if o[0] == "fresh":
        return "HFresh"
    if o[0] == "same":
        return "HSame %s" % cn(o[1])
    if o[0] == "ok":
        return "HOk"
    return "HBad"


def model_pairs(case, out):
    # FILE (an aggregate created by the backend's module init) exists in every process: the model gets
    # it as one more never-dropped object; the six other permanent types are the first six operations
    # of every raw history (PRELUDE), executed by the worker as well
    ops = [PRELUDE[6]] + case["ops"]
    exp = ["HFresh"] + [c_hout(o) for o in out["outs"]]
    return (clist([c_hop(o) for o in ops]), cpair(clist(exp), cn(out["alive"])))


def model_check(items):
    return vlib.coq_mismatches(["C27.Model"], "run_case", "pair_eqb (list_eqb hout_eqb) N.eqb",
                               [model_pairs(c, o) for c, o in items], shard=1, timeout=900)


# ---------------------------------------------------------------- predicate (raw level)

def predicate_raw(case, out):
    """a construction must be identical to a live handle iff that handle has the same description"""
    bad = []
    desc = {}            # live handle -> description (aggregates: unique tokens)
    nagg = 0
    for i, (op, o) in enumerate(zip(case["ops"], out["outs"])):
        if o[0] == "err":
            bad.append(("operation %r raised %s: %s" % (op, o[1], o[2]), i))
            if op[0] == "new":
                desc[op[1]] = ("error", i)
            continue
        if op[0] == "new":
            _, h, kind, param, kids = op
            if kind == 5:
                nagg += 1
                d = ("agg", nagg)
            elif kind == 4:
                d = func_desc(param, [desc[k] for k in kids])
            else:
                d = (kind, param, tuple(desc[k] for k in kids))
            if "BADSIG" in o:
                bad.append(("function type construction #%d returned '%s', whose result/arguments/ellipsis are not "
                            "the requested ones (arrays decayed to pointers)" % (h, o[-1]), i))
            same = [hh for hh, dd in desc.items() if dd == d]
            if o[0] == "same":
                if o[1] not in desc or desc[o[1]] != d:
                    bad.append(("construction #%d returned the object of live handle #%d, which has a different "
                                "description" % (h, o[1]), i))
            elif same:
                bad.append(("construction #%d is a new object although live handle #%d has the same description"
                            % (h, same[0]), i))
            desc[h] = d
        elif op[0] == "drop":
            desc.pop(op[1], None)
        elif op[0] == "drop_rebuild":
            d = desc.pop(op[1], None)
            if o[0] == "notfired":
                bad.append(("harness: weakref callback did not fire raised (the dropped handle was not the last "
                            "reference)", i))
            elif o[0] == "same" and desc.get(o[1]) != d:
                bad.append(("rebuilding #%d inside its own weakref callback returned the object of live handle #%d "
                            "which has a different description" % (op[1], o[1]), i))
            desc[op[2]] = d
    return bad


def run_one(ctx, case):
    s = ctx.scratch()
    out, p = s.run_worker("c27_worker.py", dict(case=case), timeout=900)
    if out is None:
        if p.returncode < 0:
            return None, p.returncode
        raise RuntimeError("C27 worker: internal error: " + p.stderr[-1500:])
    return out, None


def consistent(ops):
    live, out, completed = set(), [], set()
    for op in ops:
        if op[0] == "new":
            if not all(k in live for k in op[4]):
                continue
            live.add(op[1])
        elif op[0] == "drop":
            if op[1] not in live:
                continue
            live.discard(op[1])
        elif op[0] == "complete":
            if op[1] not in live or not all(k in live for k in op[2]):
                continue
        elif op[0] == "drop_rebuild":
            if op[1] not in live:
                continue
            live.discard(op[1])
            live.add(op[2])
        out.append(op)
    return out


def ddmin(ops, fails, max_rounds=30):
    n, rounds = 2, 0
    while len(ops) >= 2 and rounds < max_rounds:
        chunk = max(1, len(ops) // n)
        reduced = False
        for i in range(0, len(ops), chunk):
            rounds += 1
            if rounds > max_rounds:
                break
            cand = ops[:i] + ops[i + chunk:]
            if cand and fails(cand):
                ops, n, reduced = cand, max(n - 1, 2), True
                break
        if not reduced:
            if chunk == 1:
                break
            n = min(len(ops), n * 2)
    return ops


def shrink(ctx, case, kind):
    npre = 6 if case["level"] == "raw" else 4      # fixed prefix: permanent types / the initial FFI objects
    pre = case["ops"][:npre]
    fix = (lambda ops: pre + consistent(pre + ops)[npre:]) if case["level"] == "raw" else (lambda ops: pre + ops)

    def fails(ops):
        c = dict(level=case["level"], ops=fix(ops))
        out, died = run_one(ctx, c)
        if kind == "crash":
            return died is not None
        if out is None:
            return False
        if kind == "predicate":
            if c["level"] == "raw":       # (an operation that merely raises is a harness matter, not the predicate)
                return any("raised" not in x[0] for x in predicate_raw(c, out))
            return any(o[0] in ("check", "wrong") and o[1] for o in out["outs"])
        bad, _, err = model_check([(c, out)])
        return bool(bad)
    return dict(level=case["level"], ops=fix(ddmin(list(case["ops"][npre:]), fails)))


def evaluate(ctx, cases):
    done = []
    for case in cases:
        out, died = run_one(ctx, case)
        if died:
            small = shrink(ctx, case, "crash") if not ctx.replay_mode else case
            ctx.violation(small, "process died (rc=%s) during a type construction/drop history (%s level)"
                          % (died, case["level"]))
            continue
        ctx.count(len(case["ops"]))
        ctx.hist("level", case["level"])
        if case["level"] == "raw":
            bad = predicate_raw(case, out)
            if bad:
                real = [b for b in bad if "raised" not in b[0]]
                if real:
                    small = shrink(ctx, case, "predicate") if not ctx.replay_mode and len(ctx.violations) < 2 else case
                    out2, _ = run_one(ctx, small)
                    b2 = [b for b in predicate_raw(small, out2) if "raised" not in b[0]] if out2 else real
                    ctx.violation(small, "%s ; history %s" % ((b2 or real)[0][0], json.dumps(small["ops"])[:1500]))
                else:
                    raise RuntimeError("C27 generator produced an invalid construction: %r" % (bad[0],))
            for op, o in zip(case["ops"], out["outs"]):
                if op[0] == "drop_rebuild":
                    ctx.hist("rebuild_inside_dealloc", o[0])
                    ctx.nontrivial(("drop_rebuild", len(done), op[1]))
                if op[0] == "new":
                    ctx.hist("new_kind", op[2])
                    ctx.hist("new_result", o[0])
                    if o[0] == "same":
                        ctx.nontrivial(("same", len(done), op[1]))
            # rebuilt-after-free events: a description constructed fresh for the 2nd+ time
            seen = set()
            desc = {}
            nagg = 0
            for op, o in zip(case["ops"], out["outs"]):
                if op[0] == "new" and o[0] != "err":
                    if op[2] == 5:
                        nagg += 1
                        d = ("agg", nagg)
                    elif op[2] == 4:
                        d = func_desc(op[3], [desc.get(k) or (0, -1, ()) for k in op[4]])
                        if any((desc.get(k) or (0,))[0] == 3 for k in op[4][1:]):
                            ctx.hist("function_with_array_args", o[0])
                    else:
                        d = (op[2], op[3], tuple(desc.get(k) for k in op[4]))
                    desc[op[1]] = d
                    if o[0] == "fresh" and d in seen and op[2] != 5:
                        ctx.nontrivial(("rebuilt", len(done), op[1]))
                        ctx.hist("rebuilt_after_free", 1)
                    seen.add(d)
            ctx.hist("alive_at_end", out["alive"])
            done.append((case, out))
        else:
            nchecks = 0
            for i, o in enumerate(out["outs"]):
                if o[0] == "check":
                    nchecks += 1
                    ctx.hist("ffi_check_classes", o[2] // 5 * 5)
                    if o[2] > 3:
                        ctx.nontrivial(("ffi", len(done), i, o[2], o[3]))
                    if o[1]:
                        small = shrink(ctx, case, "predicate") if not ctx.replay_mode and len(ctx.violations) < 2 else case
                        ctx.violation(small, "%s (checkpoint at operation %d; history %s)" % (
                            o[1][0], i, json.dumps(small["ops"])[:1500]))
                        break
                elif o[0] == "wrong":
                    small = shrink(ctx, case, "predicate") if not ctx.replay_mode and len(ctx.violations) < 2 else case
                    out2, _ = run_one(ctx, small)
                    w = next((x for x in (out2 or out)["outs"] if x[0] == "wrong"), o)
                    ctx.violation(small, "%s ; history %s" % (w[1], json.dumps(small["ops"])[:1500]))
                    break
                elif o[0] == "err":
                    ctx.hist("ffi_errors", o[1])
                elif o[0] == "ok" and len(o) > 1:
                    ctx.hist("ffi_zero_size_item_arrays", o[1])
                    ctx.nontrivial(("ffi0", len(done), i))
    bad, outs, err = model_check(done)
    if err:
        ctx.obligation_broken("C27 model evaluation", err)
    for j in bad[:(0 if ctx.violations else 1)]:
        case, out = done[j]
        small = shrink(ctx, case, "model") if not ctx.replay_mode else case
        out2, _ = run_one(ctx, small)
        _, mo, _ = model_check([(small, out2)])
        ctx.mismatch(small, "model = %s ; implementation = %s alive=%d ; history %s" % (
            mo.get(0), json.dumps(out2["outs"]), out2["alive"], json.dumps(small["ops"])[:1200]),
            "C27.Model.hrun vs get_unique_type/ctypedescr_dealloc")
    for c in cases[:1]:
        ctx.sample(dict(level=c["level"], ops=c["ops"][:30]))


def run(ctx):
    ctx.cov["rule"] = ("raw level: one process per history of 40..1000 (thorough ..2000) operations on "
                       "_cffi_backend.new_primitive/void/pointer/array/function/struct/union_type over a small pool of "
                       "descriptions (so that collisions are frequent), re-issuing earlier constructions, dropping "
                       "handles singly and in families (cascading frees, real address reuse), function types built from "
                       "array-typed arguments (three lengths / open arrays next to the pointer form; arrays dropped, arrays "
                       "of another item type with an equally long name created on the freed addresses, function types "
                       "built from those; the returned ctype's result/args/ellipsis compared with the request), zero-size "
                       "bursts (item types of size 0: T[0] of a primitive / of an array / of an empty struct, struct or "
                       "union completed with total size 0, arrays of those, T[n][0]; 3-5 different lengths alive together, "
                       "rebuilt in another order, dropped, gc.collect(), rebuilt in the opposite order; T[n][0] next to "
                       "T[0][n]; one such burst in every history of 100+ operations), acyclic "
                       "complete_struct_or_union, gc.collect(); ffi level: 3-4 cffi.FFI objects incl. out-of-line "
                       "module FFIs and bare _cffi_backend.FFI objects, typeof over 34 + 29 type strings (29: arrays of "
                       "zero-size items with several lengths, T[0][n]), derived pointer / [0] [3] [5] [7] array / item "
                       "types, every typeof result compared with the requested spelling, dropping handles "
                       "and FFI objects, gc.collect(), partition checkpoints every 12 operations. Non-trivial = a "
                       "construction that returned an existing live object, or rebuilt a description freed earlier, "
                       "or an ffi checkpoint with more than 3 description classes. evaluations = operations.")
    ctx.assumptions += [
        "coq/C27/Gen.v: for each constructor (primitive, pointer, array, void, function) WHICH expression every "
        "unique_key slot receives (unknown expressions -> KOther) and the key length handed to get_unique_type, plus "
        "textual presence of the statements that store the children in the new type; and the cache protocol "
        "(gen_remove_only_if_dead, gen_dealloc_order, gen_insert_after_live_check, gen_clear_fields) read from "
        "remove_dead_unique_reference, ctypedescr_dealloc, get_or_insert_unique_type, ctypedescr_clear; regenerated "
        "on every run; when the source is outside the translator's subset the snapshot is used AND a broken "
        "obligation is reported; the model's key words are built from the recipes (key_of) and Free/New/GcClear "
        "consult the protocol facts, so Proofs.v is re-proved on the current text",
        "static objects whose addresses are keys (primitive table entries, the literal \"void\") are pairwise "
        "distinct and disjoint from heap objects (modelled as negative words)",
        "hand-written model C27/Model.v of the transition structure of unique_cache / get_or_insert_unique_type / "
        "ctypedescr_dealloc / remove_dead_unique_reference / tp_clear; tied by this run's differential histories "
        "(raw level)",
        "model fact tied by the raw-level correspondence: the key of a type is built from the objects the type itself "
        "references and keeps alive — for a function type the result and the DECAYED arguments (array -> its pointer "
        "type, new_function_type); exercised with array-typed arguments of several lengths, array types freed and their "
        "addresses reused, and the returned ctype's .result/.args/.ellipsis compared with the request",
        "CPython: weak references are cleared before an object's memory can be reused; refcount-zero objects are "
        "deallocated at once; the allocator never places a new object on a live one (Inv: distinct addresses)",
        "the cyclic-GC path (zombie objects) is covered by the theorems only: real ctype cycles (struct with a "
        "pointer to itself) are never collected because CField objects are not GC-traversable, so gc.collect() "
        "frees no ctype in practice",
        "Python-side model.global_cache (WeakValueDictionary keyed by (constructor, child ctypes)) is exercised by "
        "the ffi-level histories (predicate only), not modelled",
        "single-threaded (GIL build); the free-threaded build's unique_cache_lock is out of scope"]
    from props import c29
    st = ctx.extra.get("translator", {}).get("C27/Gen.v", "")
    if st.startswith("fallback"):
        # fail closed: the source no longer has the shape the translator reads, so the theorems (proved on the
        # committed snapshot) say nothing about this tree
        ctx.obligation_broken("C27/Gen.v cannot be regenerated from the current source", st)
    c29.settle_obligations(ctx, "C27", GEN, translate_key_recipes)
    evaluate(ctx, generate(ctx))


MANIFEST = dict(
    technique="Coq proof (cache invariant by induction over all histories with an adversarial address-reusing "
              "allocator and deferred GC deallocation; key = the word list built from the regenerated unique_key "
              "recipes; cache protocol regenerated from the four C functions) + differential histories on the raw "
              "backend + partition / request-vs-result checks over several FFI objects",
    text="Proof (coq/C27/Props.v): in the model of unique_cache with weak references, get_or_insert_unique_type, "
         "ctypedescr_dealloc -> remove_dead_unique_reference and tp_clear, for every history and every allocator "
         "choice: two live non-aggregate types with the same description are the same object (C27_canonical; over whole "
         "description trees with aggregates as leaves: C27_canonical_deep); a construction returns an object with "
         "exactly the requested description — the live one if any, else a new one (C27_new_returns: no false sharing "
         "through stale keys, reused addresses or colliding key words); live cache entries match their keys "
         "(C27_entries_sound); a type rebuilt after a free is a new, again unique, object (C27_rebuild_after_free); "
         "C27_heap_wellformed, C27_decayed_args_alive. The cache key is the raw WORD list (no kind tag) built from the "
         "recipes of Gen.v: equal words imply equal descriptions (C27_key_words_determine_description for any heap "
         "with distinct addresses, C27_key_words_injective for reachable states; static objects are modelled as words "
         "< 0, the length word is length mod 2^64). Regenerated on every run from src/c/_cffi_backend.c, fail closed "
         "(a fallback is reported as a broken obligation): which expression each unique_key[i] slot receives and the key "
         "length, per constructor (C27_gen_key_recipes; an unknown expression becomes KOther and breaks Proofs.v), and the "
         "cache protocol (C27_gen_cache_protocol: delete only under the dead-weakref test, dealloc order clear-weakrefs / "
         "remove-key / release children / free, live hit returned before the insertion and ct_unique_key set only on "
         "insertion, tp_clear resets the two child fields only) which Free / New / GcClear of the model consult. "
         "Correspondence only: the model's transition structure against the raw backend (histories incl. arrays of "
         "zero-size item types — T[0], structs/unions completed with size 0, arrays of those, T[n][0] next to T[0][n] — "
         "with several lengths alive together, drops, gc.collect(), rebuilds inside weakref callbacks); that the front "
         "ends (cffi.FFI, out-of-line module FFIs, bare _cffi_backend.FFI, model.global_cache, realize_c_type) preserve "
         "canonicity and return the requested type: ffi-level partition checkpoints + typeof(S) must be the type S.",
    note="Trusted: Coq kernel; hand model C27/Model.v of the transition structure (differential tie on the raw level; the "
         "key recipes and the four protocol facts inside it are regenerated); static storage disjoint from the heap; "
         "CPython weakref/refcount semantics as stated; the harness's structural description of ctypes. Not in the "
         "model: the census that get_unique_type's five callers are the only producers of non-aggregate ctypes; "
         "threads / LOCK_UNIQUE_CACHE (free-threaded build out of scope). Theorems closed under the global context.",
    design_ref="DESIGN.md §4 C27")
