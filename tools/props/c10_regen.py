"""C10 — shape-matching drivers (DESIGN.md Appendix D) that regenerate coq/C10/Gen.v.

Each driver cuts the *holes* (operators, constants, comparison directions) out of the function's AST,
compares what remains with a recorded template (fail closed on any difference) and hands the holes to
the generic expression translator of tools/lib/py2coq.py."""
import ast
import copy
import hashlib
import os

from lib import py2coq
from lib.py2coq import Untranslatable, Expr
from props import c06_extract as X


def _hole(k):
    return ast.Name(id="HOLE_%s" % k, ctx=ast.Load())


def _get(node, *path):
    try:
        for p in path:
            node = node[p] if isinstance(p, int) else getattr(node, p)
        return node
    except (AttributeError, IndexError, TypeError) as e:
        raise Untranslatable("shape: missing %r (%s)" % (path, e))


def _set(node, path, value):
    parent = _get(node, *path[:-1])
    last = path[-1]
    try:
        if isinstance(last, int):
            parent[last] = value
        else:
            setattr(parent, last, value)
    except (AttributeError, IndexError, TypeError) as e:
        raise Untranslatable("shape: cannot cut %r (%s)" % (path, e))


def cut(fn, holes):
    """holes: {name: path}; returns (template_text, {name: subtree})"""
    f = copy.deepcopy(fn)
    got = {}
    for k, path in holes.items():
        got[k] = _get(f, *path)
        _set(f, path, _hole(k))
    return py2coq.shape(ast.Module(body=f.body, type_ignores=[])), got


def digest(text):
    return hashlib.sha1(text.encode()).hexdigest()[:16]


# ---------------------------------------------------------------- model.EnumType.build_baseinttype

BBT_HOLES = {
    "EMPTY": ("body", 1, "orelse", -1, "value"),
    "NEEDS_SIGNED": ("body", 2, "test"),
    "S_SIGN": ("body", 2, "body", 0, "value"),
    "S_C1": ("body", 2, "body", 1, "value", "args", 0),
    "S_C2": ("body", 2, "body", 2, "value", "args", 0),
    "U_SIGN": ("body", 2, "orelse", 0, "value"),
    "U_C1": ("body", 2, "orelse", 1, "value", "args", 0),
    "U_C2": ("body", 2, "orelse", 2, "value", "args", 0),
    "FITS1": ("body", 7, "test"),
    "FITS2": ("body", 8, "test"),
}
BBT_TEMPLATE = "44e0410e68747f96"     # digest of the template (recorded from the pinned source; see regen_template())


def _str_const(node):
    if isinstance(node, ast.Constant) and isinstance(node.value, str):
        return X.cs(node.value)
    raise Untranslatable("expected a string constant")


def _int_const(node):
    if isinstance(node, ast.Constant) and type(node.value) is int:
        return "(%d)" % node.value
    raise Untranslatable("expected an int constant")


def build_baseinttype(tree):
    fn = py2coq.find_function(tree, "build_baseinttype", "EnumType")
    if [a.arg for a in fn.args.args] != ["self", "ffi", "finishlist"]:
        raise Untranslatable("build_baseinttype signature")
    tmpl, h = cut(fn, BBT_HOLES)
    if digest(tmpl) != BBT_TEMPLATE:
        raise Untranslatable("build_baseinttype no longer has the recorded shape (digest %s)" % digest(tmpl))
    # the `else` branch of `if self.enumvalues:` ends with  smallest_value = largest_value = <EMPTY>
    last = _get(fn, "body", 1, "orelse", -1)
    if not (isinstance(last, ast.Assign) and [getattr(t, "id", None) for t in last.targets] ==
            ["smallest_value", "largest_value"]):
        raise Untranslatable("empty-enum default changed")
    names = dict(smallest_value="smallest_value", largest_value="largest_value", size1="size1", size2="size2",
                 sign="sign")
    e = Expr(names)
    out = []
    out.append("Definition gen_empty_default : Z := %s." % _int_const(h["EMPTY"]))
    out.append("Definition gen_needs_signed (smallest_value : Z) : bool := %s." % e.b(h["NEEDS_SIGNED"]))
    out.append("Definition gen_signed_branch : Z * (cstr * cstr) := (%s, (%s, %s))."
               % (_int_const(h["S_SIGN"]), _str_const(h["S_C1"]), _str_const(h["S_C2"])))
    out.append("Definition gen_unsigned_branch : Z * (cstr * cstr) := (%s, (%s, %s))."
               % (_int_const(h["U_SIGN"]), _str_const(h["U_C1"]), _str_const(h["U_C2"])))
    for k in ("FITS1", "FITS2"):
        out.append("Definition gen_%s (smallest_value largest_value size1 size2 sign : Z) : bool :=\n  %s."
                   % (k.lower(), e.b(h[k])))
    out.append("""
(* assembled in the statement order of the source:
     if self.enumvalues: smallest_value = min(..); largest_value = max(..)  else: ... = EMPTY
     if NEEDS_SIGNED: sign, candidate1, candidate2 = S_*  else: = U_*
     size1 = ffi.sizeof(candidate1); size2 = ffi.sizeof(candidate2)
     if FITS1: return btype1;  if FITS2: return btype2;  raise CDefError *)
Definition build_baseinttype (sizeof : cstr -> Z) (enumvalues : list Z) : result cstr :=
  let smallest_value := match enumvalues with [] => gen_empty_default | _ => list_min enumvalues end in
  let largest_value := match enumvalues with [] => gen_empty_default | _ => list_max enumvalues end in
  let '(sign, (candidate1, candidate2)) :=
      if gen_needs_signed smallest_value then gen_signed_branch else gen_unsigned_branch in
  let size1 := sizeof candidate1 in
  let size2 := sizeof candidate2 in
  if gen_fits1 smallest_value largest_value size1 size2 sign then Ok candidate1
  else if gen_fits2 smallest_value largest_value size1 size2 sign then Ok candidate2
  else Err CDefError.""")
    return "\n".join(out)


# ---------------------------------------------------------------- cparser.Parser._build_enum_type

BET_HOLES = {
    "FIRST": ("body", 0, "body", 3, "value"),
    "EXPLICIT": ("body", 0, "body", 4, "body", 1, "body", 0, "value"),
    "RECORDED": ("body", 0, "body", 4, "body", 3, "value", "args", 0),
    "CONST": ("body", 0, "body", 4, "body", 4, "value", "args", 1),
    "STEP_OP": ("body", 0, "body", 4, "body", 5, "op"),
    "STEP": ("body", 0, "body", 4, "body", 5, "value"),
}
BET_TEMPLATE = "f7f8796ad735cf48"


def build_enum_type(tree):
    fn = py2coq.find_function(tree, "_build_enum_type", "Parser")
    tmpl, h = cut(fn, BET_HOLES)
    if digest(tmpl) != BET_TEMPLATE:
        raise Untranslatable("_build_enum_type no longer has the recorded shape (digest %s)" % digest(tmpl))
    call = h["EXPLICIT"]
    if not (isinstance(call, ast.Call) and py2coq.shape(call.func) == py2coq.shape(
            ast.parse("self._parse_constant").body[0].value) and len(call.args) == 1
            and py2coq.shape(call.args[0]) == py2coq.shape(ast.parse("enum.value").body[0].value)):
        raise Untranslatable("explicit value is no longer self._parse_constant(enum.value)")
    e = Expr(dict(nextenumvalue="nextenumvalue"))
    step = ast.BinOp(left=ast.Name(id="nextenumvalue", ctx=ast.Load()), op=h["STEP_OP"], right=h["STEP"])
    if py2coq.shape(h["CONST"]) != py2coq.shape(h["RECORDED"]):
        raise Untranslatable("the value given to _add_constants differs from the one appended to enumvalues")
    return "\n".join([
        "Definition gen_enum_first : Z := %s." % e.z(h["FIRST"]),
        "Definition gen_enum_explicit (parsed : Z) : Z := parsed.   (* nextenumvalue = self._parse_constant(enum.value) *)",
        "Definition gen_enum_recorded (nextenumvalue : Z) : Z := %s.   (* enumvalues.append(..), _add_constants(name, ..) *)"
        % e.z(h["RECORDED"]),
        "Definition gen_enum_next (nextenumvalue : Z) : Z := %s.   (* nextenumvalue += 1 *)" % e.z(step),
        "Definition build_enum_values (decls : list (option Z)) : list Z :=\n"
        "  assign_values gen_enum_explicit gen_enum_recorded gen_enum_next gen_enum_first decls."])


# ---------------------------------------------------------------- recompiler.EnumExpr.as_python_expr

def enum_expr_table(tree):
    fn = py2coq.find_function(tree, "as_python_expr", "EnumExpr")
    st = _get(fn, "body", 0)
    if not (isinstance(st, ast.Assign) and isinstance(st.value, ast.Subscript) and isinstance(st.value.value, ast.Dict)
            and py2coq.shape(st.value.slice) == py2coq.shape(ast.parse("x[self.size, self.signed]").body[0].value.slice)):
        raise Untranslatable("EnumExpr.as_python_expr: prim_index = {...}[self.size, self.signed] not found")
    rows = []
    for k, v in zip(st.value.value.keys, st.value.value.values):
        if not (isinstance(k, ast.Tuple) and len(k.elts) == 2 and all(
                isinstance(x, ast.Constant) and type(x.value) is int for x in k.elts)
                and isinstance(v, ast.Name) and v.id.startswith("PRIM_")):
            raise Untranslatable("EnumExpr table entry")
        rows.append("((%d, %d), %s)" % (k.elts[0].value, k.elts[1].value, X.cs(v.id[5:])))
    # the index is what is emitted: format_four_bytes(prim_index)
    ret = _get(fn, "body", 1)
    if "format_four_bytes(prim_index)" not in ast.unparse(ret):
        raise Untranslatable("EnumExpr.as_python_expr no longer emits format_four_bytes(prim_index)")
    return "Definition gen_py_enum_prim : list ((Z * Z) * cstr) := [\n  %s]." % ";\n  ".join(rows)


def enum_ctx_shape(tree):
    """_enum_ctx: in ABI mode size/signed come from build_baseinttype: size = sizeof(basetp),
    signed = int(int(cast(basetp, -1)) < 0) — checked textually, nothing to translate."""
    fn = py2coq.find_function(tree, "_enum_ctx", "Recompiler")
    txt = ast.unparse(fn)
    for need in ("basetp = tp.build_baseinttype(self.ffi, [])", "size = self.ffi.sizeof(basetp)",
                 "signed = int(int(self.ffi.cast(basetp, -1)) < 0)",
                 "EnumExpr(tp.name, type_index, size, signed, allenums)"):
        if need not in txt:
            raise Untranslatable("_enum_ctx: %r not found" % need)


def regen_template(repo="/repo"):
    """development helper: print the digests to record above"""
    t = py2coq.parse_source(os.path.join(repo, "src/cffi/model.py"))
    print("BBT", digest(cut(py2coq.find_function(t, "build_baseinttype", "EnumType"), BBT_HOLES)[0]))
    t = py2coq.parse_source(os.path.join(repo, "src/cffi/cparser.py"))
    print("BET", digest(cut(py2coq.find_function(t, "_build_enum_type", "Parser"), BET_HOLES)[0]))


def render(repo):
    mo = py2coq.parse_source(os.path.join(repo, "src/cffi/model.py"))
    cp = py2coq.parse_source(os.path.join(repo, "src/cffi/cparser.py"))
    rc = py2coq.parse_source(os.path.join(repo, "src/cffi/recompiler.py"))
    op = py2coq.parse_source(os.path.join(repo, "src/cffi/cffi_opcode.py"))
    enum_ctx_shape(rc)
    cases, dflt = X.c_prim_int_macro(X.read(repo, "src/cffi/_cffi_include.h"))
    h = X.read(repo, "src/cffi/parse_c_type.h")
    cprim = X.c_defines(h, "_CFFI_PRIM_")
    cmisc = dict(X.c_defines(h, "_CFFI__"))
    parts = [
        "(* GENERATED by tools/props/c10.py regen() from the cffi sources - do not edit. *)",
        "From Coq Require Import String ZArith NArith List Bool.\nImport ListNotations.\n"
        "From Cffi Require Import C10.Model.\nOpen Scope Z_scope.\n",
        "(* ---- model.EnumType.build_baseinttype (src/cffi/model.py) *)",
        build_baseinttype(mo), "",
        "(* ---- cparser.Parser._build_enum_type (src/cffi/cparser.py) *)",
        build_enum_type(cp), "",
        "(* ---- recompiler.EnumExpr.as_python_expr (src/cffi/recompiler.py): (size, signed) -> PRIM_ name *)",
        enum_expr_table(rc), "",
        "(* ---- PRIM_* of cffi_opcode.py, _CFFI_PRIM_* of parse_c_type.h, _cffi_prim_int of _cffi_include.h *)",
        "Definition py_prim : list (cstr * Z) := [\n  %s]." % ";\n  ".join(
            "(%s, %d)" % (X.cs(k), v) for k, v in X.py_int_constants(op, "PRIM_")),
        "Definition c_idents : list (cstr * Z) := [\n  %s]." % ";\n  ".join(
            ["(%s, %d)" % (X.cs(k), v) for k, v in cprim] + ["(%s, %d)" % (X.cs("_UNKNOWN_PRIM"), cmisc["UNKNOWN_PRIM"])]),
        "Definition c_prim_int : prim_int_macro :=\n  mk_pim [%s] %s." % (
            "; ".join("(%d, (%s, %s))" % (k, X.cs(X.prim_ident(a)), X.cs(X.prim_ident(b))) for k, a, b in cases),
            X.cs(X.prim_ident(dflt))),
        ""]
    return "\n".join(parts)
