"""C07/C08 worker (runs inside the scratch build of cffi).

payload: {"groups": [{"cdef": text, "strings": [s, ...], "getctype": [[s, replace_with], ...]}, ...]}
For every group: an in-line FFI (Python parser) and an out-of-line ABI module generated from a second
FFI with the same cdef (C parser), both asked for typeof(s).
result per string: {"py": R, "c": R, "same": bool|None}   R = {"ok": desc} | {"err": exception class}
  desc: ["void"] | ["prim", cname] | ["ptr", d] | ["arr", d, n|None] | ["func", d, [d..], ellipsis]
        | ["agg", kind, cname]
  same: `py_ctype is c_ctype` when both accepted.
"""
import importlib.util
import os
import sys

import cffi
from lib.vlib import worker_main

_counter = [0]


def describe(ffi, ct, depth=0):
    k = ct.kind
    if depth > 60:
        return ["deep"]
    if k == "void":
        return ["void"]
    if k == "primitive":
        return ["prim", ct.cname]
    if k == "pointer":
        return ["ptr", describe(ffi, ct.item, depth + 1)]
    if k == "array":
        return ["arr", describe(ffi, ct.item, depth + 1), ct.length]
    if k == "function":
        return ["func", describe(ffi, ct.result, depth + 1), [describe(ffi, a, depth + 1) for a in ct.args],
                own_ellipsis(ffi, ct)]
    if k in ("struct", "union", "enum"):
        return ["agg", k, ct.cname]
    return ["unknown", k]


def own_ellipsis(ffi, ct):
    """whether the function type's own parameter list ends with '...', read off its name.
    (ct.ellipsis is `ct_extra == NULL`, which is also true for non-variadic functions whose cif could not be
    prepared, e.g. with a complex or union argument/result.)"""
    name = ffi.getctype(ct, "@")
    i = name.index("@")
    rest = name[i + 1:]
    assert rest.startswith(")("), name
    depth, j = 0, 1
    while True:
        if rest[j] == "(":
            depth += 1
        elif rest[j] == ")":
            depth -= 1
            if depth == 0:
                break
        j += 1
    return rest[2:j].endswith("...")


def ask(ffi, s):
    try:
        ct = ffi.typeof(s)
    except BaseException as e:      # noqa: the class is the observation
        if isinstance(e, (KeyboardInterrupt, SystemExit)):
            raise
        return dict(err=type(e).__name__), None
    try:
        return dict(ok=describe(ffi, ct)), ct
    except Exception as e:          # the type exists but cannot be described (e.g. a malformed ct_name)
        return dict(err="describe: %s: %s" % (type(e).__name__, str(e)[:200])), ct


def make_pair(cdef):
    """(in-line FFI, out-of-line FFI) over the same declarations; raises if the cdef is refused"""
    ffi_py = cffi.FFI()
    ffi_py.cdef(cdef)
    gen = cffi.FFI()
    gen.cdef(cdef)
    _counter[0] += 1
    name = "_c07_ool_%d_%d" % (os.getpid(), _counter[0])
    gen.set_source(name, None)
    path = os.path.join(os.environ["VERIF_WORK"], name + ".py")
    gen.emit_python_code(path)
    spec = importlib.util.spec_from_file_location(name, path)
    mod = importlib.util.module_from_spec(spec)
    spec.loader.exec_module(mod)
    return ffi_py, mod.ffi


def one_group(grp):
    try:
        ffi_py, ffi_c = make_pair(grp["cdef"])
    except Exception as e:
        return dict(cdef_error="%s: %s" % (type(e).__name__, str(e)[:300]))
    out = []
    for s in grp.get("strings", []):
        rp, cp = ask(ffi_py, s)
        rc, cc = ask(ffi_c, s)
        same = (cp is cc) if (cp is not None and cc is not None) else None
        out.append(dict(py=rp, c=rc, same=same))
    gout = []
    for item in grp.get("getctype", []):
        gout.append(getctype_item(ffi_py, ffi_c, item))
    return dict(results=out, getctype=gout)


def getctype_item(ffi_py, ffi_c, item):
    """C08: item = {"s": type string, "x": [replace_with, ...]}"""
    s = item["s"]
    res = {}
    for side, ffi in (("py", ffi_py), ("c", ffi_c)):
        r = dict()
        try:
            ct = ffi.typeof(s)
        except Exception as e:
            res[side] = dict(err=type(e).__name__)
            continue
        # every step records an exception (class + message) as the observed outcome of this item
        try:
            r["desc"] = describe(ffi, ct)
        except Exception as e:
            r["desc"] = None
            r["desc_err"] = "%s: %s" % (type(e).__name__, str(e)[:300])
        r["cname"] = ct.cname
        try:
            r["sizeof"] = ffi.sizeof(ct)
        except Exception:
            r["sizeof"] = None
        try:
            name = ffi.getctype(ct)
        except Exception as e:
            name = None
            r["getctype_err"] = "%s: %s" % (type(e).__name__, str(e)[:300])
        r["getctype"] = name
        try:
            back = ffi.typeof(name)
            r["roundtrip_is"] = back is ct
            try:
                r["roundtrip_desc"] = describe(ffi, back)
            except Exception as e:
                r["roundtrip_desc"] = "describe: %s: %s" % (type(e).__name__, str(e)[:200])
        except Exception as e:
            r["roundtrip_is"] = False
            r["roundtrip_err"] = "%s: %s" % (type(e).__name__, str(e)[:200])
        r["getctype_str"] = None
        try:
            r["getctype_str"] = ffi.getctype(s)
        except Exception as e:
            r["getctype_str_err"] = type(e).__name__
        xs = []
        for x in item.get("x", []):
            d = dict(x=x)
            try:
                d["text"] = ffi.getctype(ct, x)
            except Exception as e:
                d["err"] = "%s: %s" % (type(e).__name__, str(e)[:200])
                xs.append(d)
                continue
            rr, _ = ask(ffi, d["text"])
            d["typeof"] = rr
            xs.append(d)
        r["x"] = xs
        res[side] = r
    return res


def main(payload):
    return dict(groups=[one_group(g) for g in payload["groups"]])


if __name__ == "__main__":
    worker_main(main)
