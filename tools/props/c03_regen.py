"""C03 translator: anchored, fail-closed extraction of the API-mode integer converters
(_cffi_to_c_SIGNED_FN / _cffi_to_c_UNSIGNED_FN in src/c/_cffi_backend.c, their instantiations, the
cffi_exports[] order, and the _cffi_to_c_int dispatch + export casts of src/cffi/_cffi_include.h)
into coq/C03/Gen.v.  Any deviation from the recorded shape raises TranslateError; the caller then
keeps the committed snapshot and relies on the correspondence run."""
import os
import re

from props import c03_cexpr
from props.c03_cexpr import CExprError, join_continuations


class TranslateError(Exception):
    pass


_CT = {"int": "TInt", "unsigned int": "TUInt", "PY_LONG_LONG": "TLL", "long long": "TLL",
       "unsigned PY_LONG_LONG": "TULL", "unsigned long long": "TULL"}


def _ws(s):
    return " ".join(s.split())


def _macro(text, name):
    """body of `#define name(...)` joined over continuation lines"""
    m = re.search(r"^#define[ \t]+%s\b((?:.*\\\n)*.*)$" % re.escape(name), text, re.M)
    if not m:
        raise TranslateError("macro %s not found" % name)
    return _ws(join_continuations(m.group(1)))


def _split_or(cond):
    """split `(A) || (B)` at top level"""
    parts, depth, cur, i = [], 0, "", 0
    while i < len(cond):
        c = cond[i]
        if c == "(":
            depth += 1
        elif c == ")":
            depth -= 1
        if depth == 0 and cond.startswith("||", i):
            parts.append(cur)
            cur = ""
            i += 2
            continue
        cur += c
        i += 1
    parts.append(cur)
    return [p.strip() for p in parts]


def _strip_parens(s):
    s = s.strip()
    while s.startswith("(") and s.endswith(")"):
        depth = 0
        for i, c in enumerate(s):
            depth += c == "("
            depth -= c == ")"
            if depth == 0 and i < len(s) - 1:
                return s
        s = s[1:-1].strip()
    return s


def _checks(cond):
    out = []
    for part in _split_or(_strip_parens(cond)):
        part = _strip_parens(part)
        m = re.match(r"^tmp\s*(<=|>=|<|>)\s*(.*)$", part, re.S)
        if not m or re.search(r"\btmp\b", m.group(2)):
            raise TranslateError("range test is not of the form `tmp OP expr`: %r" % part)
        op = {"<": "BLt", ">": "BGt", "<=": "BLe", ">=": "BGe"}[m.group(1)]
        try:
            out.append("(%s, %s)" % (op, c03_cexpr.parse(m.group(2))))
        except CExprError as e:
            raise TranslateError("bound expression: %s" % e)
    return out


def _converter_macro(text, name, suffix_letter):
    body = _macro(text, name)
    # shape with holes:  TYPE tmp = CONV(obj[, K]);  if (COND) if (!PyErr_Occurred()) return (RETURNTYPE)_convert_overflow(...); return (RETURNTYPE)tmp;
    m = re.match(
        r"^\(RETURNTYPE, SIZE\) static RETURNTYPE _cffi_to_c_%s##SIZE\(PyObject \*obj\) \{ "
        r"(?P<ty>(?:unsigned )?PY_LONG_LONG) tmp = (?P<conv>_my_PyLong_As\w+)\(obj(?:, (?P<strict>\d+))?\); "
        r"if \((?P<cond>.*)\) if \(!PyErr_Occurred\(\)\) "
        r"return \(RETURNTYPE\)_convert_overflow\(obj, #SIZE \"[^\"]*\"\); "
        r"return \(RETURNTYPE\)tmp; \}$" % suffix_letter, body)
    if not m:
        raise TranslateError("%s does not have the recorded shape: %r" % (name, body[:400]))
    conv = m.group("conv")
    if conv == "_my_PyLong_AsLongLong" and m.group("strict") is None:
        convt = "ConvLL"
    elif conv == "_my_PyLong_AsUnsignedLongLong" and m.group("strict") is not None:
        convt = "(ConvULL %s)" % ("true" if int(m.group("strict")) else "false")
    else:
        raise TranslateError("unknown conversion %s" % conv)
    return _CT[m.group("ty")], convt, _checks(m.group("cond"))


def _insts(text, name):
    out = []
    for m in re.finditer(r"^%s\(([^,()]+),\s*(\d+)\)\s*$" % re.escape(name), text, re.M):
        ty = _ws(m.group(1))
        if ty not in _CT:
            raise TranslateError("unknown return type %r" % ty)
        out.append("(%s, %d)" % (_CT[ty], int(m.group(2))))
    if not out:
        raise TranslateError("no instantiation of %s" % name)
    return out


def _exports(text):
    m = re.search(r"^static void \*cffi_exports\[\] = \{\n(.*?)^\};", text, re.M | re.S)
    if not m:
        raise TranslateError("cffi_exports[] not found")
    names = []
    for line in m.group(1).splitlines():
        line = line.strip()
        if not line or line.startswith("/*") or line.startswith("#"):
            continue
        mm = re.match(r"^(\w+),?$", line)
        if not mm:
            raise TranslateError("cffi_exports entry %r" % line)
        names.append(mm.group(1))
    return names


def _dispatch(inc):
    body = _macro(inc, "_cffi_to_c_int")
    m = re.match(r"^\(o, type\) \(\(type\)\( (?P<arms>.*) \(Py_FatalError\(\"unsupported size for type \" #type\), "
                 r"\(type\)0\)\)\)$", body)
    if not m:
        raise TranslateError("_cffi_to_c_int does not have the recorded shape: %r" % body)
    arms = []
    rest = m.group("arms")
    arm = re.compile(r"^sizeof\(type\) == (\d+) \? \(\(\(type\)-1\) > 0 \? \(type\)_cffi_to_c_u(\d+)\(o\) "
                     r": \(type\)_cffi_to_c_i(\d+)\(o\)\) : ?")
    while rest:
        mm = arm.match(rest)
        if not mm:
            raise TranslateError("_cffi_to_c_int arm: %r" % rest[:120])
        arms.append("(%s, %s, %s)" % mm.groups())
        rest = rest[mm.end():].strip()
    if not arms:
        raise TranslateError("no arms in _cffi_to_c_int")
    return arms


def _include_casts(inc):
    """#define _cffi_to_c_{i,u}N ((RET(*)(PyObject *))_cffi_exports[K])"""
    out = []
    for m in re.finditer(r"^#define[ \t]+_cffi_to_c_([iu]\d+)[ \t]*\\\n\s*\(\(([\w ]+?)\(\*\)\(PyObject \*\)\)"
                         r"_cffi_exports\[(\d+)\]\)\s*$", inc, re.M):
        ty = _ws(m.group(2))
        if ty not in _CT:
            raise TranslateError("unknown cast return type %r" % ty)
        out.append((m.group(1), _CT[ty], int(m.group(3))))
    if len(out) != 8:
        raise TranslateError("expected 8 _cffi_to_c_{i,u}N export casts, found %d" % len(out))
    return out


# ---------------------------------------------------------------- statement-level facts

def _strip_comments(t):
    return re.sub(r"/\*.*?\*/", " ", t, flags=re.S)


def _func_body(text, header_regex):
    m = re.search(header_regex + r"\s*\{\n(.*?)^\}", text, re.M | re.S)
    if not m:
        raise TranslateError("function not found: %s" % header_regex)
    return _strip_comments(m.group(1))


def _match_brace(t, i):
    """t[i] == '{' -> index just after the matching '}'"""
    depth = 0
    for j in range(i, len(t)):
        if t[j] == "{":
            depth += 1
        elif t[j] == "}":
            depth -= 1
            if depth == 0:
                return j + 1
    raise TranslateError("unbalanced braces")


_TARGET = {"buf": "TBuf", "data": "TData"}


def _atoms(cond):
    out = []
    for a in [x.strip() for x in cond.split("&&")]:
        a = _strip_parens(a)
        if a == "ct->ct_flags & CT_IS_BOOL":
            out.append("AIsBool")
        elif a == "value > 1ULL":
            out.append("AGt1")
        else:
            m = re.match(r"^value != read_raw_(signed|unsigned)_data\((buf|data), ct->ct_size\)$", a)
            if not m:
                raise TranslateError("unknown overflow condition %r" % a)
            out.append("(ANeqRead %s %s)" % ("true" if m.group(1) == "signed" else "false", _TARGET[m.group(2)]))
    return "[%s]" % "; ".join(out)


def _store_stmts(t, guard="GAlways"):
    """statements of an integer branch of convert_from_object -> list of '(guard, sstmt)' terms"""
    t = _ws(t)
    out = []
    while t:
        m = re.match(r"^((?:unsigned )?PY_LONG_LONG) value = (_my_PyLong_As\w+)\(init(?:, (\d+))?\); ?", t)
        if m:
            if m.group(2) == "_my_PyLong_AsLongLong" and m.group(3) is None and not m.group(1).startswith("unsigned"):
                c = "ConvLL"
            elif m.group(2) == "_my_PyLong_AsUnsignedLongLong" and m.group(3) is not None and m.group(1).startswith("unsigned"):
                c = "(ConvULL %s)" % ("true" if int(m.group(3)) else "false")
            else:
                raise TranslateError("conversion %r" % m.group(0))
            out.append("(%s, SConv %s)" % (guard, c))
            t = t[m.end():]
            continue
        m = re.match(r"^if \(value == (?:-1|\(unsigned PY_LONG_LONG\)-1) && PyErr_Occurred\(\)\) return -1; ?", t)
        if m:
            out.append("(%s, SErrCheck)" % guard)
            t = t[m.end():]
            continue
        m = re.match(r"^write_raw_integer_data\((buf|data), value, ct->ct_size\); ?", t)
        if m:
            out.append("(%s, SWrite %s)" % (guard, _TARGET[m.group(1)]))
            t = t[m.end():]
            continue
        m = re.match(r"^return 0; ?", t)
        if m:
            out.append("(%s, SReturn)" % guard)
            t = t[m.end():]
            continue
        m = re.match(r"^if \(ct->ct_flags & CT_IS_BOOL\) \{", t)
        if m and guard == "GAlways":
            e = _match_brace(t, m.end() - 1)
            out += _store_stmts(t[m.end():e - 1], "GBool")
            t = t[e:].strip()
            m2 = re.match(r"^else \{", t)
            if m2:
                e = _match_brace(t, m2.end() - 1)
                out += _store_stmts(t[m2.end():e - 1], "GNotBool")
                t = t[e:].strip()
            continue
        m = re.match(r"^if \((.*?)\) goto overflow; ?", t)
        if m:
            out.append("(%s, SOverflowIf %s)" % (guard, _atoms(m.group(1))))
            t = t[m.end():]
            continue
        raise TranslateError("convert_from_object integer branch: unknown statement at %r" % t[:80])
    return out


def _store_branches(text):
    body = _func_body(text, r"^convert_from_object\(char \*data, CTypeDescrObject \*ct, PyObject \*init\)")
    res = {}
    for flag in ("SIGNED", "UNSIGNED"):
        m = re.search(r"if \(ct->ct_flags & CT_PRIMITIVE_%s\) \{" % flag, body)
        if not m:
            raise TranslateError("CT_PRIMITIVE_%s branch not found" % flag)
        e = _match_brace(body, m.end() - 1)
        res[flag] = _store_stmts(body[m.end():e - 1])
    if not re.search(r"overflow:\s*return _convert_overflow\(init, ct->ct_name\);", body):
        raise TranslateError("overflow label does not call _convert_overflow")
    ov = _func_body(text, r"^static int _convert_overflow\(PyObject \*init, const char \*ct_name\)")
    if "PyErr_Format(PyExc_OverflowError" not in ov:
        raise TranslateError("_convert_overflow does not raise OverflowError")
    return res


def _fcb_expr(e):
    e = e.replace("(Py_ssize_t)", "(PY_LONG_LONG)")
    try:
        return c03_cexpr.parse(e)
    except CExprError as ex:
        raise TranslateError("fficallback expression %r: %s" % (e, ex))


def _fcb_stmts(t):
    t = _ws(t)
    out = []
    while t:
        m = re.match(r"^PY_LONG_LONG [\w, ]+; ?", t)
        if m:
            t = t[m.end():]
            continue
        m = re.match(r"^if \(convert_from_object\(result, ctype, pyobj\) < 0\) return -1; ?", t)
        if m:
            out.append("FConvCheck")
            t = t[m.end():]
            continue
        m = re.match(r"^value = _my_PyLong_AsLongLong\(pyobj\); ?", t)
        if m:
            out.append("(FConv ConvLL)")
            t = t[m.end():]
            continue
        m = re.match(r"^if \(value == -1 && PyErr_Occurred\(\)\) return -1; ?", t)
        if m:
            out.append("FErrCheck")
            t = t[m.end():]
            continue
        m = re.match(r"^write_raw_integer_data\(result, value, sizeof\(ffi_arg\)\); ?", t)
        if m:
            out.append("FWriteFull")
            t = t[m.end():]
            continue
        m = re.match(r"^memset\(result, 0, sizeof\(ffi_arg\)\); ?", t)
        if m:
            out.append("FMemset")
            t = t[m.end():]
            continue
        m = re.match(r"^return 0; ?", t)
        if m:
            out.append("FReturn")
            t = t[m.end():]
            continue
        m = re.match(r"^if \((.*?)\) return _convert_overflow\(pyobj, ctype->ct_name\); ?", t)
        if m:
            out.append("(FOverflowIf %s)" % _fcb_expr(m.group(1)))
            t = t[m.end():]
            continue
        m = re.match(r"^(\w+) = ([^;]*); ?", t)
        if m:
            out.append('(FAssign "%s" %s)' % (m.group(1), _fcb_expr(m.group(2))))
            t = t[m.end():]
            continue
        raise TranslateError("convert_from_object_fficallback: unknown statement at %r" % t[:80])
    return out


def _fficallback(text):
    body = _func_body(text, r"^static int convert_from_object_fficallback\(char \*result,\s*CTypeDescrObject \*ctype,"
                            r"\s*PyObject \*pyobj,\s*int encode_result_for_libffi\)")
    body = re.sub(r"#ifdef WORDS_BIGENDIAN\n.*?#endif\n", "", body, flags=re.S)
    b = _ws(body)
    m = re.match(r"^if \(ctype->ct_size < \(Py_ssize_t\)sizeof\(ffi_arg\)\) \{ if \(ctype->ct_flags & CT_VOID\) \{", b)
    if not m:
        raise TranslateError("convert_from_object_fficallback: outer shape")
    e = _match_brace(b, m.end() - 1)
    rest = b[e:].strip()
    m = re.match(r"^if \(!encode_result_for_libffi\) goto skip; if \(ctype->ct_flags & CT_PRIMITIVE_SIGNED\) \{", rest)
    if not m:
        raise TranslateError("convert_from_object_fficallback: signed branch shape")
    e = _match_brace(rest, m.end() - 1)
    signed = _fcb_stmts(rest[m.end():e - 1])
    rest = rest[e:].strip()
    m = re.match(r"^else if \(ctype->ct_flags & \(CT_PRIMITIVE_CHAR \| CT_PRIMITIVE_SIGNED \| CT_PRIMITIVE_UNSIGNED \| "
                 r"CT_POINTER \| CT_FUNCTIONPTR\)\) \{", rest)
    if not m:
        raise TranslateError("convert_from_object_fficallback: zero-extension branch shape")
    e = _match_brace(rest, m.end() - 1)
    unsigned = _fcb_stmts(rest[m.end():e - 1])
    rest = rest[e:].strip()
    if rest != "} skip: return convert_from_object(result, ctype, pyobj);":
        raise TranslateError("convert_from_object_fficallback: tail %r" % rest[:100])
    return signed, unsigned



# ---------------------------------------------------------------- call-site facts (REVIEW2 item 7 / REVIEW3 C03 ext. 1)

def _c_function(src, name):
    """text of the C function `name`, comments removed; fail closed unless it is defined exactly once"""
    hits = re.findall(r"^[\w \*]*\b%s\s*\([^;{}]*\)\s*\{.*?^\}" % re.escape(name), src, re.S | re.M)
    if len(hits) != 1:
        raise TranslateError("function %s found %d times" % (name, len(hits)))
    return _strip_comments(hits[0])


def _norm(t):
    return re.sub(r"\s+", "", t)


def _has(body, *fragments):
    b = _norm(body)
    return all(_norm(f) in b for f in fragments)


def _path_facts(repo, text):
    """(name, bool, comment): every store path named in the property textually reaches convert_from_object
    (the one function whose integer branches are the regenerated store_*_prog).  The enclosing function must
    exist exactly once (else TranslateError: fail closed); a call that is no longer there is recorded as false."""
    lib = open(os.path.join(repo, "src", "c", "lib_obj.c")).read()
    cglob = open(os.path.join(repo, "src", "c", "cglob.c")).read()
    f = lambda n: _c_function(text, n)
    field = f("convert_field_from_object")
    vfield = f("convert_vfield_from_object")
    facts = [
        ("path_direct_newp", _has(f("direct_newp"),
            "convert_from_object(cd->c_data, (ct->ct_flags & CT_POINTER) ? ct->ct_itemdescr : ct, init)"),
         "ffi.new(T, init): direct_newp calls convert_from_object(cd->c_data, <T or its item type>, init)"),
        ("path_ass_sub", _has(f("cdata_ass_sub"), "ctitem = cd->c_type->ct_itemdescr;",
                              "return convert_from_object(c, ctitem, v);"),
         "p[i] = v: cdata_ass_sub ends with return convert_from_object(c, ctitem, v)"),
        ("path_field", _has(field, "data += cf->cf_offset;", "if (cf->cf_bitshift >= 0)",
                            "return convert_from_object_bitfield(data, cf, value);",
                            "else return convert_from_object(data, cf->cf_type, value);"),
         "convert_field_from_object: data + cf_offset; non-bit-fields: convert_from_object(data, cf->cf_type, value)"),
        ("path_setattro", _has(f("cdata_setattro"), "return convert_field_from_object(cd->c_data, cf, value);"),
         "p.f = v: cdata_setattro -> convert_field_from_object(cd->c_data, cf, value)"),
        ("path_struct_init", _has(f("convert_struct_from_object"),
                                  "convert_vfield_from_object(data, cf, items[i], optvarsize)",
                                  "convert_vfield_from_object(data, cf, d_value, optvarsize)")
                             and _has(vfield, "return convert_field_from_object(data, cf, value);"),
         "struct initialisers (list and dict): convert_vfield_from_object -> convert_field_from_object"),
        ("path_array_items", _has(f("convert_array_from_object"), "convert_from_object(data, ctitem, items[i])"),
         "array initialisers: convert_from_object(data, ctitem, items[i]) per item"),
        ("path_struct_dispatch", _has(f("convert_from_object"), "return convert_struct_from_object(data, ct, init, NULL);",
                                      "return convert_array_from_object(data, ct, init);"),
         "convert_from_object dispatches structs/arrays to the two functions above"),
        ("path_global_abi", _has(f("dl_write_variable"), "convert_from_object(data, ct, value)"),
         "ABI-mode lib.g = v: dl_write_variable -> convert_from_object(data, ct, value)"),
        ("path_global_api", _has(_c_function(lib, "lib_setattr"), "return write_global_var((GlobSupportObject *)x, val);")
                            and _has(_c_function(cglob, "write_global_var"),
                                     "return convert_from_object(data, gs->gs_type, obj);"),
         "API-mode lib.g = v: lib_setattr -> write_global_var -> convert_from_object(data, gs->gs_type, obj)"),
        ("path_call_arg", _has(f("cdata_call"), "convert_from_object(data, argtype, obj)"),
         "ABI call arguments: cdata_call's argument loop calls convert_from_object(data, argtype, obj)"),
        ("path_callback_result", _has(f("general_invoke_callback"), "convert_from_object_fficallback(result, SIGNATURE(1), py_res,")
                                 and _has(f("convert_from_object_fficallback"), "return convert_from_object(result, ctype, pyobj);"),
         "callback results: general_invoke_callback -> convert_from_object_fficallback -> ... convert_from_object"),
        ("path_api_struct_export", _has(text, "convert_from_object,") and "convert_from_object" in _exports(text),
         "API mode: _cffi_to_c (struct arguments, complex stores) is convert_from_object itself, through cffi_exports[]"),
    ]
    return facts


def translate(repo):
    text = open(os.path.join(repo, "src", "c", "_cffi_backend.c")).read()
    inc = open(os.path.join(repo, "src", "cffi", "_cffi_include.h")).read()
    sty, sconv, schecks = _converter_macro(text, "_cffi_to_c_SIGNED_FN", "i")
    uty, uconv, uchecks = _converter_macro(text, "_cffi_to_c_UNSIGNED_FN", "u")
    sinst = _insts(text, "_cffi_to_c_SIGNED_FN")
    uinst = _insts(text, "_cffi_to_c_UNSIGNED_FN")
    exports = _exports(text)
    arms = _dispatch(inc)
    casts = _include_casts(inc)
    store = _store_branches(text)
    fcb_signed, fcb_unsigned = _fficallback(text)
    L = []
    L.append("(* GENERATED by tools/props/c03_regen.py from src/c/_cffi_backend.c and src/cffi/_cffi_include.h.")
    L.append("   Do not edit: regenerated and re-checked on every run of ./check C03. *)")
    L.append("From Coq Require Import ZArith String List.")
    L.append("From Cffi Require Import C03.CExpr C03.IR.")
    L.append("Import ListNotations.")
    L.append("Open Scope Z_scope.")
    L.append("Open Scope string_scope.")
    L.append("")
    L.append("(* #define _cffi_to_c_SIGNED_FN(RETURNTYPE, SIZE): type of tmp, conversion, the `tmp OP bound` tests joined by || *)")
    L.append("Definition signed_tmp_type : cty := %s." % sty)
    L.append("Definition signed_conv : conv_fn := %s." % sconv)
    L.append("Definition signed_checks : list (binop * cexpr) :=\n  [%s]." % ";\n   ".join(schecks))
    L.append("Definition signed_insts : list (cty * Z) := [%s]." % "; ".join(sinst))
    L.append("")
    L.append("(* #define _cffi_to_c_UNSIGNED_FN(RETURNTYPE, SIZE) *)")
    L.append("Definition unsigned_tmp_type : cty := %s." % uty)
    L.append("Definition unsigned_conv : conv_fn := %s." % uconv)
    L.append("Definition unsigned_checks : list (binop * cexpr) :=\n  [%s]." % ";\n   ".join(uchecks))
    L.append("Definition unsigned_insts : list (cty * Z) := [%s]." % "; ".join(uinst))
    L.append("")
    L.append("(* #define _cffi_to_c_int(o, type): (sizeof(type), N of _cffi_to_c_uN, N of _cffi_to_c_iN) per arm *)")
    L.append("Definition to_c_int_dispatch : list (Z * Z * Z) := [%s]." % "; ".join(arms))
    L.append("")
    L.append("(* _cffi_include.h: #define _cffi_to_c_XN ((RET(*)(PyObject *))_cffi_exports[K])  as (XN, RET, K) *)")
    L.append("Definition include_casts : list (string * cty * nat) :=\n  [%s]." % "; ".join(
        '("%s", %s, %d%%nat)' % c for c in casts))
    L.append("")
    L.append("(* static void *cffi_exports[] of _cffi_backend.c, in order *)")
    L.append("Definition backend_exports : list string :=\n  [%s]." % ";\n   ".join('"%s"' % n for n in exports))
    L.append("")
    L.append("(* convert_from_object: the statements of the CT_PRIMITIVE_SIGNED branch, in order *)")
    L.append("Definition store_signed_prog : list (guard * sstmt) :=\n  [%s]." % ";\n   ".join(store["SIGNED"]))
    L.append("(* ... and of the CT_PRIMITIVE_UNSIGNED branch (the CT_IS_BOOL if/else flattened into guards) *)")
    L.append("Definition store_unsigned_prog : list (guard * sstmt) :=\n  [%s]." % ";\n   ".join(store["UNSIGNED"]))
    L.append("")
    L.append("(* convert_from_object_fficallback, ct_size < sizeof(ffi_arg) && encode_result_for_libffi:")
    L.append("   the CT_PRIMITIVE_SIGNED block, and the zero-extension block (which then falls through to")
    L.append("   `skip: return convert_from_object(result, ctype, pyobj);`) *)")
    L.append("Definition fcb_signed_prog : list fstmt :=\n  [%s]." % ";\n   ".join(fcb_signed))
    L.append("Definition fcb_zeroext_prog : list fstmt :=\n  [%s]." % ";\n   ".join(fcb_unsigned))
    L.append("")
    L.append("(* call sites: each store path named in the property textually reaches convert_from_object")
    L.append("   (true: the call is in the source as quoted; false: the enclosing function exists but the call is gone) *)")
    facts = _path_facts(repo, text)
    for name, val, comment in facts:
        L.append("(* %s *)" % comment)
        L.append("Definition %s : bool := %s." % (name, "true" if val else "false"))
    L.append("Definition all_paths : list bool :=\n  [%s]." % "; ".join(n for n, _, _ in facts))
    return "\n".join(L) + "\n"


def regen(ctx, vlib):
    path = os.path.join(vlib.COQ, "C03", "Gen.v")
    old = open(path).read() if os.path.exists(path) else None
    try:
        new = translate(vlib.REPO)
    except (TranslateError, OSError, KeyError) as e:
        # fail closed: the theorems are checked against the committed snapshot of the model
        # (coq/C03/Gen.v.snapshot, never written at run time) and the correspondence run carries the tie
        snap = open(path + ".snapshot").read()
        if old != snap:
            with vlib.CoqLock():
                with open(path, "w") as f:
                    f.write(snap)
        ctx.translator("C03/Gen.v", "fallback: %s" % e)
        return False
    if new == old:
        ctx.translator("C03/Gen.v", "unchanged")
    else:
        with vlib.CoqLock():
            with open(path, "w") as f:
                f.write(new)
        ctx.translator("C03/Gen.v", "regenerated")
    return True
