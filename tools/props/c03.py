"""C03 — integer stores accept exactly the type's range and round-trip.

Tie: (a) regeneration: the range tests of _cffi_to_c_SIGNED_FN/_UNSIGNED_FN, their instantiations, the
_cffi_to_c_int dispatch, the export-table slots, and the statements of convert_from_object's integer branches
and of convert_from_object_fficallback's narrow-result blocks (helper + strict flag, every write and its
destination, every overflow test, their order) are re-extracted from the source text into coq/C03/Gen.v and
the theorems (incl. "executed statements = hand model" and "target written only after the checks") re-checked; (b) correspondence: every integer type x every store path (ffi.new, item,
field, global of a gcc-built helper .so, ABI call argument, API-mode call argument and global of one module
compiled per run, callback result) x boundary and random values, on the scratch build; the model
(convert_from_object_int / api_arg / callback_received) is evaluated inside Coq on the same inputs.
The property predicate is evaluated on the implementation alone, with sizeof/signedness taken from gcc.
"""
import os
import subprocess

from lib import vlib
from lib.vlib import cz, cbool, cpair, clist
from props import c03_regen

ID = "C03"

STD = ["signed char", "unsigned char", "short", "unsigned short", "int", "unsigned int", "long",
       "unsigned long", "long long", "unsigned long long", "_Bool"]
STDINT = ["int8_t", "uint8_t", "int16_t", "uint16_t", "int32_t", "uint32_t", "int64_t", "uint64_t",
          "int_least8_t", "uint_least8_t", "int_least16_t", "uint_least16_t", "int_least32_t", "uint_least32_t",
          "int_least64_t", "uint_least64_t", "int_fast8_t", "uint_fast8_t", "int_fast16_t", "uint_fast16_t",
          "int_fast32_t", "uint_fast32_t", "int_fast64_t", "uint_fast64_t", "intptr_t", "uintptr_t",
          "intmax_t", "uintmax_t", "size_t", "ssize_t", "ptrdiff_t"]
ENUMS_CDEF = ("enum e_u { EU_A, EU_B = 4000000000 };\n"
              "enum e_s { ES_A = -1, ES_B = 5 };\n"
              "enum e_small { ESM_A, ESM_B = 5 };\n"
              "enum e_ul { EUL_A, EUL_B = 1099511627776 };\n"
              "enum e_sl { ESL_A = -1, ESL_B = 1099511627776 };\n")
ENUMS = ["enum e_u", "enum e_s", "enum e_small", "enum e_ul", "enum e_sl"]
ALL_TYPES = STD + STDINT + ENUMS
QUICK_TYPES = STD + ["int8_t", "uint16_t", "int32_t", "uint64_t", "int_fast16_t", "uint_least8_t", "intptr_t",
                     "size_t", "ssize_t", "uintmax_t"] + ENUMS

MEM_PATHS = ["new", "item", "field", "global", "api_global"]
ARG_PATHS = ["abi_arg", "api_arg"]
PATHS = MEM_PATHS + ARG_PATHS + ["callback"]
KS = [0, 7, 8, 15, 16, 31, 32, 63, 64, 100]
# pyobj constructor of C03/Store.v: 0 PInt, 1 PIntLike, 2 PFloat, 3 PNoInt
OBJ_CODE = {None: 0, "intlike": 1, "float": 2, "indexonly": 3, "none": 3, "str": 3}


def boundary_values():
    vals = set()
    for k in KS:
        for d in (-2, -1, 0, 1, 2):
            vals.add(2 ** k + d)
            vals.add(-(2 ** k) + d)
    return sorted(vals)


def type_table(names):
    return [dict(k=i, name=n) for i, n in enumerate(names)]


def build_helper(ctx, types):
    """helper .so (globals, identity functions, callback callers) + gcc facts (sizeof, signedness)."""
    s = ctx.scratch()
    so = os.path.join(s.work, "libc03helper.so")
    facts_exe = os.path.join(s.work, "c03facts")
    if os.path.exists(so) and getattr(ctx, "_c03_facts", None):
        return so, ctx._c03_facts
    hdr = "#include <stdint.h>\n#include <stddef.h>\n#include <stdio.h>\n#include <sys/types.h>\n" + ENUMS_CDEF
    body = [hdr]
    for t in types:
        k, n = t["k"], t["name"]
        body.append("%s g_%d; %s get_g_%d(void) { return g_%d; } %s id_%d(%s x) { return x; } "
                    "%s call_%d(%s (*cb)(void)) { return cb(); }" % (n, k, n, k, k, n, k, n, n, k, n))
    src = os.path.join(s.work, "c03helper.c")
    with open(src, "w") as f:
        f.write("\n".join(body) + "\n")
    p = subprocess.run(["gcc", "-O1", "-fPIC", "-shared", "-o", so, src], capture_output=True, text=True)
    if p.returncode:
        raise vlib.BuildError("C03 helper: " + p.stderr[-2000:])
    main = [hdr, "int main(void) {"]
    for t in types:
        main.append('  printf("%%d %%d %%d\\n", %d, (int)sizeof(%s), ((%s)-1) > 0);' % (t["k"], t["name"], t["name"]))
    main.append("  return 0; }")
    fsrc = os.path.join(s.work, "c03facts.c")
    with open(fsrc, "w") as f:
        f.write("\n".join(main) + "\n")
    p = subprocess.run(["gcc", "-w", "-o", facts_exe, fsrc], capture_output=True, text=True)
    if p.returncode:
        raise vlib.BuildError("C03 facts: " + p.stderr[-2000:])
    out = subprocess.run([facts_exe], capture_output=True, text=True).stdout
    facts = {}
    for line in out.splitlines():
        k, size, uns = (int(x) for x in line.split())
        facts[k] = (size, not uns)
    ctx._c03_facts = facts
    return so, facts


def regen(ctx):
    c03_regen.regen(ctx, vlib)


def generate(ctx):
    rng = ctx.rng
    names = ALL_TYPES if ctx.thorough else QUICK_TYPES
    types = type_table(names)
    bvals = boundary_values()
    cases = []
    nrand = ctx.n(6, 60)
    for t in types:
        for path in PATHS:
            vals = list(bvals)
            for _ in range(nrand):
                kind = rng.random()
                if kind < 0.5:
                    vals.append(rng.randint(-2 ** 66, 2 ** 66) >> rng.choice([0, 2, 30, 34, 50, 58, 62]))
                elif kind < 0.8:
                    vals.append(rng.choice([-1, 1]) * rng.getrandbits(rng.choice([3, 7, 8, 9, 15, 16, 17, 31, 32, 33, 63, 64, 65])))
                else:
                    vals.append(rng.choice([-1, 1]) * rng.getrandbits(rng.choice([70, 128, 200, 1000])))
            if path in ("api_arg", "api_global", "callback", "global") and not ctx.thorough:
                # quick: boundaries everywhere, fewer random values on the slower paths
                vals = vals[:len(bvals) + 2]
            for v in vals:
                c = dict(tname=t["name"], path=path, v=str(v))
                if path == "callback":
                    c["E"] = "1" if t["name"] == "_Bool" else "42"
                cases.append(c)
    # objects that are not ints (outside the property's quantifier; ties the TypeError / __int__ branches of
    # the model): floats, an object with __int__, one with only __index__, None, str
    for t in types:
        for path in ("new", "item", "field", "abi_arg", "api_arg"):
            for obj, vals in (("float", [0, 1, -1, 10 ** 30]), ("intlike", [0, 1, -1, 127, 128, 255, 256, 2 ** 31, 2 ** 63,
                                                                         2 ** 64, -2 ** 63 - 1]),
                              ("indexonly", [1]), ("none", [0]), ("str", [1])):
                if obj == "none" and path == "new":
                    continue        # ffi.new(T, None) means "no initializer", not a store of None
                for v in vals:
                    cases.append(dict(tname=t["name"], path=path, v=str(v), obj=obj))
    return cases


def in_range(size, signed, isbool, v):
    if isbool:
        return v in (0, 1)
    if signed:
        return -(1 << (8 * size - 1)) <= v <= (1 << (8 * size - 1)) - 1
    return 0 <= v <= (1 << (8 * size)) - 1


def finding_key(case, r=None):
    """narrow classes of known findings (findings/C03.json)"""
    if (case["path"] == "global" and case["tname"].startswith("enum ") and r is not None
            and r.get("stage") == "access" and r.get("exc") == "AttributeError"):
        return "abi-enum-global"
    return None


def evaluate(ctx, cases):
    names = []
    for c in cases:
        if c["tname"] not in names:
            names.append(c["tname"])
    order = [n for n in ALL_TYPES if n in names] + [n for n in names if n not in ALL_TYPES]
    types = type_table(order)
    kof = {t["name"]: t["k"] for t in types}
    so, facts = build_helper(ctx, types)
    s = ctx.scratch()
    payload = dict(types=types, enums_cdef=ENUMS_CDEF, so=so,
                   api=any(c["path"].startswith("api") for c in cases),
                   cases=[dict(t=kof[c["tname"]], path=c["path"], v=c["v"], E=c.get("E"), obj=c.get("obj")) for c in cases])
    out, p = s.run_worker("c03_worker.py", payload, timeout=1500)
    if out is None:
        ctx.violation(cases[0], "C03 worker failed (crash while storing integers?): rc=%s %s"
                      % (p.returncode, (p.stderr[-1500:] or p.stdout[-500:])))
        return
    # platform facts: cffi's sizeof must be gcc's
    for t in types:
        size, signed = facts[t["k"]]
        cs = out["sizes"][str(t["k"])]
        if cs["size"] != size or (cs["api_size"] not in (None, size)):
            ctx.violation(dict(tname=t["name"], path="sizeof", v="0"),
                          "sizeof(%s): cffi %r, gcc %d" % (t["name"], cs, size))
    store_cases, api_cases, cb_cases = {}, {}, {}
    for c, r in zip(cases, out["results"]):
        ctx.count()
        k = kof[c["tname"]]
        size, signed = facts[k]
        isbool = c["tname"] == "_Bool"
        v = int(c["v"])
        obj = c.get("obj")
        # floats and objects without __int__ must be refused with TypeError; an object with __int__ is its int
        type_error = obj in ("float", "indexonly", "none", "str")
        ok_expected = (not type_error) and in_range(size, signed, isbool, v)
        path = c["path"]
        ctx.hist("path", path)
        ctx.hist("size_signed", "%d%s" % (size, "s" if signed else "u"))
        ctx.hist("accepted", r["ok"])
        near = min(abs(abs(v) - 2 ** kk) for kk in KS) <= 2
        if near or v.bit_length() > 64:
            ctx.nontrivial((c["tname"], path, c["v"]))
        if r.get("stage") == "access":
            ctx.violation(c, "global variable of type %s cannot be accessed through the dlopen()ed library: "
                          "lib.g raises %s (store of %d impossible)" % (c["tname"], r["exc"], v), finding_key(c, r))
            continue
        if r["exc"] and r["exc"].startswith("Harness:"):
            ctx.violation(c, "unexpected exception outside the store: %s" % r["exc"], finding_key(c))
            continue
        enc = v.to_bytes(size, "little", signed=signed).hex() if ok_expected else None
        # ---- property predicate on the implementation
        bad = None
        if path == "callback":
            E = int(c["E"])
            want = v if ok_expected else E
            if int(r["rb"]) != want:
                bad = "callback returning %d: C caller received %s, expected %d" % (v, r["rb"], want)
            elif ok_expected != r["ok"]:
                bad = "callback returning %d: error reported=%r, in range=%r" % (v, not r["ok"], ok_expected)
            elif not ok_expected and r["exc"] != "OverflowError":
                bad = "callback returning %d: %s instead of OverflowError" % (v, r["exc"])
        else:
            if r["ok"] != ok_expected:
                bad = "store of %d into %s via %s %s, but the value is %s the range" % (
                    v, c["tname"], path, "succeeded" if r["ok"] else "raised " + str(r["exc"]),
                    "outside" if r["ok"] else "inside")
            elif r["ok"]:
                if int(r["rb"]) != v:
                    bad = "store of %d into %s via %s reads back %s" % (v, c["tname"], path, r["rb"])
                elif r.get("c") is not None and int(r["c"]) != v:
                    bad = "store of %d into %s via %s: C reads %s" % (v, c["tname"], path, r["c"])
                elif path == "new" and r["after"] != enc:
                    bad = "bytes after ffi.new are %s, expected %s" % (r["after"], enc)
                elif path == "item" and r["after"] != r["before"][:2 * size] + enc + r["before"][4 * size:]:
                    bad = "item store: bytes %s -> %s" % (r["before"], r["after"])
                elif path == "field" and r["after"] != (r["before"][:2 * r["off"]] + enc
                                                         + r["before"][2 * (r["off"] + size):]):
                    bad = "field store: bytes %s -> %s" % (r["before"], r["after"])
                elif path in ("global", "api_global") and r["after"] != enc:
                    bad = "global store: bytes %s -> %s" % (r["before"], r["after"])
            else:
                if r["exc"] != ("TypeError" if type_error else "OverflowError"):
                    bad = "rejected store of %s%d into %s via %s raises %s, not %s" % (
                        (obj + " ") if obj else "", v, c["tname"], path, r["exc"],
                        "TypeError" if type_error else "OverflowError")
                elif r["before"] is not None and r["before"] != r["after"]:
                    bad = "rejected store changed memory: %s -> %s" % (r["before"], r["after"])
        if bad:
            ctx.violation(c, bad, finding_key(c))
        # ---- model inputs (deduplicated by what the model can see)
        status = 0 if r["ok"] else {"OverflowError": 1, "TypeError": 2}.get(r["exc"], 50)
        if path in MEM_PATHS or path == "abi_arg":
            if path == "abi_arg":
                # argument buffer: observable is the value the C function received
                old = bytes(size)
                if r["ok"]:
                    rb = int(r["rb"])
                    newb = (rb.to_bytes(size, "little", signed=signed) if in_range(size, signed, False, rb)
                            else b"\xff" * (size + 1))
                else:
                    newb = old
            elif path == "new":
                old = bytes(size)
                newb = bytes.fromhex(r["after"]) if r["ok"] else old
            elif path == "item":
                old = bytes.fromhex(r["before"])[size:2 * size]
                newb = bytes.fromhex(r["after"])[size:2 * size]
            elif path == "field":
                old = bytes.fromhex(r["before"])[r["off"]:r["off"] + size]
                newb = bytes.fromhex(r["after"])[r["off"]:r["off"] + size]
            else:
                old = bytes.fromhex(r["before"])
                newb = bytes.fromhex(r["after"])
            key = (size, signed, isbool, OBJ_CODE[obj], v, old, status, newb)
            store_cases.setdefault(key, c)
        elif path == "api_arg":
            key = (size, signed, isbool, OBJ_CODE[obj], v, status, int(r["rb"]) if r["ok"] else 0)
            api_cases.setdefault(key, c)
        elif path == "callback":
            key = (size, signed, isbool, v, int(c["E"]), 0 if r["ok"] else 1, int(r["rb"]))
            cb_cases.setdefault(key, c)
    for c in cases[:3] + cases[-3:]:
        ctx.sample(c)
    # ---- model vs implementation, evaluated inside Coq
    def zl(bs):
        return cz(int.from_bytes(bs, "little"))
    groups = [
        ("C03.Model.convert_from_object_int vs convert_from_object (memory paths, ABI argument)",
         "fun c => match c with (sz, sg, bl, ok, v, old) => store_obj_obs_z sz sg bl ok v old end",
         "pair_eqb Z.eqb Z.eqb",
         [(cpair(cz(k[0]), cbool(k[1]), cbool(k[2]), cz(k[3]), cz(k[4]), zl(k[5])), cpair(cz(k[6]), zl(k[7])))
          for k in store_cases], list(store_cases.values())),
        ("C03.Model.api_arg vs _cffi_to_c_int/_cffi_to_c__Bool (API-mode argument)",
         "fun c => match c with (sz, sg, bl, ok, v) => api_obj_obs sz sg bl ok v end",
         "pair_eqb Z.eqb Z.eqb",
         [(cpair(cz(k[0]), cbool(k[1]), cbool(k[2]), cz(k[3]), cz(k[4])), cpair(cz(k[5]), cz(k[6]))) for k in api_cases],
         list(api_cases.values())),
        ("C03.Model.callback_received vs general_invoke_callback (callback result)",
         "fun c => match c with (sz, sg, bl, v, e) => callback_obs sz sg bl v e end",
         "pair_eqb Z.eqb Z.eqb",
         [(cpair(cz(k[0]), cbool(k[1]), cbool(k[2]), cz(k[3]), cz(k[4])), cpair(cz(k[5]), cz(k[6])))
          for k in cb_cases], list(cb_cases.values())),
    ]
    from concurrent.futures import ThreadPoolExecutor

    def model_eval(g):
        corr, fexpr, eqb, coqcases, owners = g
        return vlib.coq_mismatches(["C03.CExpr", "C03.Gen", "C03.Model"], fexpr, eqb, coqcases,
                                   shard=500, jobs=4, prelude="Open Scope Z_scope.")
    with ThreadPoolExecutor(max_workers=3) as ex:
        results = list(ex.map(model_eval, groups))
    for (corr, fexpr, eqb, coqcases, owners), (bad, outs, err) in zip(groups, results):
        ctx.extra.setdefault("model_evaluations", {})[corr.split(" vs ")[0]] = len(coqcases)
        if err:
            ctx.obligation_broken("C03 model evaluation: " + corr, err)
            continue
        for i in bad:
            ctx.mismatch(owners[i], "model gives %s, implementation %s on input %s"
                         % (outs.get(i), coqcases[i][1], coqcases[i][0]), corr)


def run(ctx):
    ctx.cov["rule"] = ("cases = (integer type, store path, value); types: standard, <stdint.h>, _Bool, five enums "
                       "(all in thorough, a size/sign-covering subset in quick); paths: ffi.new initializer, array item, "
                       "struct field, global (ABI dlopen), API-mode global, ABI call argument, API-mode call argument, "
                       "callback result; values: +-2^k+{-2..2} for k in {0,7,8,15,16,31,32,63,64,100} plus random ints "
                       "up to 1000 bits. Predicate decided on the implementation with sizeof/signedness from gcc. "
                       "Non-trivial = value within 2 of a +-2^k boundary or wider than 64 bits; distinct by (type, path, value).")
    ctx.assumptions += [
        "hand-written model C03/Model.v of convert_from_object's integer branches, _cffi_to_c__Bool and the callback "
        "result path; tied to the code by this run's differential test",
        "C03/Gen.v regenerated from _cffi_backend.c/_cffi_include.h by tools/props/c03_regen.py + c03_cexpr.py (trusted translator): "
        "macro range tests, instantiations, dispatch, export table, and the statement sequences of convert_from_object's "
        "integer branches and of convert_from_object_fficallback's narrow-result blocks (executed by C03/Interp.v); "
        "twelve textual call-site facts path_* (each store path named in the property calls convert_from_object), "
        "fail-closed when an enclosing function is missing, false when the call is gone",
        "C03/CExpr.v: C11 integer-expression semantics on LP64 with gcc's implementation-defined choices",
        "PyLong_AsLongLong / PyLong_AsUnsignedLongLong raise OverflowError exactly outside their ranges (CPython)",
        "gcc as the oracle for sizeof and signedness of each type; little-endian x86-64"]
    evaluate(ctx, generate(ctx))


MANIFEST = dict(
    technique="Coq proof over all Python ints and all integer sizes 1..8 bytes + regenerated C range tests, store "
              "statement lists and call-site facts (deep-embedded C expressions evaluated in Coq) + differential "
              "correspondence on all store paths",
    text="Proof: for every integer ctype (1..8 bytes, signed/unsigned, _Bool) and every Python int v, the model of "
         "convert_from_object accepts iff v is in range, writes exactly v's encoding, and otherwise raises OverflowError "
         "leaving the target unchanged (C03_store_exact, C03_roundtrip, C03_store_frame, C03_store_received); the API-mode "
         "converters, whose range tests are regenerated from the macro text and evaluated with C semantics (no UB), deliver "
         "exactly v or OverflowError (C03_api_arg_exact); all paths agree (C03_paths_agree); a callback returning an "
         "out-of-range value makes the caller receive the error value (C03_callback_exact, needs the error value in range); "
         "floats and objects without __int__ raise TypeError (C03_store_obj_exact). On the REGENERATED statement lists of both "
         "integer branches of convert_from_object and of the fficallback blocks: executed, they are the hand model "
         "(C03_gen_store_refines, C03_gen_fficallback_refines), the target is written only after every check "
         "(C03_gen_store_writes_after_checks) and a failing store leaves it unchanged (C03_gen_store_failure_pure). "
         "C03_paths_reach_convert_from_object: twelve regenerated call-site facts (direct_newp, cdata_ass_sub, cdata_setattro -> "
         "convert_field_from_object, struct/array initialisers, dl_write_variable, lib_setattr -> write_global_var, the cdata_call "
         "argument loop, callback results, cffi_exports[]) are all true, i.e. every store path named in the property textually "
         "calls convert_from_object; a removed or redirected call breaks the obligation. Correspondence only: enums = base type, "
         "the API-mode global store, and that the textual call is executed with the address the model assumes "
         "(types x 8 store paths x boundary/random values on the scratch build on every run).",
    note="Trusted: Coq kernel; hand model C03/Model.v (differential tie); translator c03_regen/c03_cexpr; C03/CExpr.v "
         "semantics; CPython PyLong_As* (as_longlong / as_ulonglong_strict and _cffi_to_c__Bool are hand models, not regenerated); "
         "gcc; libffi for the ABI paths. wf_ity admits sizes 3,5,6,7 (a superset of the real ones). Call-site facts are textual "
         "(normalised substring inside the named function, function must exist exactly once: fail closed), not control-flow facts. "
         "Floats / __int__ / no-__int__ objects are modelled (C03_store_obj_exact) and exercised, though "
         "outside the property's quantifier. Theorems closed under the global context.",
    design_ref="DESIGN.md §4 C03")
