"""C11 — regeneration of coq/C11/Gen.v (opcode codec of cffi_opcode.py) and fail-closed shape checks of
the texts the hand model of coq/C11/Model.v transcribes (record emitters in recompiler.py, decoder in
cdlopen.c / parse_c_type.h / realize_c_type.c)."""
import ast
import os
import re

from lib import py2coq
from lib.py2coq import Untranslatable, Expr
from props import c06_extract as X
from props.c10_regen import cut, digest


def _norm(s):
    return " ".join(s.split())


def format_four_bytes(tree):
    fn = py2coq.find_function(tree, "format_four_bytes")
    if [a.arg for a in fn.args.args] != ["num"] or len(fn.body) != 1 or not isinstance(fn.body[0], ast.Return):
        raise Untranslatable("format_four_bytes shape")
    v = fn.body[0].value
    if not (isinstance(v, ast.BinOp) and isinstance(v.op, ast.Mod) and isinstance(v.left, ast.Constant)
            and v.left.value == "\\x%02X\\x%02X\\x%02X\\x%02X" and isinstance(v.right, ast.Tuple)
            and len(v.right.elts) == 4):
        raise Untranslatable("format_four_bytes is no longer '\\\\x%02X' * 4 % (b0, b1, b2, b3)")
    e = Expr(dict(num="num"))
    return ("(* '\\x%%02X\\x%%02X\\x%%02X\\x%%02X' %% (...): inside b'...' each \\xHH is the byte HH, provided\n"
            "   0 <= value < 256 (theorem C11_bytes_in_range) *)\n"
            "Definition format_four_bytes (num : Z) : list Z :=\n  [%s]." % ";\n   ".join(e.z(x) for x in v.right.elts))


APB_HOLES = {
    "OVERFLOW": ("body", 0, "body", 1, "test"),
    "PACK": ("body", 2, "value", "args", 0),
}
APB_TEMPLATE = "65ce8706d44bad1f"


def as_python_bytes(tree):
    fn = py2coq.find_function(tree, "as_python_bytes", "CffiOp")
    tmpl, h = cut(fn, APB_HOLES)
    if digest(tmpl) != APB_TEMPLATE:
        raise Untranslatable("CffiOp.as_python_bytes no longer has the recorded shape (digest %s)" % digest(tmpl))
    e1 = Expr(dict(value="value"))
    e2 = Expr({"self.arg": "arg", "self.op": "op"})
    return "\n".join([
        "Definition gen_len_overflow (value : Z) : bool := %s." % e1.b(h["OVERFLOW"]),
        "Definition gen_pack (arg op : Z) : Z := %s." % e2.z(h["PACK"]),
        "(* if self.op is None and self.arg.isdigit(): value = int(self.arg);",
        "       if OVERFLOW: raise OverflowError;  return format_four_bytes(value)",
        "   if isinstance(self.arg, str): raise VerificationError",
        "   return format_four_bytes(PACK) *)",
        "Definition as_python_bytes (o : cffiop) : result (list Z) :=",
        "  match o with",
        "  | OpLen value => if gen_len_overflow value then Err OverflowError else Ok (format_four_bytes value)",
        "  | OpExpr => Err VerificationError",
        "  | Op op arg => Ok (format_four_bytes (gen_pack arg op))",
        "  end."])


EMITTERS = {
    ("GlobalExpr", "as_python_expr"):
        "return \"b'%s%s',%d\" % (self.type_op.as_python_bytes(), self.name, self.check_value)",
    ("FieldExpr", "as_field_python_expr"):
        "if self.field_type_op.op == OP_NOOP: size_expr = '' "
        "elif self.field_type_op.op == OP_BITFIELD: size_expr = format_four_bytes(self.fbitsize) "
        "else: raise NotImplementedError "
        "return \"b'%s%s%s'\" % (self.field_type_op.as_python_bytes(), size_expr, self.name)",
    ("StructUnionExpr", "as_python_expr"):
        "flags = eval(self.flags, G_FLAGS) "
        "fields_expr = [c_field.as_field_python_expr() for c_field in self.c_fields] "
        "return \"(b'%s%s%s',%s)\" % (format_four_bytes(self.type_index), format_four_bytes(flags), self.name, "
        "','.join(fields_expr))",
    ("TypenameExpr", "as_python_expr"):
        "return \"b'%s%s'\" % (format_four_bytes(self.type_index), self.name)",
}


def check_emitters(tree):
    for (cls, name), want in EMITTERS.items():
        fn = py2coq.find_function(tree, name, cls)
        got = _norm(" ".join(ast.unparse(s) for s in fn.body))
        if got != _norm(want):
            raise Untranslatable("%s.%s changed: %s" % (cls, name, got[:200]))
    fn = py2coq.find_function(tree, "as_python_expr", "EnumExpr")
    got = _norm(ast.unparse(fn.body[-1]))
    want = ("return \"b'%s%s%s\\\\x00%s'\" % (format_four_bytes(self.type_index), format_four_bytes(prim_index), "
            "self.name, self.allenums)")
    if got != _norm(want):
        raise Untranslatable("EnumExpr.as_python_expr changed: %s" % got[:200])


C_TEXTS = [
    ("src/c/cdlopen.c", r"static Py_ssize_t cdl_4bytes\(char \*src\)\s*\{\s*signed char \*ssrc = \(signed char \*\)src;\s*"
                        r"unsigned char \*usrc = \(unsigned char \*\)src;\s*"
                        r"return \(ssrc\[0\] << 24\) \| \(usrc\[1\] << 16\) \| \(usrc\[2\] << 8\) \| usrc\[3\];\s*\}"),
    ("src/c/cdlopen.c", r"static _cffi_opcode_t cdl_opcode\(char \*src\)\s*\{\s*return \(_cffi_opcode_t\)cdl_4bytes\(src\);\s*\}"),
    ("src/c/cdlopen.c", r"nintconsts\[i\]\.neg = PyObject_RichCompareBool\(o, Py_False,\s*Py_LE\);\s*"
                        r"nintconsts\[i\]\.value = PyLong_AsUnsignedLongLongMask\(o\);"),
    ("src/c/cdlopen.c", r"gc->value = ic->value;\s*return ic->neg;"),
    ("src/c/cdlopen.c", r"nstructs\[i\]\.type_index = cdl_4bytes\(s\); s \+= 4;\s*nstructs\[i\]\.flags = cdl_4bytes\(s\); s \+= 4;\s*"
                        r"nstructs\[i\]\.name = s;"),
    ("src/c/cdlopen.c", r"nfields\[nf\]\.field_type_op = cdl_opcode\(f\); f \+= 4;\s*nfields\[nf\]\.field_offset = \(size_t\)-1;\s*"
                        r"if \(_CFFI_GETOP\(nfields\[nf\]\.field_type_op\) != _CFFI_OP_NOOP\) \{\s*"
                        r"nfields\[nf\]\.field_size = cdl_4bytes\(f\); f \+= 4;\s*\}\s*else \{\s*"
                        r"nfields\[nf\]\.field_size = \(size_t\)-1;\s*\}\s*nfields\[nf\]\.name = f;"),
    ("src/c/cdlopen.c", r"nenums\[i\]\.type_index = cdl_4bytes\(e\); e \+= 4;\s*nenums\[i\]\.type_prim = cdl_4bytes\(e\); e \+= 4;\s*"
                        r"nenums\[i\]\.name = e; e \+= strlen\(e\) \+ 1;\s*nenums\[i\]\.enumerators = e;"),
    ("src/c/cdlopen.c", r"ntypenames\[i\]\.type_index = cdl_4bytes\(t\); t \+= 4;\s*ntypenames\[i\]\.name = t;"),
    ("src/c/cdlopen.c", r"nglobs\[i\]\.type_op = cdl_opcode\(g\); g \+= 4;\s*nglobs\[i\]\.name = g;"),
    ("src/cffi/parse_c_type.h", r"#define _CFFI_GETOP\(cffi_opcode\)\s+\(\(unsigned char\)\(uintptr_t\)cffi_opcode\)"),
    ("src/cffi/parse_c_type.h", r"#define _CFFI_GETARG\(cffi_opcode\)\s+\(\(\(intptr_t\)cffi_opcode\) >> 8\)"),
    ("src/c/realize_c_type.c", r"case 0:\s*if \(value <= \(unsigned long long\)LONG_MAX\)\s*return PyLong_FromLong\(\(long\)value\);\s*"
                               r"else\s*return PyLong_FromUnsignedLongLong\(value\);\s*"
                               r"case 1:\s*if \(\(long long\)value >= \(long long\)LONG_MIN\)\s*return PyLong_FromLong\(\(long\)value\);\s*"
                               r"else\s*return PyLong_FromLongLong\(\(long long\)value\);"),
    ("src/c/realize_c_type.c", r"case _CFFI_OP_ARRAY:\s*length = \(Py_ssize_t\)opcodes\[index \+ 1\];"),
]


def check_c_texts(repo):
    cache = {}
    for rel, pat in C_TEXTS:
        if rel not in cache:
            cache[rel] = X.strip_c_comments(X.read(repo, rel))
        if not re.search(pat, cache[rel]):
            raise Untranslatable("%s: the decoder text modelled in C11/Model.v changed (%s...)" % (rel, pat[:50]))


def render(repo):
    op = py2coq.parse_source(os.path.join(repo, "src/cffi/cffi_opcode.py"))
    rc = py2coq.parse_source(os.path.join(repo, "src/cffi/recompiler.py"))
    check_emitters(rc)
    check_c_texts(repo)
    h = X.read(repo, "src/cffi/parse_c_type.h")

    def tbl(name, rows):
        return "Definition %s : list (cstr * Z) := [\n  %s]." % (name, ";\n  ".join("(%s, %d)" % (X.cs(k), v) for k, v in rows))
    parts = [
        "(* GENERATED by tools/props/c11.py regen() from the cffi sources - do not edit. *)",
        "From Coq Require Import String ZArith NArith List Bool.\nImport ListNotations.\n"
        "From Cffi Require Import C11.Model.\nOpen Scope Z_scope.\n",
        "(* ---- cffi_opcode.format_four_bytes *)", format_four_bytes(op), "",
        "(* ---- cffi_opcode.CffiOp.as_python_bytes *)", as_python_bytes(op), "",
        "(* ---- OP_* / F_* of cffi_opcode.py and _CFFI_OP_* / _CFFI_F_* of parse_c_type.h *)",
        tbl("py_ops", X.py_int_constants(op, "OP_")), tbl("c_ops", X.c_defines(h, "_CFFI_OP_")),
        tbl("py_flags", X.py_int_constants(op, "F_")), tbl("c_flags", X.c_defines(h, "_CFFI_F_")), ""]
    return "\n".join(parts)


def regen_template(repo="/repo"):
    t = py2coq.parse_source(os.path.join(repo, "src/cffi/cffi_opcode.py"))
    print("APB", digest(cut(py2coq.find_function(t, "as_python_bytes", "CffiOp"), APB_HOLES)[0]))
