"""C11 — regeneration of coq/C11/Gen.v (opcode codec of cffi_opcode.py) and fail-closed shape checks of
the texts the hand model of coq/C11/Model.v transcribes (record emitters in recompiler.py, decoder in
cdlopen.c / parse_c_type.h / realize_c_type.c)."""
import ast
import os
import re

from lib import py2coq
from lib.py2coq import Untranslatable, Expr
from props import c06_extract as X
from props.c10_regen import cut, digest


def _norm(s):
    return " ".join(s.split())


def format_four_bytes(tree):
    fn = py2coq.find_function(tree, "format_four_bytes")
    if [a.arg for a in fn.args.args] != ["num"] or len(fn.body) != 1 or not isinstance(fn.body[0], ast.Return):
        raise Untranslatable("format_four_bytes shape")
    v = fn.body[0].value
    if not (isinstance(v, ast.BinOp) and isinstance(v.op, ast.Mod) and isinstance(v.left, ast.Constant)
            and v.left.value == "\\x%02X\\x%02X\\x%02X\\x%02X" and isinstance(v.right, ast.Tuple)
            and len(v.right.elts) == 4):
        raise Untranslatable("format_four_bytes is no longer '\\\\x%02X' * 4 % (b0, b1, b2, b3)")
    e = Expr(dict(num="num"))
    return ("(* '\\x%%02X\\x%%02X\\x%%02X\\x%%02X' %% (...): inside b'...' each \\xHH is the byte HH, provided\n"
            "   0 <= value < 256 (theorem C11_bytes_in_range) *)\n"
            "Definition format_four_bytes (num : Z) : list Z :=\n  [%s]." % ";\n   ".join(e.z(x) for x in v.right.elts))


APB_HOLES = {
    "OVERFLOW": ("body", 0, "body", 1, "test"),
    "PACK": ("body", 2, "value", "args", 0),
}
APB_TEMPLATE = "65ce8706d44bad1f"


def as_python_bytes(tree):
    fn = py2coq.find_function(tree, "as_python_bytes", "CffiOp")
    tmpl, h = cut(fn, APB_HOLES)
    if digest(tmpl) != APB_TEMPLATE:
        raise Untranslatable("CffiOp.as_python_bytes no longer has the recorded shape (digest %s)" % digest(tmpl))
    e1 = Expr(dict(value="value"))
    e2 = Expr({"self.arg": "arg", "self.op": "op"})
    return "\n".join([
        "Definition gen_len_overflow (value : Z) : bool := %s." % e1.b(h["OVERFLOW"]),
        "Definition gen_pack (arg op : Z) : Z := %s." % e2.z(h["PACK"]),
        "(* if self.op is None and self.arg.isdigit(): value = int(self.arg);",
        "       if OVERFLOW: raise OverflowError;  return format_four_bytes(value)",
        "   if isinstance(self.arg, str): raise VerificationError",
        "   return format_four_bytes(PACK) *)",
        "Definition as_python_bytes (o : cffiop) : result (list Z) :=",
        "  match o with",
        "  | OpLen value => if gen_len_overflow value then Err OverflowError else Ok (format_four_bytes value)",
        "  | OpExpr => Err VerificationError",
        "  | Op op arg => Ok (format_four_bytes (gen_pack arg op))",
        "  end."])


EMITTERS = {
    ("GlobalExpr", "as_python_expr"):
        "return \"b'%s%s',%d\" % (self.type_op.as_python_bytes(), self.name, self.check_value)",
    ("FieldExpr", "as_field_python_expr"):
        "if self.field_type_op.op == OP_NOOP: size_expr = '' "
        "elif self.field_type_op.op == OP_BITFIELD: size_expr = format_four_bytes(self.fbitsize) "
        "else: raise NotImplementedError "
        "return \"b'%s%s%s'\" % (self.field_type_op.as_python_bytes(), size_expr, self.name)",
    ("StructUnionExpr", "as_python_expr"):
        "flags = eval(self.flags, G_FLAGS) "
        "fields_expr = [c_field.as_field_python_expr() for c_field in self.c_fields] "
        "return \"(b'%s%s%s',%s)\" % (format_four_bytes(self.type_index), format_four_bytes(flags), self.name, "
        "','.join(fields_expr))",
    ("TypenameExpr", "as_python_expr"):
        "return \"b'%s%s'\" % (format_four_bytes(self.type_index), self.name)",
}


def check_emitters(tree):
    for (cls, name), want in EMITTERS.items():
        fn = py2coq.find_function(tree, name, cls)
        got = _norm(" ".join(ast.unparse(s) for s in fn.body))
        if got != _norm(want):
            raise Untranslatable("%s.%s changed: %s" % (cls, name, got[:200]))
    fn = py2coq.find_function(tree, "as_python_expr", "EnumExpr")
    got = _norm(ast.unparse(fn.body[-1]))
    want = ("return \"b'%s%s%s\\\\x00%s'\" % (format_four_bytes(self.type_index), format_four_bytes(prim_index), "
            "self.name, self.allenums)")
    if got != _norm(want):
        raise Untranslatable("EnumExpr.as_python_expr changed: %s" % got[:200])


C_TEXTS = [
    ("src/c/cdlopen.c", r"static Py_ssize_t cdl_4bytes\(char \*src\)\s*\{\s*signed char \*ssrc = \(signed char \*\)src;\s*"
                        r"unsigned char \*usrc = \(unsigned char \*\)src;\s*"
                        r"return \(ssrc\[0\] << 24\) \| \(usrc\[1\] << 16\) \| \(usrc\[2\] << 8\) \| usrc\[3\];\s*\}"),
    ("src/c/cdlopen.c", r"static _cffi_opcode_t cdl_opcode\(char \*src\)\s*\{\s*return \(_cffi_opcode_t\)cdl_4bytes\(src\);\s*\}"),
    ("src/c/cdlopen.c", r"gc->value = ic->value;\s*return ic->neg;"),
    ("src/c/cdlopen.c", r"nstructs\[i\]\.type_index = cdl_4bytes\(s\); s \+= 4;\s*nstructs\[i\]\.flags = cdl_4bytes\(s\); s \+= 4;\s*"
                        r"nstructs\[i\]\.name = s;"),
    ("src/c/cdlopen.c", r"nfields\[nf\]\.field_type_op = cdl_opcode\(f\); f \+= 4;\s*nfields\[nf\]\.field_offset = \(size_t\)-1;\s*"
                        r"if \(_CFFI_GETOP\(nfields\[nf\]\.field_type_op\) != _CFFI_OP_NOOP\) \{\s*"
                        r"nfields\[nf\]\.field_size = cdl_4bytes\(f\); f \+= 4;\s*\}\s*else \{\s*"
                        r"nfields\[nf\]\.field_size = \(size_t\)-1;\s*\}\s*nfields\[nf\]\.name = f;"),
    ("src/c/cdlopen.c", r"nenums\[i\]\.type_index = cdl_4bytes\(e\); e \+= 4;\s*nenums\[i\]\.type_prim = cdl_4bytes\(e\); e \+= 4;\s*"
                        r"nenums\[i\]\.name = e; e \+= strlen\(e\) \+ 1;\s*nenums\[i\]\.enumerators = e;"),
    ("src/c/cdlopen.c", r"ntypenames\[i\]\.type_index = cdl_4bytes\(t\); t \+= 4;\s*ntypenames\[i\]\.name = t;"),
    ("src/c/cdlopen.c", r"nglobs\[i\]\.type_op = cdl_opcode\(g\); g \+= 4;\s*nglobs\[i\]\.name = g;"),
    ("src/cffi/parse_c_type.h", r"#define _CFFI_GETOP\(cffi_opcode\)\s+\(\(unsigned char\)\(uintptr_t\)cffi_opcode\)"),
    ("src/cffi/parse_c_type.h", r"#define _CFFI_GETARG\(cffi_opcode\)\s+\(\(\(intptr_t\)cffi_opcode\) >> 8\)"),
    ("src/c/realize_c_type.c", r"case 0:\s*if \(value <= \(unsigned long long\)LONG_MAX\)\s*return PyLong_FromLong\(\(long\)value\);\s*"
                               r"else\s*return PyLong_FromUnsignedLongLong\(value\);\s*"
                               r"case 1:\s*if \(\(long long\)value >= \(long long\)LONG_MIN\)\s*return PyLong_FromLong\(\(long\)value\);\s*"
                               r"else\s*return PyLong_FromLongLong\(\(long long\)value\);"),
    ("src/c/realize_c_type.c", r"case _CFFI_OP_ARRAY:\s*length = \(Py_ssize_t\)opcodes\[index \+ 1\];"),
]


def check_c_texts(repo):
    cache = {}
    for rel, pat in C_TEXTS:
        if rel not in cache:
            cache[rel] = X.strip_c_comments(X.read(repo, rel))
        if not re.search(pat, cache[rel]):
            raise Untranslatable("%s: the decoder text modelled in C11/Model.v changed (%s...)" % (rel, pat[:50]))


# ---------------------------------------------------------------- ffiobj_init: sign/value of integer constants
_IC_TOK = re.compile(r"\s*(?:([A-Za-z_]\w*(?:\[i\]\.\w+)?)|(\d+)|(<=|>=|==|!=|[-<>()=,;*]))")


def _ic_tokens(text):
    pos, out = 0, []
    while pos < len(text):
        m = _IC_TOK.match(text, pos)
        if not m:
            if not text[pos:].strip():
                break
            raise Untranslatable("ffiobj_init int constants: cannot tokenize %r" % text[pos:pos + 30])
        out.append(m.group(1) or m.group(2) or m.group(3))
        pos = m.end()
    return out


class _IcExpr:
    """Z-valued C expressions over the Python int `o`: PyLong_AsUnsignedLongLongMask(o), PyObject_RichCompareBool(o,
    Py_False|Py_True, Py_LT..Py_GE), (long long)/(unsigned long long) casts, comparisons with literals, locals."""
    RICH = {"Py_LT": "<?", "Py_LE": "<=?", "Py_EQ": "=?", "Py_GT": ">?", "Py_GE": ">=?"}
    CMP = {"<": "<?", "<=": "<=?", "==": "=?", ">": ">?", ">=": ">=?"}

    def __init__(self, toks, env):
        self.t, self.i, self.env = toks, 0, env

    def peek(self, k=0):
        return self.t[self.i + k] if self.i + k < len(self.t) else None

    def take(self, want=None):
        if self.peek() is None or (want is not None and self.peek() != want):
            raise Untranslatable("ffiobj_init int constants: expected %r in %r" % (want, " ".join(self.t)))
        self.i += 1
        return self.t[self.i - 1]

    def parse(self):
        e = self.cmp()
        if self.peek() is not None:
            raise Untranslatable("ffiobj_init int constants: trailing tokens in %r" % " ".join(self.t))
        return e

    def cmp(self):
        a = self.unary()
        if self.peek() in self.CMP:
            op = self.take()
            b = self.unary()
            return ("bool", "(%s %s %s)" % (a[1], self.CMP[op], b[1]))
        return a

    def unary(self):
        x = self.peek()
        if x == "(":
            # cast?
            j = self.i + 1
            ty = []
            while j < len(self.t) and self.t[j] in ("unsigned", "long", "int", "signed"):
                ty.append(self.t[j])
                j += 1
            if ty and j < len(self.t) and self.t[j] == ")":
                self.i = j + 1
                inner = self.unary()
                if ty == ["long", "long"]:
                    return ("z", "(wrap_signed 64 %s)" % inner[1])
                if ty == ["unsigned", "long", "long"]:
                    return ("z", "(%s mod 2 ^ 64)" % inner[1])
                raise Untranslatable("ffiobj_init int constants: cast to %r" % " ".join(ty))
            self.take("(")
            e = self.cmp()
            self.take(")")
            return e
        if x == "-":
            self.take()
            return ("z", "(- %s)" % self.unary()[1])
        x = self.take()
        if x.isdigit():
            return ("z", x)
        if x == "PyLong_AsUnsignedLongLongMask":
            self.take("(")
            self.take("o")
            self.take(")")
            return ("z", "(o mod 2 ^ 64)")
        if x == "PyObject_RichCompareBool":
            self.take("(")
            self.take("o")
            self.take(",")
            rhs = {"Py_False": "0", "Py_True": "1"}.get(self.take())
            self.take(",")
            op = self.RICH.get(self.take())
            self.take(")")
            if rhs is None or op is None:
                raise Untranslatable("ffiobj_init int constants: unsupported PyObject_RichCompareBool arguments")
            return ("bool", "(o %s %s)" % (op, rhs))
        if x in self.env:
            return self.env[x]
        raise Untranslatable("ffiobj_init int constants: unknown name %r" % x)


def intconst_facts(repo):
    text = X.strip_c_comments(X.read(repo, "src/c/cdlopen.c"))
    a = text.find("PyObject *o = PyTuple_GET_ITEM(globals, i * 2 + 1);")
    b = text.find("ffi->types_builder.ctx.globals = nglobs;")
    if a < 0 or b < a:
        raise Untranslatable("ffiobj_init: the integer-constant block was not found")
    block = text[a + len("PyObject *o = PyTuple_GET_ITEM(globals, i * 2 + 1);"):b]
    env, neg, value = {}, None, None
    for stmt in block.replace("{", ";").replace("}", ";").split(";"):
        st = " ".join(stmt.split())
        if not st or st == "goto error" or st.startswith("if (") or st == "nglobs[i].address = &_cdl_realize_global_int":
            # error checks (`if (PyErr_Occurred()) goto error`) do not change the stored values
            if st.startswith("if (") and not re.fullmatch(r"if \((\w+ == \(unsigned long long\)-1 && )?PyErr_Occurred\(\)\)( goto error)?", st):
                raise Untranslatable("ffiobj_init int constants: unexpected test %r" % st)
            continue
        m = re.fullmatch(r"(?:unsigned long long (\w+)|(nintconsts\[i\]\.(?:neg|value))) = (.*)", st)
        if not m:
            raise Untranslatable("ffiobj_init int constants: unexpected statement %r" % st)
        e = _IcExpr(_ic_tokens(m.group(3)), env).parse()
        if m.group(1):
            env[m.group(1)] = e
        elif m.group(2).endswith(".neg"):
            neg = e
        else:
            value = e
            env["nintconsts[i].value"] = e
    if neg is None or value is None or neg[0] != "bool" or value[0] != "z":
        raise Untranslatable("ffiobj_init int constants: neg/value assignments not found")
    return "\n".join([
        "(* ffiobj_init (src/c/cdlopen.c): what is stored for the Python int o of an integer constant / enumerator *)",
        "Definition gen_intconst_neg (o : Z) : bool := %s." % neg[1],
        "Definition gen_intconst_value (o : Z) : Z := %s." % value[1]])


def render(repo):
    op = py2coq.parse_source(os.path.join(repo, "src/cffi/cffi_opcode.py"))
    rc = py2coq.parse_source(os.path.join(repo, "src/cffi/recompiler.py"))
    check_emitters(rc)
    check_c_texts(repo)
    h = X.read(repo, "src/cffi/parse_c_type.h")

    def tbl(name, rows):
        return "Definition %s : list (cstr * Z) := [\n  %s]." % (name, ";\n  ".join("(%s, %d)" % (X.cs(k), v) for k, v in rows))
    parts = [
        "(* GENERATED by tools/props/c11.py regen() from the cffi sources - do not edit. *)",
        "From Coq Require Import String ZArith NArith List Bool.\nImport ListNotations.\n"
        "From Cffi Require Import C11.Model.\nOpen Scope Z_scope.\n",
        "(* ---- cffi_opcode.format_four_bytes *)", format_four_bytes(op), "",
        "(* ---- cffi_opcode.CffiOp.as_python_bytes *)", as_python_bytes(op), "",
        "(* ---- OP_* / F_* of cffi_opcode.py and _CFFI_OP_* / _CFFI_F_* of parse_c_type.h *)",
        tbl("py_ops", X.py_int_constants(op, "OP_")), tbl("c_ops", X.c_defines(h, "_CFFI_OP_")),
        tbl("py_flags", X.py_int_constants(op, "F_")), tbl("c_flags", X.c_defines(h, "_CFFI_F_")), "",
        intconst_facts(repo), ""]
    return "\n".join(parts)


def regen_template(repo="/repo"):
    t = py2coq.parse_source(os.path.join(repo, "src/cffi/cffi_opcode.py"))
    print("APB", digest(cut(py2coq.find_function(t, "as_python_bytes", "CffiOp"), APB_HOLES)[0]))
