"""C05 — floating-point and complex stores round-trip with C conversion semantics.

Regeneration: tools/props/c05_regen.py extracts the raw-data macros, their instantiations, check_bytes_for_float_
compatible and the float/complex branches of convert_from_object and do_cast into coq/C05/Gen.v (fail closed);
coq/C05/Interp.v executes them and GenProofs.v proves them equal to the hand models (C05_gen_*_refines).

Proof side: coq/C05 (Flocq): the model's `narrow` (binary64 -> binary32) is round-to-nearest-even of
the real value with overflow to infinity, `widen` is exact, narrow (widen x) = x, classes preserved,
complex componentwise, long double copy keeps the 10 value bytes.

Tie (correspondence, bit exact): Python values given by their binary64 patterns are stored through
every store path of the real backend (ffi.new initializer, item assignment, list initializer, struct
field, struct initializer, ffi.cast, call argument and callback result through a helper .so; API-mode
call argument in thorough); the bytes found in memory and the value read back are compared with
  (a) the Coq model  C05.Model.observe  evaluated by vm_compute on the same inputs, and
  (b) gcc's own (float)/(double) conversions (tools/props/c/c05_oracle.c through ctypes) — this is the
      property predicate, decided on the implementation independently of the model.
NaNs are compared by class.  long double: random valid x87 encodings are read, sent through every
path and the 10 value bytes compared; double <-> long double conversions are compared with gcc.
"""
import ctypes
import math
import os
import struct
import subprocess

from lib import vlib
from lib.vlib import cz, clist
from props import c05_regen

ID = "C05"


def regen(ctx):
    """coq/C05/Gen.v from /repo/src/c/_cffi_backend.c (fail closed: a shape the translator does not know is a
    broken obligation)"""
    c05_regen.regen(ctx, vlib)


TARGETS = ["f", "d", "fc", "dc"]
COQ_T = {"f": "TFloat", "d": "TDouble", "fc": "TFloatComplex", "dc": "TDoubleComplex"}
CSIZE = {"f": 4, "d": 8, "fc": 4, "dc": 8}
NCOMP = {"f": 1, "d": 1, "fc": 2, "dc": 2}
STORE_PATHS = ["new", "item", "list", "field", "structinit", "callarg", "callback"]
LD_PATHS = ["new", "item", "list", "field", "cast", "reread", "callarg", "callret", "callback"]
M64 = (1 << 64) - 1

QNAN32, QNAN64 = 0x7fc00000, 0x7ff8000000000000


def d2bits(x):
    return struct.unpack("<Q", struct.pack("<d", x))[0]


def bits2d(b):
    return struct.unpack("<d", struct.pack("<Q", b))[0]


def is_nan64(b):
    return (b >> 52) & 0x7ff == 0x7ff and b & ((1 << 52) - 1) != 0


def is_nan32(b):
    return (b >> 23) & 0xff == 0xff and b & ((1 << 23) - 1) != 0


def canon64(b):
    return QNAN64 if is_nan64(b) else b


def canon32(b):
    return QNAN32 if is_nan32(b) else b


def canon(t, b):
    return canon32(b) if CSIZE[t] == 4 else canon64(b)


# ------------------------------------------------------------------ value pools

def classify(bits):
    """case structure of `narrow` on a binary64 pattern (used for the generator and the evidence)"""
    e, m = (bits >> 52) & 0x7ff, bits & ((1 << 52) - 1)
    if e == 0x7ff:
        return "nan" if m else "inf"
    if e == 0 and m == 0:
        return "zero"
    x = abs(bits2d(bits))
    if x >= bits2d(0x47effffff0000000):
        return "overflow"
    if x <= bits2d(0x3690000000000000):
        return "underflow-to-zero"
    low = bits & 0x1fffffff
    sub = x < bits2d(0x3810000000000000)
    if sub:
        # distance to the float subnormal grid 2^-149
        q = x / bits2d(0x36a0000000000000)       # exact (power of two)
        fr = q - math.floor(q)
        if fr == 0:
            return "subnormal-exact"
        return "subnormal-tie" if fr == 0.5 else "subnormal-inexact"
    if low == 0:
        return "exact"
    if low == 0x10000000:
        return "tie"
    return "inexact"


def edge_doubles(rng):
    out = [0, 1 << 63, 0x7ff0000000000000, 0xfff0000000000000,
           0x7ff0000000000001, 0x7ff8000000000000, 0xfff8000000000000, 0x7fffffffffffffff,
           0x7ff4000000000000, 0xfff0000000000001, 0x7ff0000020000000, 0x7ff000001fffffff,
           1, 0x000fffffffffffff, 0x0010000000000000, 0x8000000000000001,
           0x7fefffffffffffff, 0xffefffffffffffff,
           # overflow threshold of (float)
           0x47efffffe0000000, 0x47efffffe0000001, 0x47efffffefffffff, 0x47effffff0000000,
           0x47effffff0000001, 0x47f0000000000000, 0xc7efffffefffffff, 0xc7effffff0000000,
           # FLT_MIN neighbourhood and the float subnormal range
           0x3810000000000000, 0x380fffffffffffff, 0x380ffffff0000000, 0x380fffffefffffff,
           0x380fffffe0000000, 0x36a0000000000000, 0x3690000000000000, 0x3690000000000001,
           0x368fffffffffffff, 0x36a8000000000000, 0x36b0000000000000, 0x36b8000000000000,
           0xb690000000000000, 0xb690000000000001,
           # around 1.0: ties to even in both directions
           0x3ff0000000000000, 0x3ff0000010000000, 0x3ff0000010000001, 0x3ff000000fffffff,
           0x3ff0000030000000, 0x3ff000002fffffff, 0x3ff0000030000001, 0x3fefffffffffffff,
           0x3feffffff0000000, 0xbff0000010000000, 0xbff0000030000000]
    # 2^k, 2^k +- ulp64, 2^k +- half ulp32 for assorted k
    for k in [-1074, -1022, -160, -151, -150, -149, -148, -140, -127, -126, -125, -1, 0, 1, 23, 24, 25,
              52, 53, 126, 127, 128, 129, 1023]:
        b = d2bits(math.ldexp(1.0, k))
        for db in (-1, 0, 1, 0x10000000, 0x0fffffff, 0x10000001, -0x10000000):
            v = b + db
            if 0 <= v <= 0x7ff0000000000000:
                out.append(v)
                out.append(v | (1 << 63))
    # ties and near-ties with random float mantissas, normal range
    for _ in range(24):
        e = rng.choice([0x381, 0x382, 0x3ff, 0x400, 0x47e, rng.randrange(0x381, 0x47f)])
        m = rng.getrandbits(23)
        for low in (0x10000000, 0x0fffffff, 0x10000001, 0, 1, 0x1fffffff):
            out.append((rng.getrandbits(1) << 63) | (e << 52) | (m << 29) | low)
    # float-subnormal range: (2m+1) * 2^-150 are exact ties; neighbours
    for _ in range(24):
        m = rng.choice([0, 1, 2, 3, rng.getrandbits(rng.randrange(1, 23)), (1 << 23) - 1, (1 << 23) - 2])
        b = d2bits(math.ldexp(2 * m + 1, -150))
        for db in (-1, 0, 1):
            out.append(b + db)
        out.append((b + rng.choice([-1, 0, 1])) | (1 << 63))
    return out


def random_double(rng):
    r = rng.random()
    if r < 0.25:
        return rng.getrandbits(64)
    if r < 0.75:       # exponent within (a little beyond) the float range
        e = rng.randrange(0x366, 0x482)
        return (rng.getrandbits(1) << 63) | (e << 52) | rng.getrandbits(52)
    if r < 0.85:       # representable as float
        e = rng.randrange(0x381, 0x47f)
        return (rng.getrandbits(1) << 63) | (e << 52) | (rng.getrandbits(23) << 29)
    if r < 0.93:       # NaN payloads
        return (rng.getrandbits(1) << 63) | (0x7ff << 52) | (rng.getrandbits(52) or 1)
    return (rng.getrandbits(1) << 63) | (rng.choice([0, 1, 0x7fe]) << 52) | rng.getrandbits(52)


def random_int(rng):
    r = rng.random()
    if r < 0.3:
        return rng.randrange(-2 ** 24 - 2, 2 ** 24 + 3)
    if r < 0.6:
        k = rng.choice([24, 25, 53, 54, 64, 100, 127, 128, 1023, 1024])
        return rng.choice([-1, 1]) * (2 ** k + rng.choice([-2, -1, 0, 1, 2, 2 ** max(k - 25, 0), 2 ** max(k - 54, 0)]))
    if r < 0.9:
        return rng.choice([-1, 1]) * rng.getrandbits(rng.randrange(1, 1100))
    return rng.choice([2 ** 1024 - 2 ** 970, 2 ** 1024 - 2 ** 970 - 1, 2 ** 1024 - 2 ** 971, 2 ** 1024,
                       -(2 ** 1024 - 2 ** 970), 10 ** 400])


def random_xld(rng):
    """a valid x87 80-bit encoding, as 10 little-endian bytes (hex)"""
    s = rng.getrandbits(1)
    r = rng.random()
    if r < 0.55:
        e = rng.choice([1, 2, 0x3fff, 0x3ffe, 0x4000, 0x7ffe, rng.randrange(1, 0x7fff), rng.randrange(1, 0x7fff)])
        mant = (1 << 63) | rng.choice([0, 1, (1 << 63) - 1, rng.getrandbits(63), rng.getrandbits(63)])
    elif r < 0.7:
        e, mant = 0, rng.choice([0, 1, (1 << 63) - 1, rng.getrandbits(63)])           # zero / denormal
    elif r < 0.8:
        e, mant = 0x7fff, 1 << 63                                                         # infinity
    elif r < 0.9:
        e, mant = 0x7fff, (1 << 63) | (1 << 62) | rng.getrandbits(62)                   # quiet NaN
    else:
        e, mant = 0x7fff, (1 << 63) | (rng.getrandbits(62) or 1)                        # signalling NaN
    v = (s << 79) | (e << 64) | mant
    return v.to_bytes(10, "little").hex()


def xld_class(rawhex):
    v = int.from_bytes(bytes.fromhex(rawhex), "little")
    e, mant = (v >> 64) & 0x7fff, v & M64
    if e == 0x7fff:
        return "inf" if mant == 1 << 63 else ("qnan" if mant & (1 << 62) else "snan")
    if e == 0:
        return "zero" if mant == 0 else "denormal"
    return "normal"


# ------------------------------------------------------------------ cases

def fp_case(t, path, v):
    return dict(kind="fp", t=t, path=path, v=v)


def generate(ctx):
    rng = ctx.rng
    cases = []
    edges = edge_doubles(rng)
    # every edge value into float by plain ffi.new; plus other targets/paths at random
    for b in edges:
        cases.append(fp_case("f", "new", dict(k="float", bits=b)))
        for _ in range(ctx.n(2, 4)):
            t = rng.choice(TARGETS)
            path = rng.choice(STORE_PATHS + ["cast", "cast"])
            if NCOMP[t] == 2 and path in ("callarg", "callback"):
                path = "item"
            k = rng.choice(["float", "float", "hasfloat"])
            cases.append(fp_case(t, path, dict(k=k, bits=b)))
    pool = edges
    for _ in range(ctx.n(700, 9000)):
        t = rng.choice(["f", "f", "f", "d", "fc", "dc"])
        path = rng.choice(STORE_PATHS + ["cast", "cast"])
        if NCOMP[t] == 2 and path in ("callarg", "callback"):
            path = rng.choice(["new", "item", "field"])
        r = rng.random()
        if r < 0.62:
            v = dict(k=rng.choice(["float", "float", "float", "hasfloat"]), bits=random_double(rng))
        elif r < 0.80:
            pick = lambda: rng.choice(pool) if rng.random() < 0.5 else random_double(rng)
            v = dict(k=rng.choice(["complex", "complex", "hascomplex"]), re=pick(), im=pick())
        elif r < 0.90:
            v = dict(k="int", n=str(random_int(rng)))
        elif r < 0.94:
            n = rng.choice([0, 1, 1, 1, 2])
            v = dict(k="bytes", b=[rng.choice([0, 1, 65, 127, 128, 255, rng.randrange(256)]) for _ in range(n)])
        elif r < 0.98:
            n = rng.choice([0, 1, 1, 1, 2])
            v = dict(k="str", cps=[rng.choice([0, 65, 255, 256, 0xd800, 0xdfff, 0xffff, 0x10000, 0x10ffff,
                                               0xffffff >> 4, rng.randrange(0x110000)]) for _ in range(n)])
        else:
            v = dict(k="other")
        cases.append(fp_case(t, path, v))
    if ctx.thorough:
        for _ in range(1500):
            t = rng.choice(TARGETS)
            r = rng.random()
            if r < 0.7 or NCOMP[t] == 1:
                v = dict(k=rng.choice(["float", "hasfloat"]),
                         bits=rng.choice(pool) if rng.random() < 0.4 else random_double(rng))
            else:
                v = dict(k="complex", re=random_double(rng), im=rng.choice(pool))
            cases.append(fp_case(t, "api_callarg", v))
        # first call into a fresh API module is one that passes a complex by value
        for t in ("dc", "fc"):
            cases.append(dict(kind="api_cold", t=t, path="api_callarg", re=rng.choice(pool), im=random_double(rng)))
    # cdata sources (store: cdata_float / the long double special case; cast: convert_to_object prologue) and the
    # long double target, compared with C05.XModel.xobserve
    def non_nan32():
        while True:
            f = rng.choice([0, 1 << 31, 1, 0x7f7fffff, 0x7f800000, 0xff800000, 0x00800000, 0x3f800000,
                            rng.getrandbits(32), rng.getrandbits(32)])
            if not is_nan32(f):
                return f

    def non_nan64():
        while True:
            b = rng.choice(pool) if rng.random() < 0.5 else random_double(rng)
            if not is_nan64(b):
                return b

    def xsource(t):
        r = rng.random()
        if r < 0.18:
            return dict(k="cd_float", bits=non_nan32())
        if r < 0.36:
            return dict(k="cd_double", bits=non_nan64())
        if r < 0.52:
            return dict(k="cd_ld", raw=random_xld(rng))
        if r < 0.62:
            ct, lo, hi = rng.choice([("long long", -2 ** 63, 2 ** 63 - 1), ("int", -2 ** 31, 2 ** 31 - 1),
                                     ("unsigned char", 0, 255), ("unsigned long long", 0, 2 ** 64 - 1),
                                     ("_Bool", 0, 1), ("short", -2 ** 15, 2 ** 15 - 1)])
            n = rng.choice([lo, hi, 0, 1, min(hi, 2 ** 53 + 1), min(hi, 2 ** 24 + 1), rng.randrange(lo, hi + 1)])
            return dict(k="cd_int", ctype=ct, n=str(n))
        if r < 0.68:
            return dict(k="cd_char", b=rng.choice([0, 65, 127, 128, 255, rng.randrange(256)]))
        if r < 0.76:
            ct, hi = rng.choice([("wchar_t", 0x10ffff), ("char32_t", 0x10ffff), ("char16_t", 0xffff)])
            return dict(k="cd_wchar", ctype=ct, c=rng.choice([0, 65, 255, 256, 0xffff, hi, rng.randrange(hi + 1)]))
        if r < 0.86:
            if rng.random() < 0.5:
                return dict(k="cd_complex", ck="fc", re=non_nan32(), im=non_nan32())
            return dict(k="cd_complex", ck="dc", re=non_nan64(), im=non_nan64())
        if r < 0.90:
            return dict(k="cd_other")
        if r < 0.97 or t == "ld":
            return dict(k="float", bits=non_nan64())
        return dict(k="int", n=str(random_int(rng)))

    for i in range(ctx.n(450, 5000)):
        t = rng.choice(["f", "d", "ld", "ld", "fc", "dc"])
        path = rng.choice(["cast", "cast", "new", "item"])
        cases.append(dict(kind="xfp", t=t, path=path, v=xsource(t)))
    # long double
    nld = ctx.n(250, 2500)
    for i in range(nld):
        path = LD_PATHS[i % len(LD_PATHS)] if i < 3 * len(LD_PATHS) else rng.choice(LD_PATHS)
        cases.append(dict(kind="ld", path=path, raw=random_xld(rng)))
    if ctx.thorough:
        for _ in range(300):
            cases.append(dict(kind="ld", path="api_callarg", raw=random_xld(rng)))
    for b in edges[:: ctx.n(3, 1)]:
        cases.append(dict(kind="ld_from_double", path=rng.choice(["cast", "new", "item"]), bits=b))
    for _ in range(ctx.n(150, 1500)):
        cases.append(dict(kind="ld_from_double", path=rng.choice(["cast", "new", "item"]), bits=random_double(rng)))
    for _ in range(ctx.n(200, 2000)):
        cases.append(dict(kind="ld_to_double", raw=random_xld(rng)))
    for b in edges[:: ctx.n(4, 1)]:
        # a double (exact or off by the last x87 bits) seen as long double, narrowed again
        cases.append(dict(kind="ld_to_double", raw=None, bits=b))
    return cases


# ------------------------------------------------------------------ oracle (gcc, CPython)

class Oracle:
    def __init__(self, ctx):
        s = ctx.scratch()
        so = os.path.join(s.work, "libc05oracle.so")
        if not os.path.exists(so):
            src = os.path.join(vlib.ROOT, "tools", "props", "c", "c05_oracle.c")
            p = subprocess.run(["gcc", "-O1", "-fPIC", "-shared", "-o", so, src], capture_output=True, text=True)
            if p.returncode:
                raise vlib.BuildError("oracle: " + p.stderr[-2000:])
        self.lib = ctypes.CDLL(so)

    def d2f(self, bits):
        n = len(bits)
        if not n:
            return []
        src = (ctypes.c_uint64 * n)(*bits)
        dst = (ctypes.c_uint32 * n)()
        self.lib.conv_d2f(ctypes.cast(src, ctypes.c_void_p), ctypes.cast(dst, ctypes.c_void_p), ctypes.c_long(n))
        return list(dst)

    def f2d(self, bits):
        n = len(bits)
        if not n:
            return []
        src = (ctypes.c_uint32 * n)(*bits)
        dst = (ctypes.c_uint64 * n)()
        self.lib.conv_f2d(ctypes.cast(src, ctypes.c_void_p), ctypes.cast(dst, ctypes.c_void_p), ctypes.c_long(n))
        return list(dst)

    def d2ld(self, bits):
        n = len(bits)
        if not n:
            return []
        src = (ctypes.c_uint64 * n)(*bits)
        dst = (ctypes.c_ubyte * (10 * n))()
        self.lib.conv_d2ld(ctypes.cast(src, ctypes.c_void_p), ctypes.cast(dst, ctypes.c_void_p), ctypes.c_long(n))
        raw = bytes(dst)
        return [raw[10 * i:10 * i + 10] for i in range(n)]

    def ld2d(self, raws):
        n = len(raws)
        if not n:
            return []
        src = (ctypes.c_ubyte * (10 * n))(*b"".join(raws))
        dst = (ctypes.c_uint64 * n)()
        self.lib.conv_ld2d(ctypes.cast(src, ctypes.c_void_p), ctypes.cast(dst, ctypes.c_void_p), ctypes.c_long(n))
        return list(dst)


def expected_doubles(t, path, eff):
    """What the C double(s) handed to write_raw_* must be, by CPython's own conversions; or the
    exception class; or None when the property text does not say (only model-vs-implementation then)."""
    k = eff["k"]
    cplx = NCOMP[t] == 2
    if k in ("float", "hasfloat"):
        return [eff["bits"]] + ([0] if cplx else [])
    if k == "int":
        try:
            return [d2bits(float(int(eff["n"])))] + ([0] if cplx else [])
        except OverflowError:
            return "OverflowError"
    if k in ("complex", "hascomplex"):
        return [eff["re"], eff["im"]] if cplx else "TypeError"
    if k in ("bytes", "str") and path == "cast":
        xs = eff["b"] if k == "bytes" else eff["cps"]
        if len(xs) == 1:
            return [d2bits(float(xs[0]))] + ([0] if cplx else [])
        return None
    return None


# ------------------------------------------------------------------ Coq literals

def coq_value(eff):
    k = eff["k"]
    if k == "float":
        return "(PyFloat %s)" % cz(eff["bits"])
    if k == "hasfloat":
        return "(PyHasFloat %s)" % cz(eff["bits"])
    if k == "int":
        return "(PyInt %s)" % cz(int(eff["n"]))
    if k == "complex":
        return "(PyComplex %s %s)" % (cz(eff["re"]), cz(eff["im"]))
    if k == "hascomplex":
        return "(PyHasComplex %s %s)" % (cz(eff["re"]), cz(eff["im"]))
    if k == "bytes":
        return "(PyBytes %s)" % clist([cz(b) for b in eff["b"]])
    if k == "str":
        return "(PyStr %s)" % clist([cz(c) for c in eff["cps"]])
    return "PyOther"


XT_COQ = {"f": "(XF (TK F32))", "d": "(XF (TK F64))", "ld": "(XF TLD)", "fc": "(XC F32)", "dc": "(XC F64)"}


def coq_xvalue(eff):
    k = eff["k"]
    if k == "cd_float":
        return "(XCData (CDFloat F32 %s))" % cz(eff["bits"])
    if k == "cd_double":
        return "(XCData (CDFloat F64 %s))" % cz(eff["bits"])
    if k == "cd_ld":
        return "(XCData (CDLongDouble %s))" % clist([cz(b) for b in bytes.fromhex(eff["raw"]) + bytes(6)])
    if k == "cd_int":
        return "(XCData (CDInt %s))" % cz(int(eff["n"]))
    if k == "cd_char":
        return "(XCData (CDChar %s))" % cz(eff["b"])
    if k == "cd_wchar":
        return "(XCData (CDWChar %s))" % cz(eff["c"])
    if k == "cd_complex":
        return "(XCData (CDComplex %s %s %s))" % ("F32" if eff["ck"] == "fc" else "F64", cz(eff["re"]), cz(eff["im"]))
    if k == "cd_other":
        return "(XCData CDOther)"
    return "(XPy %s)" % coq_value(eff)


XPRELUDE = """
Definition xobs_eqb (a b : result (list Z)) : bool :=
  match a, b with
  | Ok x, Ok y => list_eqb Z.eqb x y
  | Err e, Err f => exc_eqb e f
  | _, _ => false
  end.
"""


def is_nan_x87(v):
    return (v >> 64) & 0x7fff == 0x7fff and v & ((1 << 63) - 1) != 0


PRELUDE = """
Definition obs_eqb (a b : result (list Z * list Z)) : bool :=
  match a, b with
  | Ok x, Ok y => pair_eqb (list_eqb Z.eqb) (list_eqb Z.eqb) x y
  | Err e, Err f => exc_eqb e f
  | _, _ => false
  end.
"""


def coq_obs(r, t):
    if "err" in r:
        return "(Err %s)" % r["err"]
    return "(Ok (%s, %s))" % (clist([cz(canon(t, b)) for b in r["stored"]]),
                              clist([cz(canon64(b)) for b in r["read"]]))


# ------------------------------------------------------------------ evaluate

def build_helper(ctx):
    s = ctx.scratch()
    so = os.path.join(s.work, "libc05helper.so")
    src = os.path.join(vlib.ROOT, "tools", "props", "c", "c05_helper.c")
    if not os.path.exists(so):
        p = subprocess.run(["gcc", "-O1", "-fPIC", "-shared", "-o", so, src], capture_output=True, text=True)
        if p.returncode:
            raise vlib.BuildError("helper: " + p.stderr[-2000:])
    return so, src


def finding_key(case, rc):
    """known-finding classes of C05 (narrow): the process dies with SIGSEGV on the *first* use of a fresh
    API-mode module when that use is a call passing a complex by value"""
    if case.get("kind") == "api_cold" and case.get("t") in ("fc", "dc") and rc == -11:
        return "api-complex-arg-cold-slot"
    return None


def run_group(ctx, cases, api=False, cold=False):
    s = ctx.scratch()
    so, src = build_helper(ctx)
    out, p = s.run_worker("c05_worker.py", dict(cases=cases, helper=so, helper_src=src, api=api, cold=cold),
                          timeout=1500)
    if out is None:
        return None, p
    return out["results"], p


def evaluate(ctx, cases):
    orc = Oracle(ctx)
    # ---- cold probes: one fresh process each
    for c in [c for c in cases if c["kind"] == "api_cold"]:
        ctx.count()
        r, p = run_group(ctx, [c], api=True, cold=True)
        exp = [c["re"], c["im"]]
        if CSIZE[c["t"]] == 4:
            exp = orc.d2f(exp)
        if r is None:
            ctx.violation(c, "first call into a fresh API-mode module, passing a %s by value, kills the process (rc=%s)"
                          % (c["t"], p.returncode), key=finding_key(c, p.returncode))
        elif "err" in r[0] or [canon(c["t"], b) for b in r[0]["stored"]] != [canon(c["t"], b) for b in exp]:
            ctx.violation(c, "API-mode call argument %s: got %r, C gives %s" % (c["t"], r[0], [hex(x) for x in exp]))
        ctx.nontrivial(("api_cold", c["t"]))
    cases = [c for c in cases if c["kind"] != "api_cold"]
    # ---- everything else: one process for the in-line/ABI paths, one for the API-mode module
    groups = [[c for c in cases if not c.get("path", "").startswith("api_")],
              [c for c in cases if c.get("path", "").startswith("api_")]]
    done, res = [], []
    for g, api in zip(groups, (False, True)):
        if not g:
            continue
        r, p = run_group(ctx, g, api=api)
        if r is None:
            ctx.violation(g[0], "C05 worker crashed (rc=%s) on a batch of %d cases starting with this one: %s" % (
                p.returncode, len(g), (p.stderr or p.stdout)[-1500:]))
            continue
        done += g
        res += r
    cases = done

    # ---- float / double / complex stores
    fp = [(c, r) for c, r in zip(cases, res) if c["kind"] == "fp"]
    coqcases, owner = [], []
    # gcc conversions in two batches
    want = []
    for c, r in fp:
        eff = r.get("eff")
        if eff is None:          # error: the value description is the requested one (bit-exact by construction)
            eff = dict(c["v"])
            if eff["k"] == "int":
                eff["n"] = str(int(eff["n"]))
        want.append((eff, expected_doubles(c["t"], c["path"], eff)))
    flat = [b for (c, r), (eff, w) in zip(fp, want) if isinstance(w, list) and CSIZE[c["t"]] == 4 for b in w]
    narrowed = iter(orc.d2f(flat))
    exp_stored = []
    for (c, r), (eff, w) in zip(fp, want):
        if isinstance(w, list):
            exp_stored.append([next(narrowed) for _ in w] if CSIZE[c["t"]] == 4 else list(w))
        else:
            exp_stored.append(w)
    flat = [b for (c, r), e in zip(fp, exp_stored) if isinstance(e, list) and CSIZE[c["t"]] == 4 for b in e]
    widened = iter(orc.f2d(flat))
    for (c, r), (eff, w), es in zip(fp, want, exp_stored):
        t = c["t"]
        ctx.count()
        ctx.hist("target", t)
        ctx.hist("path", c["path"])
        ctx.hist("value_kind", eff["k"])
        case = dict(c, v=eff)
        if isinstance(es, list):
            er = [next(widened) for _ in es] if CSIZE[t] == 4 else list(es)
            if "err" in r:
                ctx.violation(case, "storing %r into %s via %s raised %s; C gives %s" % (
                    eff, t, c["path"], r["err"], [hex(x) for x in es]))
            else:
                got_s = [canon(t, b) for b in r["stored"]]
                got_r = [canon64(b) for b in r["read"]]
                if got_s != [canon(t, b) for b in es]:
                    ctx.violation(case, "bytes stored in %s via %s are %s, gcc's conversion of %s gives %s" % (
                        t, c["path"], [hex(x) for x in r["stored"]], [hex(x) for x in w], [hex(x) for x in es]))
                elif got_r != [canon64(b) for b in er]:
                    ctx.violation(case, "value read back from %s via %s is %s, the stored value is %s" % (
                        t, c["path"], [hex(x) for x in r["read"]], [hex(x) for x in er]))
                elif r.get("clobber"):
                    ctx.violation(case, "store into %s via %s changed bytes outside the object" % (t, c["path"]))
            if CSIZE[t] == 4:
                for b in w:
                    cl = classify(b)
                    ctx.hist("narrow_class", cl)
                    if cl not in ("exact", "zero"):
                        ctx.nontrivial(("fp", t, c["path"], eff))
            elif any(is_nan64(b) or (b >> 52) & 0x7ff in (0, 0x7ff) for b in w):
                ctx.nontrivial(("fp", t, c["path"], eff))
        elif isinstance(es, str):
            if r.get("err") != es:
                ctx.violation(case, "storing %r into %s via %s: expected %s, got %s" % (
                    eff, t, c["path"], es, r.get("err") or "a value"))
            ctx.nontrivial(("fp-err", t, c["path"], eff))
        if "err" in r and r["err"].startswith("other:"):
            ctx.mismatch(case, "implementation raised %s; the model knows TypeError/OverflowError only" % r["err"],
                         "C05.Model.observe vs _cffi_backend float paths")
            continue
        coqcases.append(("(%s, %s, %s)" % (COQ_T[t], "Cast" if c["path"] == "cast" else "Store", coq_value(eff)),
                         coq_obs(r, t)))
        owner.append((case, r))
    bad, outs, err = vlib.coq_mismatches(
        ["C05.Model"], "fun c => observe (fst (fst c)) (snd (fst c)) (snd c)", "obs_eqb", coqcases,
        prelude=PRELUDE, shard=1000)
    if err:
        ctx.obligation_broken("C05 model evaluation", err)
    for i in bad:
        case, r = owner[i]
        ctx.mismatch(case, "model observe = %s, implementation gave %s" % (outs.get(i), coqcases[i][1]),
                     "C05.Model.observe vs _cffi_backend float paths")
    for c, r in fp[:3]:
        ctx.sample(dict(c, result=r))

    # ---- cdata sources / long double target: implementation vs C05.XModel.xobserve (the hand model the regenerated
    #      statements are proved equal to)
    xs = [(c, r) for c, r in zip(cases, res) if c["kind"] == "xfp"]
    coqcases, owner = [], []
    for c, r in xs:
        ctx.count()
        eff = r.get("eff") or dict(c["v"])
        case = dict(c, v=eff)
        ctx.hist("x_source", eff["k"])
        ctx.hist("x_target", c["t"])
        if r.get("clobber"):
            ctx.violation(case, "store into %s via %s changed bytes outside the object" % (c["t"], c["path"]))
            continue
        if "err" in r:
            if r["err"].startswith("other:"):
                ctx.mismatch(case, "implementation raised %s; the model knows TypeError/OverflowError only" % r["err"],
                             "C05.XModel.xobserve vs _cffi_backend float paths (cdata sources)")
                continue
            lit = "(Err %s)" % r["err"]
        else:
            st = r["stored"]
            if c["t"] == "ld":
                if is_nan_x87(st[0]) and eff["k"] != "cd_ld":
                    continue                      # NaN payload of a conversion: class only, not compared here
                lit = "(Ok %s)" % clist([cz(st[0])])
            else:
                lit = "(Ok %s)" % clist([cz(canon(c["t"], b)) for b in st])
        ctx.nontrivial(("xfp", c["t"], c["path"], eff))
        coqcases.append(("(%s, %s, %s)" % (XT_COQ[c["t"]], "Cast" if c["path"] == "cast" else "Store", coq_xvalue(eff)), lit))
        owner.append(case)
    if coqcases:
        bad, outs, err = vlib.coq_mismatches(
            ["C05.Model", "C05.XModel"], "fun c => xobserve (fst (fst c)) (snd (fst c)) (snd c)", "xobs_eqb", coqcases,
            prelude=XPRELUDE, shard=1000)
        if err:
            ctx.obligation_broken("C05 extended model evaluation", err)
        for i in bad:
            ctx.mismatch(owner[i], "model xobserve = %s, implementation gave %s" % (outs.get(i), coqcases[i][1]),
                         "C05.XModel.xobserve vs _cffi_backend float paths (cdata sources, long double target)")
    for c, r in xs[:2]:
        ctx.sample(dict(c, result=r))

    # ---- long double copies
    ld = [(c, r) for c, r in zip(cases, res) if c["kind"] == "ld"]
    coqcases, owner = [], []
    for c, r in ld:
        ctx.count()
        ctx.hist("ld_path", c["path"])
        cl = xld_class(c["raw"])
        ctx.hist("ld_class", cl)
        if "err" in r:
            ctx.violation(c, "long double copy via %s raised %s" % (c["path"], r["err"]))
            continue
        raw, dst = bytes.fromhex(c["raw"]), bytes.fromhex(r["dst"])
        if dst[:10] != raw:
            ctx.violation(c, "long double %s copied via %s arrives as %s" % (c["raw"], c["path"], dst[:10].hex()))
        if cl != "zero":
            ctx.nontrivial(("ld", c["path"], c["raw"]))
        coqcases.append((vlib.cpair(clist([cz(b) for b in raw + bytes(6)]), clist([cz(b) for b in dst[10:16]])),
                         clist([cz(b) for b in dst[:10]])))
        owner.append(c)
    bad, outs, err = vlib.coq_mismatches(
        ["C05.Model"], "fun sp => firstn 10 (longdouble_copy (fst sp) (snd sp))", "list_eqb Z.eqb", coqcases, shard=1000)
    if err:
        ctx.obligation_broken("C05 model evaluation (long double)", err)
    for i in bad:
        ctx.mismatch(owner[i], "model longdouble_copy = %s, implementation gave %s" % (outs.get(i), coqcases[i][1]),
                     "C05.Model.longdouble_copy vs read/write_raw_longdouble_data")
    for c, r in ld[:1]:
        ctx.sample(dict(c, result=r))

    # ---- double <-> long double (implementation vs gcc)
    fd = [(c, r) for c, r in zip(cases, res) if c["kind"] == "ld_from_double"]
    exp = orc.d2ld([r.get("eff", c["bits"]) for c, r in fd])
    for (c, r), e in zip(fd, exp):
        ctx.count()
        if "err" in r:
            ctx.violation(c, "double -> long double via %s raised %s" % (c["path"], r["err"]))
            continue
        got = bytes.fromhex(r["dst"])[:10]
        if is_nan64(r["eff"]):
            ok = xld_class(got.hex()) in ("qnan", "snan")
        else:
            ok = got == e
        if not ok:
            ctx.violation(c, "double %#x stored in a long double via %s gives %s, gcc gives %s" % (
                r["eff"], c["path"], got.hex(), e.hex()))
        ctx.nontrivial(("ld_from_double", c["path"], r["eff"]))
    td = [(c, r) for c, r in zip(cases, res) if c["kind"] == "ld_to_double"]
    exp = orc.ld2d([bytes.fromhex(c["raw"]) for c, r in td])
    for (c, r), e in zip(td, exp):
        ctx.count()
        if "err" in r:
            ctx.violation(c, "float(long double) raised %s" % r["err"])
        elif canon64(r["read"]) != canon64(e):
            ctx.violation(c, "float(<long double %s>) = %#x, gcc's (double) gives %#x" % (c["raw"], r["read"], e))
        ctx.nontrivial(("ld_to_double", c["raw"]))


def prepare(ctx, cases):
    """ld_to_double cases given by a double pattern: materialise the x87 encoding with the oracle"""
    todo = [c for c in cases if c["kind"] == "ld_to_double" and c.get("raw") is None]
    if todo:
        orc = Oracle(ctx)
        for c, raw in zip(todo, orc.d2ld([c["bits"] for c in todo])):
            v = int.from_bytes(raw, "little")
            if (v >> 64) & 0x7fff not in (0, 0x7fff):
                v ^= ctx.rng.choice([0, 0, 1, 0x400, 0x3ff, 0x401, 0x7ff])      # perturb below the double ulp
            c["raw"] = v.to_bytes(10, "little").hex()
    return cases


def run(ctx):
    ctx.cov["rule"] = (
        "fp: a Python value (float / object with __float__ / int / complex / object with __complex__ / bytes / str / other, floats given by "
        "binary64 pattern: edge set {±0, ±inf, NaN payloads, double subnormals, 2^k±ulp, exact ties and near-ties of "
        "float rounding in the normal and subnormal range, the overflow threshold 0x47efffffefffffff/0x47effffff0000000, "
        "FLT_MIN neighbourhood} plus random patterns) stored into float/double/float _Complex/double _Complex through "
        "new/item/list/field/structinit/callarg/callback/cast (API-mode call argument in thorough); stored bytes and "
        "read-back value compared bit-exactly (NaN by class) with the Coq model and with gcc's conversions. "
        "xfp: primitive cdata sources (float/double/long double/integer/char/wide char/complex cdata, a pointer) and "
        "Python floats/ints stored into or cast to float/double/long double/float _Complex/double _Complex via "
        "cast/new/item, stored value bytes compared with C05.XModel.xobserve (the model the regenerated statements "
        "are proved equal to). "
        "ld: random valid x87 encodings (normal, denormal, zero, inf, quiet and signalling NaN) read and sent through "
        "new/item/list/field/cast/reread/callarg/callret/callback, 10 value bytes compared; double<->long double vs gcc. "
        "Non-trivial = float-target value whose narrowing is not the trivial exact/zero class, a double-target special "
        "value, an expected-exception case, or a non-zero long double; distinct by (target, path, value).")
    ctx.assumptions += [
        "hand-written models C05/Model.v and C05/XModel.v of the float paths of _cffi_backend.c; (float)/(double)/"
        "(long double) modelled by Flocq's IEEE-754 binary32/binary64/precision-64 formats (round to nearest even); "
        "tied to the code by C05/Gen.v (statement lists regenerated by tools/props/c05_regen.py — trusted translator — "
        "and proved equal to the models through C05/Interp.v) and by this run's differential test",
        "gcc's (float)/(double)/(long double) conversions on this machine (SSE2 / x87) are the oracle for "
        "'the value C obtains'; struct.pack/unpack('<d') are bit-exact views of Python floats",
        "partial: the x87 load/store of long double and the compiler's conversion instructions are runtime behaviour; "
        "the model is the IEEE specification and a byte-copy model of long double; the tie is sampling",
        "NaN results are compared by class (is-NaN), not by payload"]
    evaluate(ctx, prepare(ctx, generate(ctx)))


MANIFEST = dict(
    technique="Coq proof over Flocq's IEEE-754 formalisation (narrowing = round-to-nearest-even for every finite "
              "binary64, exact widening to double and to x87 long double, narrow∘widen = id, classes, complex "
              "componentwise, frame of a store at an offset) + the float paths of _cffi_backend.c regenerated as "
              "statement lists (C05/Gen.v) and proved equal to the hand model by an interpreter (C05/Interp.v, "
              "GenProofs.v) + bit-exact differential correspondence of the executable models with the real backend "
              "on all store paths, with gcc's conversions as the predicate oracle",
    text="Proof (universal, Flocq): C05_narrow_is_round_to_nearest_even, C05_overflow_threshold (iff; the threshold "
         "0x47effffff0000000 and its proved binary64 predecessor), C05_classes_preserved, C05_read_is_exact_and_stable, "
         "C05_representable_unchanged, C05_store_then_read, C05_complex_componentwise, C05_python_value_conversions, "
         "C05_longdouble_copy_keeps_value_bytes; new: C05_double_to_longdouble_exact ((long double)d exact for every "
         "finite binary64, classes kept), C05_store_frame (a float/complex store at offset off of a larger memory keeps "
         "the length, changes nothing outside [off, off+size), leaves memory unchanged on failure, and the object then "
         "holds exactly the converted bytes; complex parts at off and off+sizeof(type)). "
         "Regenerated on every run (tools/props/c05_regen.py -> C05/Gen.v, fail closed): the statement lists of the "
         "macros _write_raw_data/_write_raw_complex_data/_read_raw_data, the types read/write_raw_float_data, "
         "..._longdouble_data, ..._complex_data instantiate them with and their source/return types, the blocks of "
         "read_raw_complex_data, branch order and return codes of check_bytes_for_float_compatible, and the guarded "
         "statement lists of the CT_PRIMITIVE_FLOAT / CT_PRIMITIVE_COMPLEX branches of convert_from_object and do_cast "
         "(position and local type of the long-double block, conversion functions, error tests, cast before "
         "write_raw_longdouble_data). C05_gen_raw_data_refines, C05_gen_at_refines and C05_gen_store_refines prove that "
         "executing these statements equals the hand models (XModel.v for all targets incl. long double, all offsets, "
         "Python and primitive-cdata sources; Model.v on a fresh object), so the Flocq theorems speak about the "
         "regenerated code; an edit such as swapping real/imaginary, `double lvalue`, or another instantiation type "
         "breaks these obligations. Correspondence-only: the meaning of the C conversion instructions (Flocq vs "
         "SSE2/x87), PyFloat_AsDouble/PyComplex_AsCComplex/convert_to_object (hand-modelled in Model.v/XModel.v), the "
         "API-mode converters, call arguments/callbacks; all compared bit for bit with the backend (and gcc) per run, "
         "including cdata sources and the long double target (stream xfp vs C05.XModel.xobserve).",
    note="PARTIAL. Trusted: Coq kernel + stdlib real-number axioms (ClassicalDedekindReals.sig_forall_dec, "
         "sig_not_dec, functional_extensionality_dep, Classical_Prop.classic — through Flocq 4.1); Flocq's "
         "definition of IEEE-754 as the meaning of 'the value C obtains'; the translator c05_regen.py and the "
         "statement semantics of C05/Interp.v (reference counting and the Py_FatalError fall-through are not "
         "modelled); the hand models of the Python-level callees (tied by differential testing); gcc 12 + SSE2/x87 "
         "conversions as oracle; x87 load/store modelled as a copy of the 10 value bytes, (long double)d and (double)ld "
         "as Flocq roundings (only the former has a universal theorem; (double)ld is sampled against gcc); NaN payloads "
         "not compared.",
    design_ref="DESIGN.md §4 C05")
