"""C19 worker (inside the scratch build): histories through ffi.buffer windows over cdata / bytearray /
array.array memory, from_buffer length rules and aliasing, memmove with overlaps."""
import array

import cffi
from lib.vlib import worker_main

CDEF = ("struct s3 { char a[3]; }; struct s0 { }; struct s8 { int a; float b; }; union u4 { int i; char c[3]; }; "
        "enum e_s { ES_A = -5, ES_B = 7 }; enum e_u { EU_A = 0, EU_B = 0xFFFFFFFF }; enum e_l { EL_A = -1, EL_B = 0x100000000 };")


def mk_key(k):
    if k[0] == "i":
        return k[1]
    if k[0] == "s":
        return slice(k[1], k[2], k[3])
    return "a" if k[1] == "str" else 1.5


_keep = []


def mk_val(v, ffi=None):
    t = v[0]
    if t == "cdata":                      # an array cdata whose items hold exactly the bytes `data`
        data = bytes.fromhex(v[1])
        item = v[2] if len(data) % {"char": 1, "short": 2}[v[2]] == 0 else "char"
        isz = {"char": 1, "short": 2}[item]
        k = len(data) // isz
        how = v[3] if len(v) > 3 else "fixed"
        if how == "fixed":                # T[k]: the ctype records its size
            x = ffi.new("%s[%d]" % (item, k))
            ffi.memmove(x, data, len(data))
            _keep.append(x)
        elif how == "new_open":           # ffi.new('T[]', k): open array type, length in the cdata
            x = ffi.new("%s[]" % item, k)
            ffi.memmove(x, data, len(data))
            _keep.append(x)
        elif how == "slice":              # p[2:2+k], a view into a larger owned array
            big = ffi.new("%s[]" % item, k + 12)
            ffi.memmove(big + 2, data, len(data))
            _keep.append(big)
            x = big[2:2 + k]
        else:                             # ffi.from_buffer('T[]', <k items inside a larger bytearray>)
            ba = bytearray(len(data) + 24)
            ba[8:8 + len(data)] = data
            _keep.append(ba)
            x = ffi.from_buffer("%s[]" % item, memoryview(ba)[8:8 + len(data)])
            _keep.append(x)
        assert len(x) == k and ffi.typeof(x).kind == "array"
        return x
    if t == "cdataptr":                   # a pointer cdata with len(data) bytes behind it
        data = bytes.fromhex(v[1])
        x = ffi.new("char[]", len(data) + 1)
        ffi.memmove(x, data, len(data))
        _keep.append(x)
        return ffi.cast("char *", x) if v[2] == "char" else ffi.cast("int *", x)
    if t == "bytes":
        return bytes.fromhex(v[1])
    if t == "bytearray":
        return bytearray.fromhex(v[1])
    if t == "memoryview":
        return memoryview(bytes.fromhex(v[1]))
    if t == "array":
        return array.array("B", bytes.fromhex(v[1]))
    if t == "str":
        return "ab"
    if t == "int":
        return v[1]
    if t == "list":
        return list(bytes.fromhex(v[1]))
    return None


def run_hist(ffi, c):
    init = bytes.fromhex(c["init"])
    m = len(init)
    backing = c["backing"]
    if backing == "cdata":
        owner = ffi.new("char[]", m)
        base = ffi.cast("char *", owner)
        ffi.memmove(base, init, m)
        snapshot = lambda: ffi.unpack(base, m)
    elif backing == "bytearray":
        owner = bytearray(init)
        arr = ffi.from_buffer("char[]", owner)
        base = ffi.cast("char *", arr)
        snapshot = lambda: bytes(owner)
    else:
        owner = array.array("B", init)
        arr = ffi.from_buffer("char[]", owner)
        base = ffi.cast("char *", arr)
        snapshot = lambda: owner.tobytes()
    if c.get("whole"):           # ffi.buffer(array cdata) with the default size
        buf = ffi.buffer(owner if backing == "cdata" else arr)
    else:
        buf = ffi.buffer(base + c["off"], c["n"])
    outs, mems = [], []
    for op in c["ops"]:
        try:
            if op[0] == "get":
                r = buf[mk_key(op[1])]
                out = ["bytes", r.hex()] if isinstance(r, bytes) else ["unknown", repr(r)]
            elif op[0] == "set":
                buf[mk_key(op[1])] = mk_val(op[2], ffi)
                out = ["done"]
            elif op[0] == "del":
                del buf[mk_key(op[1])]
                out = ["done"]
            else:
                out = ["int", len(buf)]
        except Exception as e:
            out = ["err", type(e).__name__]
        outs.append(out)
        mems.append(snapshot().hex())
    return dict(outs=outs, mems=mems, full=bytes(buf[:]).hex())


def mk_obj(spec, data):
    if spec == "bytearray":
        return bytearray(data)
    if spec == "bytes":
        return bytes(data)
    if spec == "array_B":
        return array.array("B", data)
    if spec == "array_H":
        return array.array("H", data[:len(data) // 2 * 2])
    if spec == "memoryview":
        return memoryview(bytearray(data))
    if spec == "str":
        return "abcdefgh"
    if spec == "int":
        return 5
    return None


def run_fb(ffi, c):
    data = bytes.fromhex(c["data"])
    obj = mk_obj(c["obj"], data)
    try:
        cd = ffi.from_buffer(c["ctype"], obj)
    except Exception as e:
        return dict(out=["err", type(e).__name__])
    t = ffi.typeof(cd)
    res = dict(out=["ok", len(cd) if t.kind == "array" else -1])
    if t.kind == "array":
        n = len(cd)
        # acceptance only: x[n] is refused before anything is read; the last item is reached through a
        # slice view (bounds-checked, no value conversion, so random bytes cannot make it fail)
        try:
            cd[n]
            res["past_end"] = "ok"
        except Exception as e:
            res["past_end"] = type(e).__name__
        if 0 < n and n * ffi.sizeof(t.item) <= len(data):
            try:
                v = cd[n - 1:n]
                res["last"] = "ok" if len(v) == 1 else "len %d" % len(v)
            except Exception as e:
                res["last"] = type(e).__name__
        try:
            res["span"] = len(ffi.buffer(cd))
        except Exception as e:
            res["span"] = type(e).__name__
    if t.kind == "array" and c["obj"] in ("bytearray", "array_B", "memoryview") and len(data):
        # aliasing both ways, through the raw bytes
        raw = ffi.buffer(ffi.cast("char *", cd), len(data))
        obj[0] = (obj[0] + 1) % 256
        a = raw[0] == bytes([obj[0]])
        raw[len(data) - 1] = b"\x7e"
        b = obj[len(data) - 1] == 0x7e
        res["alias"] = bool(a and b)
        res["addr_same"] = int(ffi.cast("uintptr_t", cd)) == int(ffi.cast("uintptr_t", ffi.from_buffer(obj)))
    return res


def run_mm(ffi, c):
    mem = bytearray.fromhex(c["mem"])
    whole = ffi.from_buffer("char[]", mem)
    extra = bytes.fromhex(c.get("extra", ""))

    def side(kind, off, writable):
        if kind == "cdata":
            return whole + off
        if kind == "memoryview":
            return memoryview(mem)[off:]
        if kind == "array_slice":
            return whole[off:len(mem)]
        if kind == "bytes":
            return extra[off:]
        if kind == "extra_bytearray":
            return bytearray(extra)[off:]
        raise ValueError(kind)
    try:
        ffi.memmove(side(c["dest"], c["d"], True), side(c["src"], c["s"], False), c["n"])
        out = ["done"]
    except Exception as e:
        out = ["err", type(e).__name__]
    return dict(out=out, mem=bytes(mem).hex())


def run_size(ffi, c):
    try:
        if c["what"] == "array":
            x = ffi.new(c["ctype"], c["len"])
        elif c["what"] == "pointer":
            x = ffi.new(c["ctype"])
        elif c["what"] == "castptr":
            keep = ffi.new("char[]", 64)
            x = ffi.cast(c["ctype"], keep)
        elif c["what"] == "frombuf":
            keep = bytearray(c["len"])
            x = ffi.from_buffer(c["ctype"], keep)
        else:
            x = ffi.cast("int", 5)
        import warnings
        with warnings.catch_warnings():
            warnings.simplefilter("ignore")
            b = ffi.buffer(x) if c["size"] is None else ffi.buffer(x, c["size"])
        return dict(out=["int", len(b)])
    except Exception as e:
        return dict(out=["err", type(e).__name__])


def run_ov(ffi, c):
    """buf[a:b] = <a source over the same memory>"""
    mem = bytes.fromhex(c["mem"])
    m = len(mem)
    owner = ffi.new("char[]", m)
    base = ffi.cast("char *", owner)
    ffi.memmove(base, mem, m)
    buf = ffi.buffer(base + c["off"], c["n"])
    s, slen = c["s"], c["slen"]
    kind = c["src"]
    if kind == "buffer":
        src = ffi.buffer(base + s, slen)
    elif kind == "memoryview":
        src = memoryview(ffi.buffer(base + s, slen))
    elif kind == "cdata_slice":
        src = owner[s:s + slen]
    elif kind == "cdataptr":
        src = base + s
    else:
        src = ffi.from_buffer("char[]", memoryview(ffi.buffer(base, m))[s:s + slen])
    try:
        buf[c["a"]:c["b"]] = src
        out = ["done"]
    except Exception as e:
        out = ["err", type(e).__name__]
    return dict(out=out, mem=ffi.unpack(base, m).hex())


def in_child(fn):
    """run fn() in a forked child; returns its result or ['crash', signal-or-exit-status]"""
    import os
    import pickle
    r, w = os.pipe()
    pid = os.fork()
    if pid == 0:
        os.close(r)
        try:
            try:
                res = fn()
            except Exception as e:
                res = dict(error="%s: %s" % (type(e).__name__, e))
            os.write(w, pickle.dumps(res))
        finally:
            os._exit(0)
    os.close(w)
    data = b""
    while True:
        chunk = os.read(r, 65536)
        if not chunk:
            break
        data += chunk
    os.close(r)
    _, status = os.waitpid(pid, 0)
    if os.WIFSIGNALED(status):
        return ["crash", os.WTERMSIG(status)]
    return pickle.loads(data) if data else ["crash", -1]


def main(payload):
    """Cases run in forked children, `chunk` per child; a child that dies is re-run case by case so that a
    crash (or a sanitizer abort) is attributed to one case, which the harness reports as the replay."""
    ffi = cffi.FFI()
    ffi.cdef(CDEF)
    fns = dict(hist=run_hist, fb=run_fb, mm=run_mm, size=run_size, ov=run_ov)
    cases = payload["cases"]
    chunk = max(1, int(payload.get("chunk", 25)))
    res = [None] * len(cases)

    def one(c):
        try:
            return fns[c["kind"]](ffi, c)
        except Exception as e:
            return dict(error="%s: %s" % (type(e).__name__, e))

    def single(i):
        r = in_child(lambda: one(cases[i]))
        res[i] = dict(crash=r[1]) if isinstance(r, list) else r

    for k in range(0, len(cases), chunk):
        idx = list(range(k, min(len(cases), k + chunk)))
        r = in_child(lambda: [one(cases[i]) for i in idx]) if len(idx) > 1 else None
        if isinstance(r, list) and len(r) == len(idx) and all(isinstance(x, dict) for x in r):
            for i, x in zip(idx, r):
                res[i] = x
        else:
            for i in idx:
                single(i)
    return dict(results=res, sizes={t: ffi.sizeof(t) for t in payload.get("types", [])})


worker_main(main)
