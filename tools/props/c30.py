"""C30 — declaration and type-string errors are reported as cffi errors.

  regen  : coq/C09/Gen.v (shared with C09) from cparser.py, fail closed; coq/C30/Gen.v (c30_regen.py): facts of
           _r_extern_python / _preprocess_extern_python and the except-tuple of _put_back_line_directives.replace
  expr   : expression trees incl. unsupported operators, negative shift counts, malformed literals, division by
           zero, identifiers -> `enum e { A = EXPR };` on the real parser; exception class vs the Coq model py_eval
  macro  : random '#define X <text>' values -> real _r_int_literal / cdef vs the Coq models r_int_literal, process_macro
  fuzz   : grammar-based cdefs and type strings with token- and character-level mutations through FFI().cdef() and
           FFI().typeof(); any exception outside {CDefError, FFIError, NotImplementedError, VerificationError,
           VerificationMissing} is a violation (see `verdict_py` for the reading on back-end errors)
  trunc  : every prefix of valid cdefs / type strings cut after each token, with and without trailing white space
  extpy  : texts through cparser._preprocess_extern_python vs the Coq model C30.ExternPy.extern_python (whole output)
  capi   : strings that are not UTF-8 encodable (lone surrogates), with NULs, non-BMP characters, very long strings,
           bytes-like objects and str subclasses through typeof/new/cast/sizeof/alignof/getctype/offsetof/callback/
           from_buffer, lib attribute look-ups, integer_const and addressof(lib, name) of a compiled FFI (ASan+UBSan build);
           a dying interpreter is attributed to one input by re-running that input alone
  ctype  : grammar-based and byte-mutated strings through typeof() of compiled-style FFIs (parse_c_type.c) with the
           ASan+UBSan build of the back end; any exception outside {ffi.error, TypeError, ValueError}, any crash or
           sanitizer report is a violation
"""
import json
import os
import re

from lib import vlib
from lib.vlib import cz, cstr
from props import c09_regen
from props import c30_regen
from props import c09 as C09
from props import c31 as C31

ID = "C30"

ALLOWED_PY = {"CDefError", "FFIError", "NotImplementedError", "VerificationError", "VerificationMissing"}
ALLOWED_C = {"ffi.error", "TypeError", "ValueError"}

# ----------------------------------------------------------------------------- expression trees (model-tied)

# (only tokens that pycparser's lexer produces: the model of literal scanning is about those)
BAD_LITS = ["0x1p3", "0x1.8p1", "1.5", "1e3", "'ab'", "L'a'", "\"x\"", "'\\x41'", "'\\12'", "1.f", "0X1P-2", "0x.8p0"]
UNOPS_BAD = ["~", "!"]
BINOPS_BAD = ["==", "!=", "<", ">", "<=", ">=", "&&", "||"]


def gen_bad_expr(rng, depth):
    k = rng.random()
    if depth <= 0 or k < 0.25:
        r = rng.random()
        if r < 0.15:
            return ["c", rng.choice(BAD_LITS)]
        if r < 0.22:
            return ["i", rng.choice(["x", "foo", "A1"])]
        return ["c", C09.gen_literal(rng)]
    if k < 0.4:
        return ["u", rng.choice(["-", "-", "+"] + UNOPS_BAD), gen_bad_expr(rng, depth - 1)]
    if k < 0.45:
        return ["o", rng.choice(["(int) 5", "sizeof(int)", "1 ? 2 : 3", "f(1)", "a[1]", "sizeof 5"])]
    op = rng.choice(C09.OPS + C09.OPS + BINOPS_BAD)
    l = gen_bad_expr(rng, depth - 1)
    if op in ("<<", ">>"):
        r = rng.choice([["c", "%d" % rng.randrange(0, 70)], ["u", "-", ["c", "%d" % rng.randrange(0, 5)]],
                        gen_bad_expr(rng, 0)])
    elif op in ("/", "%") and rng.random() < 0.3:
        r = rng.choice([["c", "0"], ["b", "-", ["c", "3"], ["c", "3"]], ["c", "0x0u"]])
    else:
        r = gen_bad_expr(rng, depth - 1 if rng.random() < 0.6 else 0)
    return ["b", op, l, r]


def c_text(e):
    if e[0] == "c":
        return e[1]
    if e[0] == "i":
        return e[1]
    if e[0] == "o":
        return "(%s)" % e[1]
    if e[0] == "u":
        return "(%s %s)" % (e[1], c_text(e[2]))
    return "(%s %s %s)" % (c_text(e[2]), e[1], c_text(e[3]))


def coq_expr(e):
    if e[0] == "c":
        return "(Const %s)" % cstr(e[1])
    if e[0] == "i":
        return "(Id %s)" % cstr(e[1])
    if e[0] == "o":
        return "Other"
    if e[0] == "u":
        return '(Unary "%s" %s)' % (e[1], coq_expr(e[2]))
    return '(Binary "%s" %s %s)' % (e[1], coq_expr(e[2]), coq_expr(e[3]))


def shift_ok(e):
    """no left shift by more than 128 when evaluated on mathematical integers (cf. C09.math_eval)"""
    try:
        def conv(e):
            if e[0] in ("i", "o"):
                raise KeyError
            if e[0] == "c":
                return e
            if e[0] == "u":
                if e[1] not in "+-":
                    raise KeyError
                return ["u", e[1], conv(e[2])]
            if e[1] not in C09.OPS:
                raise KeyError
            return ["b", e[1], conv(e[2]), conv(e[3])]
        C09.math_eval(conv(e))
        return True
    except C09.TooBig:
        return False
    except (KeyError, Exception):
        # trees with unsupported parts: bound the literals instead
        return "<<" not in c_text(e) or all(len(t) < 3 for t in re.findall(r"\d+", c_text(e)))


# ----------------------------------------------------------------------------- fuzzed declarations / type strings

VOCAB = ["...", "[", "]", "(", ")", "{", "}", ";", ",", "*", "=", ":", "0", "1", "7", "08", "0x", "0x1p3", "1.5", "-", "+", "<<",
         ">>", "/", "%", "\"Python\"", "extern", "#define", "#line", "# 5", "#", "/*", "*/", "//", "\\\n", "\n", "'", "\"", "@", "$",
         "\\", "__stdcall", "WINAPI", "__cdecl", "typedef", "struct", "union", "enum", "int", "char", "long", "unsigned",
         "float", "double", "void", "const", "volatile", "restrict", "_Bool", "size_t", "FILE", "x", "foo_t", "static",
         "__dotdotdot__", "__dotdotdotarray__", "__dotdotdotint__", "__cffi_extern_python_start", "#line@0", "#line@",
         "__attribute__", "sizeof", "?", "~", "!", "&", "|", "^", "<", ">", ".", "->", "L'a'", "'a'", "1u", "1ull", "99999999999999999999",
         "\t", " ", "\r", "#pragma pack(1)", "inline", "register", "auto", "_Complex", "__int128", "short", "signed"]
TYPES = ["int", "unsigned int", "char *", "const char *", "int[3]", "int[]", "int(*)(int)", "int(*)(void)", "void(*)(int, ...)",
         "struct foo_s", "struct foo_s *", "foo_t", "foo_t[2]", "enum e1", "union u1 *", "long long", "unsigned long long[4][5]",
         "int * const *", "char const * volatile", "void *", "double(*[3])(float, char)", "fn_t", "uint8[16]", "size_t",
         "long double", "_Bool", "wchar_t *", "float _Complex", "int(*(*)(int))(char)", "struct opaque *", "int[1 + 2]",
         "uint32_t", "int8_t *", "ssize_t", "intptr_t", "char16_t", "FILE *"]
BYTES = [chr(b) for b in [0, 1, 9, 10, 13, 27, 31, 32, 127, 128, 160, 200, 255]]


def mutate_tokens(rng, text):
    toks = re.findall(r"[A-Za-z_0-9]+|\"[^\"]*\"|\.\.\.|\S", text)
    for _ in range(rng.randrange(1, 4)):
        k = rng.random()
        if not toks:
            toks = [rng.choice(VOCAB)]
        i = rng.randrange(len(toks))
        if k < 0.3:
            del toks[i]
        elif k < 0.6:
            toks.insert(i, rng.choice(VOCAB))
        elif k < 0.75:
            toks[i] = rng.choice(VOCAB)
        elif k < 0.85:
            j = rng.randrange(len(toks))
            toks[i], toks[j] = toks[j], toks[i]
        else:
            toks.insert(i, toks[i])
    return " ".join(toks)


def mutate_chars(rng, text, pool):
    s = list(text)
    for _ in range(rng.randrange(1, 4)):
        k = rng.random()
        i = rng.randrange(len(s) + 1)
        if k < 0.4 or not s:
            s.insert(i, rng.choice(pool))
        elif k < 0.7:
            del s[min(i, len(s) - 1)]
        else:
            s[min(i, len(s) - 1)] = rng.choice(pool)
    return "".join(s)


PY_POOL = list("()[]{};,*=:.#/\\'\"@$<>-+%&|^~!? \n\t") + ["...", "/*", "*/", "0", "9", "a", "_", "\x0c", "\xe9", "€"]
C_POOL = list("()[]*,. \t\n") + BYTES + ["...", "0", "9", "x", "_", "a", "[", "(", "-", "+", "'", "\"", ";", "{", "}", "#", "/", "\\"]


def nest_ok(text):
    d = m = 0
    for ch in text:
        if ch in "([{":
            d += 1
            m = max(m, d)
        elif ch in ")]}":
            d -= 1
    return m <= 25 and len(text) < 3000


def gen_fuzz(ctx):
    rng, out = ctx.rng, []
    n = ctx.n(500, 12000)
    while len(out) < n:
        k = rng.random()
        if k < 0.55:
            items, _ = C31.gen_cdef(rng)
            bf, bs = C31.base_fills(items)
            text = C31.render(items, bf, bs)
            r = rng.random()
            if r < 0.1:
                pass
            elif r < 0.6:
                text = mutate_tokens(rng, text)
            else:
                text = mutate_chars(rng, text, PY_POOL)
            api = "cdef"
        elif k < 0.65:
            text = " ".join(rng.choice(VOCAB) for _ in range(rng.randrange(0, 9)))
            api = rng.choice(["cdef", "typeof"])
        else:
            text = rng.choice(TYPES)
            r = rng.random()
            if r < 0.15:
                pass
            elif r < 0.6:
                text = mutate_tokens(rng, text)
            else:
                text = mutate_chars(rng, text, PY_POOL)
            api = "typeof"
        if not nest_ok(text) or re.search(r"(<<|\d)\s*\d{7,19}(?!\d)", text):
            continue
        out.append(dict(kind="fuzz", api=api, text=text))
    return out


TRUNC_CDEFS = [
    'int before(int);\nextern "Python" int cb(int, int);\n',
    'extern "Python+C" int cb2(int);\nextern "C+Python" long cb3(void);',
    'extern "Python" { int cb4(int); int cb5(long); }\nint after(void);',
    'extern  "Python + C"  {\n  void cb6(void);\n}\n',
    '#define X 42\n#define Y ...\ntypedef struct s { int a; char b[...]; ...; } s_t;\n',
    'typedef int foo_t;\ntypedef foo_t (*fn_t)(foo_t, ...);\nstruct s2 { foo_t a:3; int b[4]; };\n',
    'enum e { A, B = 1 << 3, C = ..., ... };\nstatic const int K;\nextern int g[...];\n',
    'union u { int x; float y; };\nint f(union u *, int[], char (*)[3]);\n',
    'typedef ... opaque_t;\ntypedef int... myint_t;\ntypedef float... myflt_t;\nint __stdcall w(int);\n',
    '# 12 "foo.h"\nint a; /* c */ int b; // d\n#line 5\nstatic int (*fp)(void);\n',
    'extern "Python" int (*weird(int))(long);\n#pragma pack(1)\nstruct p { char c; };\n',
]
TRUNC_TAILS = ["", " ", "\n", " \t\n \n"]


def gen_truncations(ctx):
    """every prefix of valid cdefs (and of the type strings) cut after each token -- in particular right after
    `extern "Python"`, `extern "Python+C"`, `extern "C+Python"`, `extern "Python" {`, `#define X`, `typedef`,
    `struct s {`, `...`, `[`, `(` -- with and without trailing white space / newlines"""
    out, seen = [], set()

    def add(api, text):
        if (api, text) not in seen:
            seen.add((api, text))
            out.append(dict(kind="fuzz", api=api, text=text, trunc=True))
    for src in TRUNC_CDEFS:
        for m in re.finditer(r"[A-Za-z_0-9]+|\"[^\"\n]*\"|\.\.\.|\S", src):
            for tail in TRUNC_TAILS:
                add("cdef", src[:m.end()] + tail)
            if m.group().startswith('"'):       # inside the string literal as well
                add("cdef", src[:m.start() + 1])
                add("cdef", src[:m.end() - 1])
    for src in TYPES:
        for m in re.finditer(r"[A-Za-z_0-9]+|\.\.\.|\S", src):
            add("typeof", src[:m.end()])
            add("typeof", src[:m.end()] + " ")
    return out


EXTPY_ATOMS = ['extern', '"Python"', '"Python+C"', '"C+Python"', '"Python +  C"', '"C\t+\nPython"', '"', 'Python', 'C', '+', '{', '}',
               ';', ' ', '  ', '\n', '\t', '\r', '\x0c', '\x0b', '\x1c', '\x1f', '\x85', '\xa0', '\u2003', '\u2028', '\u3000', 'int f(int)',
               'x', '_', '9', '\xe9', '\xb5', '\xd7', '\xf7', '\xaa', '\xb2', '\xbc', '.', '"C"', '"Python', 'Python"', 'externx', 'xextern',
               'extern"Python"', 'extern "Python" {', 'extern "Python+C" int g(void);', '"Python+"', '"+C"', '"PythonC"', '"C+C"']


def gen_extpy(ctx):
    """texts for the correspondence C30.ExternPy.extern_python vs cparser._preprocess_extern_python: every truncation of the
    valid cdefs (the marker at the very end, followed by white space only, by newlines only), and random concatenations
    of marker pieces, braces, semicolons and the white-space / word characters of the model's \\s and \\w tables"""
    rng, out, seen = ctx.rng, [], set()

    def add(t):
        if t not in seen and len(t) < 200:
            seen.add(t)
            out.append(dict(kind="extpy", text=t))
    for src in TRUNC_CDEFS[:4]:
        for n in range(len(src) + 1):
            add(src[:n])
    for mk in ('extern "Python"', 'extern"Python+C"', 'extern  "C + Python"', 'a extern "Python"', '_extern "Python"', '\xe9extern "Python"',
               '\xd7extern "Python"'):
        for tail in ("", " ", "\n", " \n", "\n ", "\n\n", " \n \n", "\t", "\r", "\x85", "\xa0\n", "{", " {", "{}", " { }", "{ {", "{ { }", "{ int f(int) { } }", "{ } {", "{;}", ";", "x", " x;",
                     "\n;", "{\n", "{ int f(int); } extern \"Python\"", "int f(int); extern \"Python+C\" ", "int f(int); extern \"Python\" {"):
            add(mk + tail)
    for _ in range(ctx.n(600, 20000)):
        add("".join(rng.choice(EXTPY_ATOMS) for _ in range(rng.randrange(1, 9))))
    return out


C_KEYWORDS = {"_Bool", "__cdecl", "__stdcall", "_Complex", "char", "const", "double", "enum", "float", "int", "long", "short",
              "signed", "struct", "union", "unsigned", "void", "volatile"}


def needs_tables(text):
    """the string contains an identifier that is not a keyword: the parser will look it up in the context's tables.
    On a bare _cffi_backend.FFI() those tables are NULL and UBSan reports `&ctx->typenames->name` (known finding
    null_table_member_address); such strings go to the FFI of a compiled module, except for the finding's witness."""
    return any(w not in C_KEYWORDS for w in re.findall(r"[A-Za-z_$][A-Za-z_0-9$]*", text))


def gen_ctype(ctx):
    rng, out = ctx.rng, []
    for _ in range(ctx.n(2000, 40000)):
        text = rng.choice(TYPES)
        r = rng.random()
        if r < 0.1:
            pass
        elif r < 0.45:
            text = mutate_tokens(rng, text)
        elif r < 0.9:
            text = mutate_chars(rng, text, C_POOL)
        else:
            text = "".join(rng.choice(C_POOL) for _ in range(rng.randrange(0, 12)))
        if len(text) > 400:
            continue
        as_bytes = rng.random() < 0.3 and all(ord(ch) < 256 for ch in text)
        if not as_bytes and any(ord(ch) == 0 for ch in text):
            as_bytes = True
        out.append(dict(kind="ctype", text=text, bytes=as_bytes, ffi=1 if needs_tables(text) else rng.randrange(2)))
    out.append(dict(kind="ctype", text="foo_t", bytes=False, ffi=0))        # witness of null_table_member_address
    out.append(dict(kind="ctype", text="int(;)", bytes=False, ffi=1))       # witness of failed_argument_index
    # long and deeply nested inputs: the output array and the error-message buffer
    for n in (10, 100, 200, 1000, 5000):
        out.append(dict(kind="ctype", text="int" + "*" * n, bytes=False, ffi=0))
        out.append(dict(kind="ctype", text="int" + "[2]" * n, bytes=False, ffi=0))
        out.append(dict(kind="ctype", text="int" + "(*" * n + ")(int)" * n, bytes=False, ffi=0))
        out.append(dict(kind="ctype", text="x" * n, bytes=False, ffi=1))
        out.append(dict(kind="ctype", text="int(" + "int," * n + "int)", bytes=False, ffi=0))
        out.append(dict(kind="ctype", text="struct " + "y" * n + " *", bytes=False, ffi=1))
        out.append(dict(kind="ctype", text="int[" + "9" * n + "]", bytes=False, ffi=0))
    return out


# ----------------------------------------------------------------------------- compiled-FFI API stream (ffi_obj.c / lib_obj.c)

SPECIALS = ["\udc80", "\ud800", "\udfff", "\udbff", "\udc00\ud800", "\ude00\ud83d", "\ud83d\ude00", "\ud800\ud800",
            "\0", "\0\0", "\U0001F600", "\U00010000", "\U0010FFFF", "\u20ac", "\xe9", "\xff", "\x80", "\ufeff", "\u2028",
            "\ufffe", "\uffff", "\x7f", "\x01"]
TYPE_APIS = ["typeof", "new", "cast", "sizeof", "alignof", "getctype", "getctype2", "offsetof", "callback", "from_buffer"]
NAME_APIS = ["libattr", "libhas", "integer_const", "addressof", "offsetof2", "offsetof3"]
LIB_NAMES = ["C30_CONST", "c30_k", "c30_fn", "c30_var", "AA", "BB", "nosuch", "__all__", "__dict__", "__name__", "a", "b", ""]
SMALL_TYPES = ["int", "char *", "int[3]", "int(*)(int)", "void(*)(int, ...)", "struct foo_s", "struct foo_s *", "foo_t", "foo_t[2]",
               "enum e1", "union u1 *", "fn_t", "uint8[16]", "size_t", "long double", "wchar_t *", "struct opaque *", "char16_t",
               "int[]", "char[]", "void *", "void"]
STR_FORMS = ["str", "str", "str", "sub", "evil"]
BYTES_FORMS = ["bytes", "bytes", "bytessub", "bytearray", "memoryview"]


def capi_text(c):
    return "".join(s * n for s, n in c["parts"])


def capi_label(c):
    t = capi_text(c) if sum(len(s) * n for s, n in c["parts"]) < 300 else None
    return "%s(%s%s)" % (c["api"], ascii(t) if t is not None else "<%s>" % " + ".join("%s*%d" % (ascii(s), n) for s, n in c["parts"]),
                         "" if c["form"] == "str" else " as %s" % c["form"])


def gen_capi(ctx):
    """strings that _ffi_type()/lib_getattr() must convert before any parsing happens: text that cannot be encoded as
    UTF-8 (lone surrogates: high, low, reversed pairs), embedded NULs, non-BMP and other non-ASCII characters, very long
    strings, bytes-like objects and str subclasses, through every entry point of a compiled FFI that takes a type string
    or a name"""
    rng, out, seen = ctx.rng, [], set()

    def add(api, parts, form, ffi, enc=None):
        parts = [[s, n] for s, n in parts if s and n]
        key = (api, json.dumps(parts), form, ffi, enc)
        if key in seen:
            return
        seen.add(key)
        c = dict(kind="capi", api=api, parts=parts, form=form, ffi=ffi)
        if enc:
            c["enc"] = enc
        out.append(c)

    # directed: every special alone, before, after and inside a valid type, for every API, as str; bare and compiled ffi
    for api in TYPE_APIS:
        for sp in SPECIALS:
            for base in ("", "int", "foo_t"):
                ffi = 1 if "foo" in base else rng.randrange(2)
                for parts in ([(sp, 1), (base, 1)], [(base, 1), (sp, 1)], [(base[:2], 1), (sp, 1), (base[2:], 1)]):
                    add(api, parts, rng.choice(STR_FORMS) if rng.random() < 0.3 else "str", ffi)
                    if not base:
                        break
    for api in NAME_APIS:
        for sp in SPECIALS:
            for base in ("", "c30_fn", "C30_CONST", "a"):
                for parts in ([(sp, 1), (base, 1)], [(base, 1), (sp, 1)]):
                    add(api, parts, rng.choice(STR_FORMS) if rng.random() < 0.3 else "str", 1)
    # the defect's witness, literally
    add("typeof", [("\udc80", 1)], "str", 0)
    # random: base type/name with 1-3 specials inserted anywhere, in every form
    for _ in range(ctx.n(900, 30000)):
        if rng.random() < 0.7:
            api, base = rng.choice(TYPE_APIS), rng.choice(SMALL_TYPES)
        else:
            api, base = rng.choice(NAME_APIS), rng.choice(LIB_NAMES)
        t = list(base)
        for _ in range(rng.choice([0, 1, 1, 1, 2, 3])):
            t.insert(rng.randrange(len(t) + 1), rng.choice(SPECIALS))
        text = "".join(t)
        k = rng.random()
        if k < 0.6:
            add(api, [(text, 1)], rng.choice(STR_FORMS), 1 if needs_tables(base) else rng.randrange(2))
        else:
            enc = rng.choice(["utf-8", "utf-8", "latin-1", "utf-16-le", "utf-32"])
            try:
                text.encode(enc, "surrogatepass")
            except UnicodeError:
                enc = "utf-8"
            add(api, [(text, 1)], rng.choice(BYTES_FORMS), 1 if needs_tables(base) else rng.randrange(2), enc)
    # very long strings (the parser's input is never copied into a fixed buffer; the error message is truncated)
    for n in ((1000, 70000, 1100000) if ctx.thorough else (1000, 70000)):
        for api in ("typeof", "sizeof", "cast", "getctype", "getctype2", "libattr", "integer_const", "offsetof2", "callback"):
            ffi = 1
            add(api, [("int", 1), (" ", n)], "str", ffi)
            add(api, [("x", n)], "str", ffi)
            add(api, [("\xe9", n)], "str", ffi)
            add(api, [("int ", 1), ("\U0001F600", n)], "str", ffi)
            add(api, [("x", n), ("\udc80", 1)], "str", ffi)
            add(api, [("\udc80", n)], "str", ffi)
            add(api, [("int", 1), ("\0", n)], "str", ffi)
            add(api, [("y", n)], "bytes", ffi, "latin-1")
            add(api, [("foo_t", 1), ("\t\n", n)], "sub", ffi)
    return out


def complexity_limit():
    """FFI_COMPLEXITY_OUTPUT of src/c/ffi_obj.c (size of the opcode array handed to parse_c_type); fail closed to 1200"""
    try:
        m = re.search(r"#\s*define\s+FFI_COMPLEXITY_OUTPUT\s+(\d+)", open(os.path.join(vlib.REPO, "src", "c", "ffi_obj.c")).read())
        return int(m.group(1)) if m else 1200
    except OSError:
        return 1200


def gen_complexity(ctx):
    """directed stream: for every declarator shape, strings whose opcode count runs through limit-2 .. limit+2.  The
    opcode cost of the fixed part and of one repetition differs per shape (1..4), so for each plausible unit cost u the
    repetition count sweeps (limit-8)/u .. (limit+6)/u: every parity/phase of the failing write_ds is hit, in particular
    'the first opcode of an array suffix is the one that does not fit'."""
    limit = complexity_limit()
    shapes = [
        (lambda n: "int" + "[]" * n, 0), (lambda n: "int" + "[3]" * n, 0), (lambda n: "int*" + "[]" * n, 0),
        (lambda n: "int*" + "[3]" * n, 0), (lambda n: "int" + "*" * n, 0), (lambda n: "int" + "*" * (n // 2) + "[]" * (n - n // 2), 0),
        (lambda n: "int" + "[]" * (n - 3) + "[3][3]", 0), (lambda n: "int" + "[3]" * (n - 2) + "[][]", 0),
        (lambda n: "void(*)(char" + "[]" * n + ")", 0), (lambda n: "void(*)(int, char" + "[3]" * n + ")", 0),
        (lambda n: "void(*)(" + "int," * n + "int)", 0), (lambda n: "void(*)(" + "int*," * n + "...)", 0),
        (lambda n: "int" + "(*" * n + ")(void)" * n, 0), (lambda n: "int(*" + "(*" * n + ")(int)" * n + ")[]", 0),
        (lambda n: "foo_t" + "[]" * n, 1), (lambda n: "struct foo_s *" + "[2]" * n, 1), (lambda n: "fn_t" + "[]" * n, 1),
        (lambda n: "int(*)(foo_t" + "[]" * n + ", ...)", 1),
    ]
    out, seen = [], set()
    for mk, ffi in shapes:
        for u in (1, 2, 3, 4):
            for n in range(max(1, (limit - 8) // u), (limit + 6) // u + 2):
                t = mk(n)
                if t not in seen:
                    seen.add(t)
                    out.append(dict(kind="ctype", text=t, bytes=False, ffi=ffi, limit=True))
    return out


MACRO_ALPHABET = "-0123789abfxXlLuU. "


def gen_macros(ctx):
    rng, out = ctx.rng, []
    fixed = ["abc", "08", "x1", "0x", "-", "--1", "0b1", "1l", "0xFFul", "-017", "0", "00", "-0", "...", "", "1 2", "0x1g", "1lu",
             "1ll", "0XaBc", "9u", "0u", "-0x0", "1.5", "lu", "0l"]
    for s in fixed:
        out.append(dict(kind="macro", text=s))
    for _ in range(ctx.n(400, 6000)):
        out.append(dict(kind="macro", text="".join(rng.choice(MACRO_ALPHABET) for _ in range(rng.randrange(0, 7)))))
    return out


WITNESS_EXPRS = [
    ["b", "/", ["c", "5"], ["c", "0"]], ["b", "%", ["c", "5"], ["c", "0"]],            # fixed: must stay CDefError
    ["b", "<<", ["c", "1"], ["u", "-", ["c", "1"]]], ["b", ">>", ["c", "1"], ["u", "-", ["c", "1"]]],
    ["c", "0x1p3"], ["c", "0x1.8p1"], ["c", "08"], ["c", "1.5"], ["u", "~", ["c", "1"]],
]
WITNESS_FUZZ = [
    dict(kind="fuzz", api="cdef", text="#define FOO abc\n"), dict(kind="fuzz", api="cdef", text="#define FOO 08\n"),
    dict(kind="fuzz", api="cdef", text="#define FOO x1\n"), dict(kind="fuzz", api="cdef", text="int a[5/0];"),
    dict(kind="fuzz", api="cdef", text="int a[1 << -1];"), dict(kind="fuzz", api="cdef", text="int a[0x1p3];"),
    dict(kind="fuzz", api="cdef", text="int x;\n/* c */ # 12 \"foo.h\"\nint y;"),
    dict(kind="fuzz", api="cdef", text="/*\n*/#line@7\nint y;"), dict(kind="fuzz", api="cdef", text="/*\n*/#line@0x\n# 5\nint y;"),
    dict(kind="fuzz", api="typeof", text=""), dict(kind="fuzz", api="typeof", text=" "),
    dict(kind="fuzz", api="typeof", text="char[99999999999999999999999]"), dict(kind="fuzz", api="typeof", text="int[-1]"),
    dict(kind="fuzz", api="cdef", text="int a[1 << 99999999999999999999];"), dict(kind="fuzz", api="cdef", text="} typedef double U1 ;"),
    dict(kind="fuzz", api="typeof", text="..."), dict(kind="fuzz", api="typeof", text="#define long double double"),
    dict(kind="fuzz", api="cdef", text="typedef unsigned enum e1 ;"),
    dict(kind="fuzz", api="cdef", text="typedef unsigned char __dotdotdot__ ;"),
]


def generate(ctx):
    rng = ctx.rng
    cases = [dict(kind="expr", e=e) for e in WITNESS_EXPRS] + list(WITNESS_FUZZ)
    n = ctx.n(400, 6000)
    while len([c for c in cases if c["kind"] == "expr"]) < n:
        e = gen_bad_expr(rng, rng.choice([0, 1, 1, 2, 2, 3, 4, 5]))
        if shift_ok(e):
            cases.append(dict(kind="expr", e=e))
    return cases + gen_macros(ctx) + gen_fuzz(ctx) + gen_truncations(ctx) + gen_extpy(ctx) + gen_ctype(ctx) + gen_complexity(ctx) + gen_capi(ctx)


# ----------------------------------------------------------------------------- verdicts

def finding_key(case, r):
    """known-finding class of a failing case: by the exception class, the cffi function that raised it and its
    message (a different class, origin or message is a different violation and alarms)"""
    exc, msg, where = r.get("exc"), r.get("msg", ""), (r.get("cffi_frame") or "")
    if where.endswith(":_parse_constant"):
        if exc == "ValueError" and "negative shift count" in msg:
            return "shift_count"
        if exc in ("OverflowError", "MemoryError") and ("too many digits" in msg or exc == "MemoryError"):
            return "shift_count"
        if exc == "ValueError" and "invalid literal for int() with base" in msg:
            return "hex_float_constant"
    if exc == "AttributeError" and where.endswith(":parse_type_and_quals") and "'params'" in msg:
        return "typeof_no_declarator"
    if exc in ("AssertionError", "IndexError", "ValueError") and where.endswith(":replace") and (
            "unexpected #line directive" in msg or "list index out of range" in msg or "invalid literal for int()" in msg):
        return "line_directive_put_back"
    if exc == "OverflowError" and where.endswith(":global_cache") and "index-sized integer" in msg:
        return "array_length_overflow"
    if exc == "AttributeError" and "no attribute 'line'" in msg and (r.get("inner") or "").startswith("cffi/cparser.py:"):
        return "node_without_coord"
    if (r.get("inner") or "").startswith("pycparser/"):
        return "pycparser_internal_error"
    if exc == "AssertionError" and r.get("inner") == "cffi/cparser.py:_declare":
        return "internal_marker_name"
    if exc == "AssertionError" and r.get("inner") == "cffi/cparser.py:parse_type_and_quals":
        return "typeof_with_define"
    return None


def verdict_py(case, r):
    """None if acceptable, else a description.  Reading of the property: CDefError/FFIError/NotImplementedError/
    Verification* are always fine; for typeof() a TypeError or ValueError raised by the back end while the type is being
    built (innermost cffi frame model.py:global_cache) is the 'well-formed but invalid type' case and is fine as well;
    everything else escaping from cdef()/typeof() is a violation, also when it is raised inside pycparser."""
    exc = r.get("exc")
    if exc is None or exc in ALLOWED_PY:
        return None
    if case.get("api") == "typeof" and exc in ("TypeError", "ValueError") and (r.get("cffi_frame") or "").endswith(":global_cache"):
        return None
    return "%s(%s) escapes from %s() [raised in %s%s]: %r" % (
        exc, r.get("msg", "")[:80], case.get("api", "cdef"), r.get("inner"), ", inside pycparser" if r.get("pycparser") else "",
        case.get("text", "")[:200])



def recover_build(s):
    """a second sanitizer build of the back end next to vlib's, with -fsanitize-recover so that one report does not end
    the process: every input is run, reports are attributed to inputs through markers on stderr"""
    import shutil
    import subprocess
    d = os.path.join(s.dir, "rec")
    if os.path.exists(d):
        return d
    os.mkdir(d)
    shutil.copytree(os.path.join(s.dir, "cffi"), os.path.join(d, "cffi"))
    inc, suffix = vlib.py_include()[:2]
    cmd = ["gcc", "-w", "-O1", "-g", "-fPIC", "-shared", "-fsanitize=address,undefined", "-fno-omit-frame-pointer",
           "-fsanitize-recover=address,undefined", "-DFFI_BUILDING=1", "-DUSE__THREAD", "-DHAVE_SYNC_SYNCHRONIZE",
           "-I" + inc, "-I/usr/include/ffi", os.path.join(vlib.REPO, "src", "c", "_cffi_backend.c"), "-lffi",
           "-o", os.path.join(d, "_cffi_backend" + suffix)]
    p = subprocess.run(cmd, capture_output=True, text=True)
    if p.returncode:
        raise vlib.BuildError("sanitizer build of the back end failed:\n" + p.stderr[-2000:])
    return d


def classify_report(rep, case):
    """known-finding key of a sanitizer report (None: unknown -> alarm)"""
    if ("member access within null pointer" in rep and re.search(r"in search_in_\w+ .*parse_c_type\.c", rep)
            and case.get("ffi") == 0 and needs_tables(case["text"])):
        return "null_table_member_address"
    if ("heap-buffer-overflow" in rep and "READ of size 8" in rep and re.search(r"#0 \S+ in parse_sequel .*parse_c_type\.c", rep)
            and "8 bytes to the left of" in rep):
        return "failed_argument_index"
    return None


def ctype_key(r):
    exc, msg = r.get("exc"), r.get("msg") or ""
    if exc == "OverflowError" and ("array size would overflow" in msg or "index-sized integer" in msg):
        return "array_length_overflow"
    if exc == "RuntimeError" and "type-building recursion too deep" in msg:
        return "type_recursion_limit"
    return None


def run_malloc_debug(ctx, s, cases):
    """the complexity-limit stream once more on the plain build with PYTHONMALLOC=debug: CPython's debug allocator
    aborts in PyMem_Free when the pad bytes after the opcode array were overwritten"""
    progress = os.path.join(s.work, "c30_progress_md")
    todo = list(cases)
    for attempt in range(8):
        if not todo:
            return
        out, p = s.run_worker("c30_worker.py", dict(op="ctype", cases=todo, progress=progress), timeout=3000,
                              extra_env={"PYTHONMALLOC": "debug"})
        if out is not None and isinstance(out["results"], list):
            ctx.count(len(todo))
            ctx.hist("malloc_debug_child", "completed")
            return
        if out is not None:
            ctx.violation(todo[0], "PYTHONMALLOC=debug child: setup failed: %r" % (out["results"],))
            return
        try:
            i = int(open(progress).read().strip() or 0)
        except (OSError, ValueError):
            i = 0
        i = min(i, len(todo) - 1)
        ctx.hist("malloc_debug_child", "died")
        ctx.violation(todo[i], "typeof(%r...) [%d chars] on a compiled FFI under PYTHONMALLOC=debug: process died rc=%s\n%s" % (
            todo[i]["text"][:60], len(todo[i]["text"]), p.returncode, (p.stderr or "")[:1500]))
        todo = todo[i + 1:]


def ctype_label(c):
    return capi_label(c) if c["kind"] == "capi" else "typeof(%r%s)" % (
        c["text"][:300], " ... [%d chars]" % len(c["text"]) if len(c["text"]) > 300 else "")


def run_isolating(ctx, s, cases, env, progress, what):
    """run the ctype worker over `cases`; when the process dies, the input it was working on (progress file) is re-run
    ALONE in a fresh process: if that dies as well the death is attributed to this single input (violation, the input
    is the replay); then the rest of the batch is run.  Returns (results aligned with cases, None where the process
    died; concatenated stderr)."""
    results, errs, base = [None] * len(cases), [], 0
    for attempt in range(12):
        todo = cases[base:]
        if not todo:
            break
        out, p = s.run_worker("c30_worker.py", dict(op="ctype", cases=todo, progress=progress, markers=True, base=base),
                              timeout=3000, extra_env=env)
        errs.append(p.stderr or "")
        if out is not None and isinstance(out["results"], list):
            results[base:] = out["results"]
            break
        if out is not None:
            ctx.violation(todo[0], "%s: worker setup failed: %r" % (what, out["results"]))
            break
        try:
            i = int(open(progress).read().strip() or 0)
        except (OSError, ValueError):
            i = 0
        i = min(i, len(todo) - 1)
        # every input before i completed but its result was lost with the process: re-run that prefix (it did not kill)
        if i:
            out0, p0 = s.run_worker("c30_worker.py", dict(op="ctype", cases=todo[:i], progress=progress + ".pre", markers=True,
                                                          base=base), timeout=3000, extra_env=env)
            if out0 is not None and isinstance(out0["results"], list):
                results[base:base + i] = out0["results"]
                errs.append(p0.stderr or "")
        out1, p1 = s.run_worker("c30_worker.py", dict(op="ctype", cases=[todo[i]], progress=progress + ".iso", markers=False),
                                timeout=600, extra_env=env)
        alone = out1 is None or not isinstance(out1["results"], list)
        ctx.hist("process_death", "confirmed in isolation" if alone else "only inside the batch")
        err = (p1.stderr if alone else p.stderr) or ""
        k = err.rfind("ERROR: AddressSanitizer")
        tail = err[k:k + 1800] if k >= 0 else err[-1800:]
        ctx.violation(todo[i], "%s: %s: the interpreter died (rc=%s%s)\n%s" % (
            what, ctype_label(todo[i]), p1.returncode if alone else p.returncode,
            "; reproduced with this input alone in a fresh process" if alone else
            "; NOT reproduced with this input alone: depends on the inputs before it in the batch", tail),
            key=None)
        base += i + 1
    return results, "\n".join(errs)


# entry points whose string argument is parsed as a C type by parse_c_type.c (through _ffi_type): the property's predicate
# applies to them in full.  For the others (names looked up in lib / integer_const / addressof, offsetof()'s field names,
# getctype()'s replace_with, from_buffer) the property states nothing about the exception class: only a dying interpreter
# or a sanitizer report while the string is handled is a violation; their outcomes are histogram observations.
FULL_PREDICATE_APIS = ("typeof", "new", "cast", "sizeof", "alignof", "getctype", "offsetof", "callback")


def capi_verdict(c, r):
    """None if acceptable, else (description, key).  Type-string entry points of a compiled FFI: a result, ffi.error,
    TypeError or ValueError (UnicodeEncodeError is a ValueError); NotImplementedError for valid-but-unsupported C (as the
    property's first sentence allows for the in-line front end: e.g. callback('void(*)(int, ...)')); offsetof() reports a
    missing field as KeyError (documented).  Entry points that do not parse a type string: never judged by class."""
    exc = r["exc"]
    if c["api"] not in FULL_PREDICATE_APIS:
        return None
    if exc is None or exc in ALLOWED_C or exc == "NotImplementedError":
        return None
    if exc == "KeyError" and c["api"] == "offsetof":
        return None
    return "%s on a compiled FFI raises %s: %s" % (capi_label(c), r.get("cls") or exc, r.get("msg")), ctype_key(r)


def utf8_ok(t):
    try:
        t.encode("utf-8")
        return True
    except UnicodeError:
        return False


def run_ctypes(ctx, ctypes):
    s = ctx.scratch()
    d = recover_build(s)
    import subprocess
    env = {"PYTHONPATH": d + os.pathsep + os.path.join(vlib.ROOT, "tools"),
           "LD_PRELOAD": subprocess.check_output(["gcc", "-print-file-name=libasan.so"], text=True).strip(),
           "PYTHONMALLOC": "malloc",
           "ASAN_OPTIONS": "detect_leaks=0:halt_on_error=0:exitcode=0:allocator_may_return_null=1",
           "UBSAN_OPTIONS": "print_stacktrace=1:halt_on_error=0"}
    progress = os.path.join(s.work, "c30_progress")
    results, stderr = run_isolating(ctx, s, ctypes, env, progress, "compiled FFI under ASan+UBSan")
    # sanitizer reports, attributed by the '@@C30 i' markers the worker writes to stderr before each input
    reports, cur = {}, None
    for line in stderr.splitlines():
        if line.startswith("@@C30 "):
            cur = int(line[6:])
        elif cur is not None and line.strip():
            reports.setdefault(cur, []).append(line)
    for c, r in zip(ctypes, results):
        if r is None:
            continue
        ctx.count()
        if c["kind"] == "capi":
            t = capi_text(c)
            ctx.hist("capi_outcome", "%s:%s" % (c["api"], r.get("cls") or "ok"))
            ctx.hist("capi_input", ("not UTF-8 encodable" if not utf8_ok(t) else "embedded NUL" if "\0" in t else
                                    "non-BMP" if any(ord(ch) > 0xffff for ch in t) else "very long" if len(t) >= 1000 else
                                    "non-ASCII" if any(ord(ch) > 127 for ch in t) else "ascii") + "/" + c["form"])
            ctx.nontrivial(("capi", c["api"], c["form"], t[:64], len(t)))
            bad = capi_verdict(c, r)
            if bad:
                ctx.violation(c, bad[0], key=bad[1])
            continue
        ctx.hist("ctype_outcome", r["exc"] or "ok")
        if r["exc"] is None:
            if c["text"].strip() not in TYPES:
                ctx.nontrivial(("ctype-ok", c["text"]))
        else:
            ctx.nontrivial(("ctype", c["text"]))
            if r["exc"] not in ALLOWED_C:
                ctx.violation(c, "typeof(%r) on a compiled FFI raises %s: %s" % (c["text"][:200], r["exc"], r.get("msg")),
                              key=ctype_key(r))
    run_malloc_debug(ctx, s, [c for c in ctypes if c.get("limit")])
    for i, lines in sorted(reports.items()):
        rep = "\n".join(lines)
        if ("runtime error" in rep or "AddressSanitizer" in rep) and i < len(ctypes) and results[i] is not None:
            key = classify_report(rep, ctypes[i]) if ctypes[i]["kind"] == "ctype" else None
            ctx.hist("sanitizer_reports", key or "unknown")
            ctx.violation(ctypes[i], "%s on a compiled FFI: sanitizer report\n%s" % (ctype_label(ctypes[i]), rep[:1500]), key=key)


EXTPY_CODES = {"CDefError": 1, "NotImplementedError": 2, "FFIError": 3, "ValueError": 4, "IndexError": 5, "KeyError": 6,
               "TypeError": 8, "AssertionError": 9}


def extpy_pairs(cases, res):
    return [(cstr(c["text"]) if c["text"] else "(@nil N)",
             "(%s, %s)" % (cz(0 if r["exc"] is None else EXTPY_CODES.get(r["exc"], 98)),
                           (cstr(r["out"]) if r["out"] else "(@nil N)")))
            for c, r in zip(cases, res)]


def run_extpy(ctx, cases):
    """correspondence C30.ExternPy.extern_python (over the regenerated C30/Gen.v) vs the real _preprocess_extern_python:
    the whole output text or the exception class; an exception class outside {CDefError, NotImplementedError} from the
    real function is, in addition, a violation of the property (it escapes from cdef() unchanged)"""
    s = ctx.scratch()
    out, p = s.run_worker("c30_worker.py", dict(op="extpy", cases=cases), timeout=1200)
    if out is None:
        ctx.violation(cases[0], "extpy worker failed (rc=%s): %s" % (p.returncode, p.stderr[-1200:]))
        return
    res = out["results"]
    for c, r in zip(cases, res):
        ctx.count()
        ctx.hist("extpy_outcome", r["exc"] or "ok")
        if r["exc"] or r["out"] != c["text"]:
            ctx.nontrivial(("extpy", c["text"]))
        if r["exc"] not in (None, "CDefError", "NotImplementedError"):
            ctx.violation(c, "_preprocess_extern_python(%r) raises %s (escapes from FFI.cdef())" % (c["text"], r["exc"]))
    bad, outs, err = vlib.coq_mismatches(["C30.Gen", "C30.ExternPy"], "extern_python_out", "pair_eqb Z.eqb (list_eqb N.eqb)",
                                         extpy_pairs(cases, res), shard=800)
    if err:
        ctx.obligation_broken("C30 model evaluation (extern_python)", err)
    for k in bad:
        ctx.mismatch(cases[k], "model extern_python = %s, implementation: %s for %r" % (
            outs.get(k), res[k]["exc"] or ascii(res[k]["out"]), cases[k]["text"]),
            "C30.ExternPy.extern_python vs cparser._preprocess_extern_python")


def label(c):
    return c_text(c["e"]) if c["kind"] == "expr" else capi_label(c) if c["kind"] == "capi" else c["text"]


def evaluate(ctx, cases):
    exprs = [c for c in cases if c["kind"] == "expr"]
    macros = [c for c in cases if c["kind"] == "macro"]
    fuzz = [c for c in cases if c["kind"] == "fuzz"]
    ctypes = [c for c in cases if c["kind"] in ("ctype", "capi")]
    codes = {"CDefError": 1, "FFIError": 2, "ZeroDivisionError": 3, "ValueError": 4, "IndexError": 5, "KeyError": 6,
             "MemoryError": 7, "TypeError": 8}
    pairs, owner = [], []
    if exprs or macros or fuzz:
        s = ctx.scratch()
        py_cases = ([dict(api="cdef", text="enum e { A = %s };" % c_text(c["e"])) for c in exprs] +
                    [dict(api="cdef", text="#define X %s\n" % c["text"]) for c in macros] +
                    [dict(api=c["api"], text=c["text"]) for c in fuzz])
        out, p = s.run_worker("c30_worker.py", dict(op="py", cases=py_cases), timeout=3000)
        if out is None:
            ctx.violation((exprs + macros + fuzz)[0], "worker failed (rc=%s): %s" % (p.returncode, (p.stderr[-1500:] or p.stdout[-500:])))
            return
        res = out["results"]
        for c, r in zip(exprs + macros + fuzz, res):
            ctx.count()
            why = verdict_py(dict(api=c.get("api", "cdef"), text=label(c)), r)
            ctx.hist("py_outcome", r["exc"] or "ok")
            if r["exc"]:
                ctx.nontrivial((c["kind"], label(c)))
            if why:
                ctx.violation(c, why, key=finding_key(c, r))
        # model ties
        for c, r in zip(exprs, res[:len(exprs)]):
            if r["exc"] is None:
                exp = None          # value not compared here (C09 does); only that the model does not raise
                pairs.append((coq_expr(c["e"]), "(0, 0)"))
            else:
                pairs.append((coq_expr(c["e"]), "(%s, 0)" % cz(codes.get(r["exc"], 99))))
            owner.append(c)
        if pairs:
            bad, outs, err = vlib.coq_mismatches(
                ["C09.Prim", "C09.Gen", "C09.Model"], "(fun e => (fst (py_eval_out e), 0))", "pair_eqb Z.eqb Z.eqb", pairs,
                shard=600, prelude="Open Scope string_scope.\n")
            if err:
                ctx.obligation_broken("C30 model evaluation (py_eval)", err)
            for k in bad:
                ctx.mismatch(owner[k], "model py_eval raises %s, the real parser gives %r for %s" % (
                    outs.get(k), res[exprs.index(owner[k])]["exc"], c_text(owner[k]["e"])),
                    "C09.Model.py_eval (exception class) vs cparser._parse_constant")
        if macros:
            mres = res[len(exprs):len(exprs) + len(macros)]
            out2, p2 = s.run_worker("c30_worker.py", dict(op="re", cases=[dict(text=c["text"].strip()) for c in macros]))
            if out2 is None:
                ctx.violation(macros[0], "worker failed: " + p2.stderr[-800:])
                return
            mp = []
            for c, r, m in zip(macros, mres, out2["results"]):
                if r["exc"] is None:
                    # value read back by a second worker call would cost a round trip: the class is what C30 is about;
                    # the value of accepted literals is checked by C09
                    exp = "(%s, 0)" % cz(0 if m else 100)
                else:
                    exp = "(%s, 0)" % cz(codes.get(r["exc"], 99))
                mp.append((cstr(c["text"].strip()) if c["text"].strip() else "(@nil N)",
                           "(%s, %s)" % (cz(1 if m else 0), exp)))
            bad, outs, err = vlib.coq_mismatches(
                ["C09.Prim", "C09.Gen", "C09.Model", "C30.Model"],
                "(fun s => (r_int_literal_out s, (fst (process_macro_out s), 0)))",
                "pair_eqb Z.eqb (pair_eqb Z.eqb Z.eqb)", mp, shard=600)
            if err:
                ctx.obligation_broken("C30 model evaluation (macros)", err)
            for k in bad:
                ctx.mismatch(macros[k], "model (r_int_literal, process_macro) = %s, implementation: match=%r cdef=%r for %r" % (
                    outs.get(k), out2["results"][k], mres[k]["exc"] or "ok", macros[k]["text"]),
                    "C30.Model.r_int_literal/process_macro vs cparser._r_int_literal/_process_macros")
    extpy = [c for c in cases if c["kind"] == "extpy"]
    if extpy:
        run_extpy(ctx, extpy)
    if ctypes:
        run_ctypes(ctx, ctypes)
    for c in (exprs[:1] + macros[:1] + fuzz[15:17] + ctypes[:2] + [c for c in ctypes if c["kind"] == "capi"][:2]):
        ctx.sample(c if c["kind"] != "expr" else dict(kind="expr", text=c_text(c["e"])))


def regen(ctx):
    c09_regen.regen(ctx, vlib.COQ, vlib.REPO)
    c30_regen.regen(ctx, vlib.COQ, vlib.REPO)


def run(ctx):
    ctx.cov["rule"] = ("expr: random expression trees (depth <= 5) with supported and unsupported operators, malformed literals, "
                       "identifiers, zero divisors, negative and out-of-range shift counts, in `enum e { A = EXPR };`; macro: "
                       "random '#define X <text>' over a literal-like alphabet; fuzz: random valid cdefs and type strings with "
                       "1-3 token-level or character-level mutations, and random token soups; ctype: type strings with token, "
                       "character and byte mutations (incl. NUL and bytes >= 128, as bytes and as str) and very long / deeply "
                       "nested strings through _cffi_backend.FFI().typeof and a compiled module's ffi under ASan+UBSan; trunc: every "
                       "token-boundary prefix of 11 valid cdefs and of the type strings, x 4 white-space tails; extpy: character "
                       "prefixes of cdefs with extern \"Python\" markers, markers followed by white-space/newline/brace tails, random "
                       "soups of marker pieces; capi: 23 special code-point sequences (lone high/low surrogates, reversed pairs, "
                       "NUL, non-BMP, Latin-1, BOM, line separators) alone/before/after/inside valid types and names x 16 entry "
                       "points x {str, str subclass, str subclass with failing __str__/encode, bytes, bytes subclass, bytearray, "
                       "memoryview}, and strings of 1000..1.1M characters. "
                       "Non-trivial = the input is rejected (an error path is exercised) or is an accepted mutated type; "
                       "distinct by text.")
    ctx.assumptions += [
        "C09/Gen.v regenerated from cparser.py (translator c09_regen.py); literal scanning, _add_integer_constant and the regular "
        "expression _r_int_literal are hand models (C09/Model.v, C30/Model.v) tied by this run's differential tests",
        "parse_c_type.c: the memory-safety theorems are imported from coq/C07 (model tied to the unmodified C file by ./check C07); "
        "pycparser, the rest of cparser.py, ffi_obj.c (_ffi_type) and realize_c_type.c are not modelled: fuzzing only "
        "(sanitizer-instrumented back end, PYTHONMALLOC=debug child, complexity-limit stream)",
        "C30/Gen.v regenerated from cparser.py by the shape matcher c30_regen.py (fail closed: a changed shape is a broken "
        "obligation); the prefix of the pattern _r_extern_python and Python's \\s / \\w tables are hand models tied by the extpy stream",
        "capi stream: the exception class is judged only for the entry points that parse a type string (typeof/new/cast/sizeof/"
        "alignof/getctype/offsetof/callback: ffi.error/TypeError/ValueError, NotImplementedError for valid-but-unsupported C, KeyError "
        "for offsetof's missing field); for name look-ups (lib attributes, integer_const, addressof), offsetof field names, "
        "getctype's replace_with and from_buffer only interpreter death / a sanitizer report is a violation, other outcomes are "
        "observations (histogram capi_outcome)",
        "reading: TypeError/ValueError raised by the back end while FFI.typeof() builds a well-formed but invalid type are "
        "accepted; exceptions raised inside pycparser count as violations of cdef()/typeof()"]
    evaluate(ctx, generate(ctx))


MANIFEST = dict(
    technique="Coq proofs about the regenerated constant evaluator, the #define path, five stages of _preprocess (handler tuple "
              "regenerated) and _preprocess_extern_python (facts regenerated), with Python's implicit exceptions and partial "
              "indexing made explicit + differential ties of the models + grammar-based, truncation and mutation fuzzing of "
              "cdef()/typeof() and of every type-string / name entry point of a compiled FFI under ASan/UBSan",
    text="Partial. Proved (all expression trees, all texts, all type strings): _parse_constant returns a value or raises only "
         "CDefError/FFIError (C30_evaluator_closed, on the text regenerated from cparser.py: shift-count guard, guarded int(), "
         "division by zero); whatever _r_int_literal accepts _add_integer_constant converts, so the modelled iteration of "
         "_process_macros raises only CDefError (C30_macros_closed, C30_process_macro_closed; the FFIError of _add_constants "
         "for a redefinition is not modelled); the FIVE MODELLED STAGES of _preprocess (white-space normalisation, line-"
         "directive stashing, comments, #define, putting directives back) raise only CDefError (C30_preprocess_stages_closed), "
         "the handler `except (ValueError, IndexError): raise CDefError` being regenerated into C30/Gen.v and proved equal to "
         "the model's (C30_handler_regenerated, C30_replace_closed) -- NOT the whole _preprocess: the stdcall and '...' "
         "rewriting stages with their asserts are fuzz-only; _preprocess_extern_python terminates and raises only CDefError/"
         "NotImplementedError, never IndexError from csource[endpos] (C30_extern_python_closed, "
         "C30_extern_python_terminates_no_index_error: model with partial indexing and fuel over regenerated facts -- the "
         "pattern's trailing `.`, the `- 1`, the characters and the raised classes; any \\s/\\w); parse_c_type.c never accesses "
         "its opcode buffer out of bounds, returns an in-range index or an error (or the model-only out-of-fuel outcome, not "
         "excluded here) and never reads past the terminating NUL (C30_type_parser_*, imported from C07). Fuzzed, not proved: "
         "pycparser, the other paths of cparser.py, ffi_obj.c/_ffi_type (incl. str -> char* conversion: capi stream), "
         "lib_obj.c name look-ups, realize_c_type.c.",
    note="Trusted: Coq kernel; translators c09_regen.py and c30_regen.py (shape matcher); hand models (literal scanner, "
         "_r_int_literal, the prefix of _r_extern_python, \\s/\\w tables) tied by differential tests; ASan/UBSan as the detector of "
         "out-of-bounds reads; process death attributed by re-running the single input; pycparser not modelled. The capi stream "
         "also drives entry points ADJACENT to the property (lib attribute look-ups, integer_const, addressof(lib, name), offsetof "
         "field names, getctype's replace_with, from_buffer): for those only interpreter death or a sanitizer report is a "
         "violation, exception classes are recorded as observations (the fixed SystemError of getattr(lib, '\\udc80'), 8e09684, "
         "was found there).",
    design_ref="DESIGN.md §4 C30")
