"""Fail-closed parser for the small integer C expressions that occur in cffi's macros and in the
bitfield converters, emitting the deep embedding `cexpr` of coq/C03/CExpr.v (used by C03, C02).

Grammar accepted (anything else raises CExprError):
    literals   123  0x7F  with optional suffix  U  L  LL  UL  ULL  (any case)
    names      identifiers; `a->b` and `a.b` are read as one name "a_b" (struct member access)
    casts      ( [unsigned|signed] {PY_LONG_LONG | long long | long | int} )  expr
    unary      - ~ !(rejected)
    binary     << >> + - * & | < > <= >= == != && ||   with C precedence, left associative
    parentheses
`long` is treated as `long long` (LP64; checked against gcc by the callers' platform probe).
"""
import re


class CExprError(Exception):
    pass


_TOK = re.compile(r"\s*(?:(0[xX][0-9a-fA-F]+|\d+)([uUlL]*)|([A-Za-z_]\w*(?:\s*(?:->|\.)\s*[A-Za-z_]\w*)*)|"
                  r"(<<|>>|<=|>=|==|!=|&&|\|\||[-+*~&|<>()]))")

_TYPES = {
    ("PY_LONG_LONG",): "TLL", ("long", "long"): "TLL", ("long",): "TLL", ("int",): "TInt",
    ("signed", "PY_LONG_LONG"): "TLL", ("signed", "long", "long"): "TLL", ("signed", "long"): "TLL",
    ("signed", "int"): "TInt", ("signed",): "TInt",
    ("unsigned", "PY_LONG_LONG"): "TULL", ("unsigned", "long", "long"): "TULL", ("unsigned", "long"): "TULL",
    ("unsigned", "int"): "TUInt", ("unsigned",): "TUInt",
}
_TYPEWORDS = {"PY_LONG_LONG", "long", "int", "unsigned", "signed"}

_BIN = [  # lowest precedence first
    {"||": "BLOr"}, {"&&": "BLAnd"}, {"|": "BOr"}, {"&": "BAnd"}, {"==": "BEq", "!=": "BNe"},
    {"<": "BLt", ">": "BGt", "<=": "BLe", ">=": "BGe"}, {"<<": "BShl", ">>": "BShr"},
    {"+": "BAdd", "-": "BSub"}, {"*": "BMul"},
]


def tokenize(s):
    pos, out = 0, []
    s = s.strip()
    while pos < len(s):
        m = _TOK.match(s, pos)
        if not m:
            raise CExprError("cannot tokenize %r at %d" % (s, pos))
        if m.group(1) is not None:
            out.append(("num", m.group(1), m.group(2).upper()))
        elif m.group(3) is not None:
            out.append(("id", re.sub(r"\s*(?:->|\.)\s*", "_", m.group(3))))
        else:
            out.append(("op", m.group(4)))
        pos = m.end()
    return out


class _P:
    def __init__(self, toks):
        self.t, self.i = toks, 0

    def peek(self, k=0):
        return self.t[self.i + k] if self.i + k < len(self.t) else ("eof",)

    def take(self):
        tok = self.peek()
        self.i += 1
        return tok

    def expect(self, op):
        if self.take() != ("op", op):
            raise CExprError("expected %r" % op)

    def binary(self, level):
        if level == len(_BIN):
            return self.unary()
        e = self.binary(level + 1)
        while self.peek()[0] == "op" and self.peek()[1] in _BIN[level]:
            op = _BIN[level][self.take()[1]]
            e = "(EBin %s %s %s)" % (op, e, self.binary(level + 1))
        return e

    def unary(self):
        tok = self.peek()
        if tok == ("op", "-"):
            self.take()
            return "(EUn UNeg %s)" % self.unary()
        if tok == ("op", "~"):
            self.take()
            return "(EUn UNot %s)" % self.unary()
        if tok == ("op", "("):
            # cast?
            j, words = 1, []
            while self.peek(j)[0] == "id" and self.peek(j)[1] in _TYPEWORDS:
                words.append(self.peek(j)[1])
                j += 1
            if words and self.peek(j) == ("op", ")"):
                ty = _TYPES.get(tuple(words))
                if ty is None:
                    raise CExprError("unsupported cast type %r" % (words,))
                self.i += j + 1
                return "(ECast %s %s)" % (ty, self.unary())
            self.take()
            e = self.binary(0)
            self.expect(")")
            return e
        if tok[0] == "num":
            self.take()
            suffix = "".join(sorted(tok[2]))
            ty = {"": "TInt", "U": "TUInt", "L": "TLL", "LL": "TLL", "LU": "TULL", "LLU": "TULL"}.get(suffix)
            if ty is None:
                raise CExprError("unsupported literal suffix %r" % tok[2])
            v = int(tok[1], 0) if tok[1].lower().startswith("0x") else int(tok[1], 10)
            if tok[1].startswith("0") and len(tok[1]) > 1 and not tok[1].lower().startswith("0x"):
                raise CExprError("octal literal")
            return "(ELit %s %d)" % (ty, v)
        if tok[0] == "id":
            self.take()
            if tok[1] in _TYPEWORDS:
                raise CExprError("type word in expression")
            return '(EVar "%s")' % tok[1]
        raise CExprError("unexpected token %r" % (tok,))


def parse(text):
    """C expression text -> Gallina term of type cexpr (string). Raises CExprError."""
    p = _P(tokenize(text))
    e = p.binary(0)
    if p.peek()[0] != "eof":
        raise CExprError("trailing tokens in %r" % text)
    return e


def join_continuations(text):
    return re.sub(r"\\\s*\n", " ", text)
