"""C12 worker (runs with the scratch cffi on PYTHONPATH).  For every module case:
   * builds the C source and the cdef from the case description (functions below, also
     imported by c12.py / c33.py to keep one definition of the texts),
   * compiles the C source a first time on its own with gcc, together with a main() that
     prints the compiler's facts (constant values, sizeof/offsetof/_Alignof of the real structs
     and of "twin" structs declared exactly as the cdef declares them, function results),
   * builds the API-mode module with ffi.compile(tmpdir=...) and probes every declared item.
"""
import importlib
import json
import os
import subprocess
import sys
import traceback

# ----------------------------------------------------------------------------- type table
INT_TYPES = {  # name: (size, signed)
    "signed char": (1, True), "unsigned char": (1, False), "short": (2, True),
    "unsigned short": (2, False), "int": (4, True), "unsigned int": (4, False),
    "long": (8, True), "unsigned long": (8, False), "long long": (8, True),
    "unsigned long long": (8, False)}
FLOAT_TYPES = {"float": 4, "double": 8}
PTR_TYPES = ["void *", "int *", "char *", "double *", "struct n1 *"]
NESTED = {  # fixed, correctly declared aggregates usable as field types: name -> (decl, size, align)
    "struct n1": ("struct n1 { char c; double d; };", 16, 8),
    "struct n2": ("struct n2 { short a[3]; };", 6, 2),
    "union n3": ("union n3 { int i; char c[7]; };", 8, 4)}


def base_size_align(base):
    if base in INT_TYPES:
        s = INT_TYPES[base][0]
        return s, s
    if base in FLOAT_TYPES:
        return FLOAT_TYPES[base], FLOAT_TYPES[base]
    if base.endswith("*"):
        return 8, 8
    return NESTED[base][1], NESTED[base][2]


def category(base):
    if base in INT_TYPES:
        return "int"
    if base in FLOAT_TYPES:
        return "float"
    if base.endswith("*"):
        return "ptr"
    return "agg"


def field_decl(f, for_cdef):
    name, base, arr = f
    if arr is None:
        return "%s %s;" % (base, name)
    if arr == "[]":
        return "%s %s[];" % (base, name)
    if arr == "...":
        assert for_cdef
        return "%s %s[...];" % (base, name)
    return "%s %s[%d];" % (base, name, arr)


def c_int_literal(v, ctype=None):
    """a C expression of value v; with ctype: of exactly that type"""
    if v == -(1 << 63):
        s = "(-9223372036854775807LL-1)"
    elif v < 0:
        s = "(-%dLL)" % (-v)
    elif v >= (1 << 63):
        s = "%dULL" % v
    else:
        s = "%dLL" % v
    return "((%s)%s)" % (ctype, s) if ctype else s


# ----------------------------------------------------------------------------- texts
def struct_texts(s):
    kw = "union" if s["union"] else "struct"
    attr = " __attribute__((packed))" if s["cpacked"] else ""
    real = "%s%s %s { %s };" % (kw, attr, s["name"], " ".join(field_decl(f, False) for f in s["cfields"]))
    tattr = " __attribute__((packed))" if s["packed"] else ""
    twin_fields = []
    for f in s["dfields"]:
        name, base, arr = f
        if arr == "...":      # length taken from the compiler: the twin uses the real length
            arr = next(cf[2] for cf in s["cfields"] if cf[0] == name)
        twin_fields.append(field_decl([name, base, arr], False))
    twin = "%s%s tw_%s { %s };" % (kw, tattr, s["name"], " ".join(twin_fields))
    cdef = "%s %s { %s%s };" % (kw, s["name"], " ".join(field_decl(f, True) for f in s["dfields"]),
                                " ...;" if s["partial"] else "")
    return real, twin, cdef


def const_c_text(k):
    if k["form"] == "cast":
        return "#define %s %s" % (k["name"], c_int_literal(k["cval"], k["ctype"]))
    if k["form"] == "plain":
        return "#define %s %d" % (k["name"], k["cval"])
    if k["form"] == "enumconst":
        return "enum { %s = %d };" % (k["name"], k["cval"])
    raise ValueError(k["form"])


PRELUDE = "#include <stddef.h>\n#include <stdint.h>\n" + "".join(NESTED[n][0] + "\n" for n in sorted(NESTED))


def module_texts(m):
    """-> (csrc without PRELUDE, [(cdef_text, packed)], twin_decls)"""
    csrc = []
    cdef, cdef_packed, twins = [], [], []
    for name in sorted(NESTED):
        cdef.append(NESTED[name][0])
    for k in m.get("consts", []):
        csrc.append(const_c_text(k))
        if k["decl"] == "constdecl":
            cdef.append("static const %s %s;" % (k["ctype"], k["name"]))
        elif k["cdef"] is None:
            cdef.append("#define %s ..." % k["name"])
        else:
            cdef.append("#define %s %d" % (k["name"], k["cdef"]))
    for e in m.get("enums", []):
        csrc.append("enum %s { %s };" % (e["name"], ", ".join("%s = %d" % (n, c) for n, c, d in e["items"])))
        cdef.append("enum %s { %s%s };" % (e["name"], ", ".join("%s = %d" % (n, d) for n, c, d in e["items"]),
                                           ", ..." if e["partial"] else ""))
    for s in m.get("structs", []):
        real, twin, cd = struct_texts(s)
        csrc.append(real)
        twins.append(twin)
        (cdef_packed if s["packed"] else cdef).append(cd)
    for t in m.get("typedefs", []):
        csrc.append("typedef %s %s;" % (t["ctype"], t["name"]))
        cdef.append("typedef %s %s;" % ("int..." if t["dotdotdot"] else t["ctype"], t["name"]))
    for v in m.get("vars", []):
        n, base = v["name"], v["base"]
        if v["arr"] is None:
            init = c_int_literal(v["init"][0]) if category(base) == "int" else repr(float(v["init"][0]))
            csrc.append("%s %s = %s;" % (base, n, init))
            cdef.append("extern %s %s;" % (base, n))
            csrc.append("%s _hg_%s(void) { return %s; }" % (base, n, n))
            csrc.append("void _hs_%s(%s x) { %s = x; }" % (n, base, n))
            cdef.append("%s _hg_%s(void); void _hs_%s(%s);" % (base, n, n, base))
        else:
            csrc.append("%s %s[%d] = { %s };" % (base, n, v["arr"], ", ".join(c_int_literal(x) for x in v["init"])))
            cdef.append("extern %s %s[%s];" % (base, n, v["darr"]))
        csrc.append("uintptr_t _ha_%s(void) { return (uintptr_t)&%s; }" % (n, n))
        cdef.append("uintptr_t _ha_%s(void);" % n)
    for f in m.get("funcs", []):
        args = ", ".join("%s a%d" % (t, i) for i, t in enumerate(f["args"])) or "void"
        csrc.append("%s %s(%s) { %s }" % (f["ret"], f["name"], args, f["body"]))
        dargs = ", ".join(f.get("dargs", f["args"])) or "void"
        cdef.append("%s %s(%s);" % (f.get("dret", f["ret"]), f["name"], dargs))
    if m.get("raw_c"):          # the C text itself is added by the build functions (not part of the
        cdef.append(m["raw_cdef"])   # combined facts program, where it would be defined once per module)
    return "\n".join(csrc) + "\n", [("\n".join(cdef), False), ("\n".join(cdef_packed), True)], twins


def facts_program(mods):
    """one program for all modules (all names are unique across the modules of a run)"""
    out = ["#include <stdio.h>", PRELUDE]
    out.append('#define PC(name, X) printf("C|%s\\t%d %llu\\n", name, (int)((X) <= 0), (unsigned long long)(X))')
    for m, csrc, twins in mods:
        out.append(csrc)
        out += twins
    out.append("int main(void) {")
    for m, csrc, twins in mods:
        out.append('  printf("M|%s\\t0\\n");' % m["name"])
        facts_lines(m, out)
    out.append("  return 0; }")
    return "\n".join(out) + "\n"


def facts_lines(m, out):
    bases = set()
    for s in m.get("structs", []):
        for f in s["dfields"]:
            bases.add(f[1])
    for b in sorted(bases):
        out.append('  printf("T|%s\\t%%d %%d\\n", (int)sizeof(%s), (int)_Alignof(%s));' % (b, b, b))
    for k in m.get("consts", []):
        out.append('  PC("%s", %s);' % (k["name"], k["name"]))
    for e in m.get("enums", []):
        out.append('  printf("E|%s\\t%%d\\n", (int)sizeof(enum %s));' % (e["name"], e["name"]))
        for n, c, d in e["items"]:
            out.append('  PC("%s", %s);' % (n, n))
    for s in m.get("structs", []):
        kw = "union" if s["union"] else "struct"
        for pre, tag in (("S", s["name"]), ("W", "tw_" + s["name"])):
            out.append('  printf("%s|%s\\t%%d %%d\\n", (int)sizeof(%s %s), (int)_Alignof(%s %s));'
                       % (pre, s["name"], kw, tag, kw, tag))
            for f in s["dfields"]:
                carr = next(cf[2] for cf in s["cfields"] if cf[0] == f[0]) if pre == "S" else f[2]
                if carr == "...":
                    carr = next(cf[2] for cf in s["cfields"] if cf[0] == f[0])
                size = "-1" if carr == "[]" else "(int)sizeof(((%s %s *)0)->%s)" % (kw, tag, f[0])
                out.append('  printf("%s|%s|%s\\t%%d %%d\\n", (int)offsetof(%s %s, %s), %s);'
                           % (pre, s["name"], f[0], kw, tag, f[0], size))
    for t in m.get("typedefs", []):
        out.append('  printf("Y|%s\\t%%d %%d\\n", (int)sizeof(%s), (int)(((%s)-1) <= 0));' % (t["name"], t["name"], t["name"]))
    for v in m.get("vars", []):
        if v["arr"] is None:
            if category(v["base"]) == "int" and not INT_TYPES[v["base"]][1]:
                out.append('  printf("V|%s\\t%%llu\\n", (unsigned long long)%s);' % (v["name"], v["name"]))
            elif category(v["base"]) == "int":
                out.append('  printf("V|%s\\t%%lld\\n", (long long)%s);' % (v["name"], v["name"]))
            else:
                out.append('  printf("V|%s\\t%%a\\n", (double)%s);' % (v["name"], v["name"]))
        else:
            out.append('  printf("V|%s\\t%%d\\n", (int)(sizeof(%s)/sizeof(%s[0])));' % (v["name"], v["name"], v["name"]))
    for f in m.get("funcs", []):
        for i, call in enumerate(f["calls"]):
            args = ", ".join(c_int_literal(a) if isinstance(a, int) else repr(a) for a in call)
            if f["ret"] in FLOAT_TYPES:
                out.append('  printf("R|%s|%d\\t%%a\\n", (double)%s(%s));' % (f["name"], i, f["name"], args))
            elif not INT_TYPES[f["ret"]][1]:
                out.append('  printf("R|%s|%d\\t%%llu\\n", (unsigned long long)%s(%s));' % (f["name"], i, f["name"], args))
            else:
                out.append('  printf("R|%s|%d\\t%%lld\\n", (long long)%s(%s));' % (f["name"], i, f["name"], args))


def run_facts(mods, workdir):
    """-> ({module name: facts}, error)"""
    os.makedirs(workdir, exist_ok=True)
    src = os.path.join(workdir, "facts.c")
    exe = os.path.join(workdir, "facts")
    with open(src, "w") as f:
        f.write(facts_program(mods))
    p = subprocess.run(["gcc", "-w", "-O0", "-o", exe, src], capture_output=True, text=True)
    if p.returncode:
        return None, "facts program does not compile: " + p.stderr[-1500:]
    p = subprocess.run([exe], capture_output=True, text=True, timeout=60)
    if p.returncode:
        return None, "facts program failed rc=%d" % p.returncode
    allfacts, facts = {}, None
    for line in p.stdout.splitlines():
        key, _, rest = line.partition("\t")
        if key.startswith("M|"):
            facts = allfacts.setdefault(key[2:], {})
        else:
            facts[key] = rest.split()
    return allfacts, None


# ----------------------------------------------------------------------------- probing
def errname(e):
    import cffi
    if isinstance(e, cffi.VerificationError):
        return "VerificationError"
    import _cffi_backend
    if isinstance(e, (cffi.FFIError, _cffi_backend.FFI.error)):     # ffi.error
        return "FFIError"
    return type(e).__name__


def attempt(fn):
    try:
        return {"ok": fn()}
    except Exception as e:
        return {"err": errname(e)}


def probe_struct(ffi, s):
    kw = ("union " if s["union"] else "struct ") + s["name"]

    def fields():
        out = []
        for n, f in ffi.typeof(kw).fields:
            t = f.type
            size = -1 if (t.kind == "array" and t.length is None) else ffi.sizeof(t)
            out.append([n, f.offset, size])
        return out
    r = {"sizeof": attempt(lambda: ffi.sizeof(kw))}
    r["fields"] = attempt(fields)
    r["alignof"] = attempt(lambda: ffi.alignof(kw))
    r["sizeof2"] = attempt(lambda: ffi.sizeof(kw))          # a failed realisation must fail again
    r["new"] = attempt(lambda: ffi.sizeof(ffi.new(kw + " *")[0]) if not any(f[2] == "[]" for f in s["dfields"])
                       else ffi.sizeof(kw))
    return r


def fval(x):
    return float(x).hex()


def message_kind(msg):
    try:
        from props.c12_regen import message_kind as mk
    except ImportError:
        sys.path.insert(0, os.path.dirname(os.path.abspath(__file__)))
        from c12_regen import message_kind as mk
    return mk(msg)


def attempt_len(fn):
    """like attempt(); an error also carries the class of its message (first line only)"""
    try:
        return {"ok": fn()}
    except Exception as e:
        lines = str(e).splitlines()
        return {"err": errname(e), "kind": message_kind(lines[0] if lines else "")}


SMALL_LENGTH = 4096


def probe_as_length(ffi, name, cval, sp):
    """every way of using the NAME of an integer constant / enumerator as an array length inside a type
    string given at run time.  Each use has its own string (parsed type strings are cached per ffi);
    `sp` distinguishes the round before lib.<name> is read from the round after.  Item types of size 1:
    a valid length never makes the array size overflow."""
    br = "%s[%s]" % (sp, name)
    r = {"typeof": attempt_len(lambda: ffi.typeof("char" + br).length),
         "sizeof": attempt_len(lambda: ffi.sizeof("signed char" + br)),
         "newptr": attempt_len(lambda: ffi.typeof(ffi.new("unsigned char(**)" + br)).item.item.length),
         "cast": attempt_len(lambda: ffi.typeof(ffi.cast("int8_t(*)" + br, 0)).item.length)}
    if 0 <= cval <= SMALL_LENGTH:       # really allocate only when the C value is small
        r["new"] = attempt_len(lambda: len(ffi.new("uint8_t" + br)))
    return r


def probe_module(m, ffi, lib):
    res = {"consts": {}, "enums": {}, "structs": {}, "vars": {}, "funcs": {}, "typedefs": {}}
    for k in m.get("consts", []):
        n = k["name"]
        pre = probe_as_length(ffi, n, k["cval"], "")
        res["consts"][n] = {"lib": attempt(lambda: getattr(lib, n)),
                            "ffi": attempt(lambda: ffi.integer_const(n)),
                            "lib2": attempt(lambda: getattr(lib, n))}
        res["consts"][n]["len_pre"] = pre
        res["consts"][n]["len_post"] = probe_as_length(ffi, n, k["cval"], " ")
    for e in m.get("enums", []):
        r = {"items": {}, "len_pre": {}, "len_post": {}}
        for n, c, d in e["items"]:
            r["len_pre"][n] = probe_as_length(ffi, n, c, "")
            r["items"][n] = attempt(lambda: getattr(lib, n))
            r["len_post"][n] = probe_as_length(ffi, n, c, " ")
        r["relements"] = attempt(lambda: dict(ffi.typeof("enum " + e["name"]).relements))
        r["sizeof"] = attempt(lambda: ffi.sizeof("enum " + e["name"]))
        res["enums"][e["name"]] = r
    for s in m.get("structs", []):
        res["structs"][s["name"]] = probe_struct(ffi, s)
    for t in m.get("typedefs", []):
        res["typedefs"][t["name"]] = attempt(lambda: [ffi.sizeof(t["name"]), int(ffi.cast(t["name"], -1)) <= 0])
    for v in m.get("vars", []):
        n = v["name"]
        r = {}
        r["addr"] = attempt(lambda: [int(ffi.cast("uintptr_t", ffi.addressof(lib, n))), getattr(lib, "_ha_" + n)()])
        if v["arr"] is None:
            isint = category(v["base"]) == "int"
            cv = (lambda x: x) if isint else fval
            r["initial"] = attempt(lambda: cv(getattr(lib, n)))

            def wr():
                setattr(lib, n, v["w1"])
                seen_by_c = getattr(lib, "_hg_" + n)()
                getattr(lib, "_hs_" + n)(v["w2"])
                return [cv(seen_by_c), cv(getattr(lib, n))]
            r["write_read"] = attempt(wr)
        else:
            r["len"] = attempt(lambda: len(getattr(lib, n)))
            r["items"] = attempt(lambda: list(getattr(lib, n)))

            def wr2():
                getattr(lib, n)[0] = v["w1"]
                p = ffi.cast(v["base"] + " *", getattr(lib, "_ha_" + n)())
                return p[0]
            r["write_read"] = attempt(wr2)
        res["vars"][n] = r
    for f in m.get("funcs", []):
        rs = []
        for call in f["calls"]:
            rs.append(attempt(lambda: (fval if f["ret"] in FLOAT_TYPES else int)(getattr(lib, f["name"])(*call))))
        res["funcs"][f["name"]] = rs
    return res


def build_api(m, workdir, csrc, cdefs):
    import cffi
    ffi = cffi.FFI()
    for text, packed in cdefs:
        if text.strip():
            ffi.cdef(text, packed=packed)
    ffi.set_source(m["name"], PRELUDE + csrc + m.get("raw_c", ""))
    ffi.compile(tmpdir=workdir)
    sys.path.insert(0, workdir)
    try:
        mod = importlib.import_module(m["name"])
    finally:
        sys.path.remove(workdir)
    return mod.ffi, mod.lib


def one(m):
    work = os.path.join(os.environ["VERIF_WORK"], m["name"])
    out = {"name": m["name"]}
    try:
        csrc, cdefs, twins = module_texts(m)
        try:
            ffi, lib = build_api(m, work, csrc, cdefs)
        except Exception as e:
            out["build_error"] = errname(e)
            out["build_msg"] = str(e)[-800:]
            return out
        out["probe"] = probe_module(m, ffi, lib)
    except Exception:
        out["harness_error"] = traceback.format_exc()[-2000:]
    return out


def run_tasks(script, tasks, jobs, timeout=900):
    """run `script --task FILE` once per task, at most `jobs` at a time, each in a fresh process
    (a crash or a hang of one task is reported for that task instead of blocking the run)"""
    import tempfile
    from concurrent.futures import ThreadPoolExecutor
    tdir = tempfile.mkdtemp(prefix="tasks_", dir=os.environ["VERIF_WORK"])

    def run(i):
        path = os.path.join(tdir, "t%d.json" % i)
        with open(path, "w") as f:
            json.dump(tasks[i], f)
        try:
            p = subprocess.run([sys.executable, script, "--task", path], capture_output=True, text=True,
                               timeout=timeout)
        except subprocess.TimeoutExpired:
            return {"crash": "task did not finish within %d s" % timeout}
        for line in p.stdout.splitlines():
            if line.startswith("RESULT "):
                return json.loads(line[7:])
        return {"crash": "task process exited with status %d: %s" % (p.returncode, p.stderr[-600:])}
    with ThreadPoolExecutor(max(1, min(jobs, len(tasks)))) as ex:
        return list(ex.map(run, range(len(tasks))))


def main(payload):
    cases = payload["cases"]
    jobs = int(payload.get("jobs", 6))
    mods = []
    for m in cases:
        csrc, cdefs, twins = module_texts(m)
        mods.append((m, csrc, twins))
    allfacts, err = run_facts(mods, os.path.join(os.environ["VERIF_WORK"], "facts_%d" % os.getpid()))
    if err:
        return dict(results=[dict(name=m["name"], harness_error=err) for m in cases])
    results = run_tasks(os.path.abspath(__file__), cases, jobs)
    for m, r in zip(cases, results):
        r["facts"] = allfacts.get(m["name"], {})
    return dict(results=results)


if __name__ == "__main__":
    devnull = os.open(os.devnull, os.O_WRONLY)
    os.dup2(devnull, 2)                    # compiler warnings of the generated modules
    if len(sys.argv) == 3 and sys.argv[1] == "--task":
        res = one(json.load(open(sys.argv[2])))
        sys.stdout.write("\nRESULT " + json.dumps(res) + "\n")
    else:
        from lib.vlib import worker_main
        worker_main(main)
