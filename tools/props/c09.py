"""C09 — integer constant expressions in cdef evaluate as C evaluates them.

  regen : coq/C09/Gen.v from cparser.py (c09_regen.py; fail closed -> committed snapshot)
  corr  : random expression trees (all literal forms, depth <= 6)
            - gcc (one translation unit per batch) gives type and value           -> checks Spec.c_eval
            - the real cffi parser, expression placed in an array length, an enumerator value, a bitfield
              width, #define / static const (literals), read through typeof().length, relements,
              fields[].bitsize, integer_const, in-line and out-of-line ABI mode (API mode in thorough)
                                                                                  -> checks Model.py_eval
            - property predicate: cffi's value == gcc's value whenever gcc's evaluation is defined
"""
import os
import subprocess

from lib import vlib
from lib.vlib import cz, cstr
from props import c09_regen

ID = "C09"

# ----------------------------------------------------------------------------- reference C semantics (harness side)
# Mirrors coq/C09/Spec.v; the Coq Spec is compared with gcc on every case, and this mirror is compared with
# the Coq Spec (expected literal), so a slip in either is an alarm, not a silent exclusion.
RANKS = ["int", "long", "llong"]


def bits(t):
    return 32 if t[0] == 0 else 64


def tmin(t):
    return -(1 << (bits(t) - 1)) if t[1] else 0


def tmax(t):
    return (1 << (bits(t) - 1)) - 1 if t[1] else (1 << bits(t)) - 1


def fits(t, v):
    return tmin(t) <= v <= tmax(t)


def common(a, b):
    if a[1] == b[1]:
        return b if a[0] < b[0] else a
    u, s = (b, a) if a[1] else (a, b)
    if s[0] <= u[0]:
        return u
    if bits(u) < bits(s):
        return s
    return (s[0], False)


def conv(t, v):
    return v if t[1] else v % (1 << bits(t))


def result(t, exact, flag):
    if t[1]:
        return (t, exact, flag) if fits(t, exact) else None
    r = exact % (1 << bits(t))
    return (t, r, flag and r == exact)


def quot(a, b):
    q = abs(a) // abs(b)
    return q if (a < 0) == (b < 0) else -q


SUFFIXES = {"": (False, 0), "u": (True, 0), "U": (True, 0), "l": (False, 1), "L": (False, 1), "ul": (True, 1),
            "UL": (True, 1), "uL": (True, 1), "Ul": (True, 1), "lu": (True, 1), "LU": (True, 1), "lU": (True, 1),
            "Lu": (True, 1), "ll": (False, 2), "LL": (False, 2), "ull": (True, 2), "ULL": (True, 2), "uLL": (True, 2),
            "Ull": (True, 2), "llu": (True, 2), "LLU": (True, 2), "llU": (True, 2), "LLu": (True, 2)}
SIMPLE_ESC = {"'": 39, '"': 34, "?": 63, "\\": 92, "a": 7, "b": 8, "f": 12, "n": 10, "r": 13, "t": 9, "v": 11}


def ref_literal(s):
    if s.startswith("'"):
        if len(s) < 3 or not s.endswith("'"):
            return None
        b = s[1:-1]
        if len(b) == 1:
            return None if b in "'\\\n" or ord(b) >= 128 else ((0, True), ord(b))
        if b[0] != "\\":
            return None
        if b[1] == "x":
            h = b[2:]
            if not h or any(c not in "0123456789abcdefABCDEF" for c in h):
                return None
            v = int(h, 16)
        elif len(b) == 2 and b[1] in SIMPLE_ESC:
            return ((0, True), SIMPLE_ESC[b[1]])
        else:
            o = b[1:]
            if not (1 <= len(o) <= 3) or any(c not in "01234567" for c in o):
                return None
            v = int(o, 8)
            if len(o) == 1:
                return ((0, True), v)
        return ((0, True), v if v < 128 else v - 256) if v < 256 else None
    i = len(s)
    while i > 0 and s[i - 1] in "uUlL":
        i -= 1
    body, suf = s[:i], s[i:]
    if suf not in SUFFIXES or not body:
        return None
    uns, ls = SUFFIXES[suf]
    low = body.lower()
    try:
        if low.startswith("0x"):
            v, dec = int(low[2:], 16), False
        elif low.startswith("0b"):
            v, dec = int(low[2:], 2), False
        elif low.startswith("0"):
            v, dec = int(low, 8), False
        else:
            v, dec = int(low, 10), True
    except ValueError:
        return None
    if "_" in body or "+" in body or "-" in body or " " in body:
        return None
    if uns:
        cands = [(0, False), (1, False), (2, False)]
    elif dec:
        cands = [(0, True), (1, True), (2, True)]
    else:
        cands = [(0, True), (0, False), (1, True), (1, False), (2, True), (2, False)]
    for t in cands:
        if t[0] >= ls and fits(t, v):
            return (t, v)
    return None


# earlier constants the expressions may refer to: enumerators (type int in C), declared before the expression
KENV = {"K7": 7, "K0": 0, "KM": -3, "KB": 2147483647}
KDECL = "enum k_ { %s };" % ", ".join("%s = %d" % kv for kv in KENV.items())


def ref_eval(e):
    """-> None | (type, value, exact_flag)"""
    k = e[0]
    if k == "i":
        return ((0, True), KENV[e[1]], True)
    if k == "c":
        r = ref_literal(e[1])
        return None if r is None else (r[0], r[1], True)
    if k == "u":
        r = ref_eval(e[2])
        if r is None:
            return None
        t, v, f = r
        if e[1] == "+":
            return r
        if e[1] == "-":
            return result(t, -v, f)
        return None
    if k == "b":
        l, r = ref_eval(e[2]), ref_eval(e[3])
        if l is None or r is None:
            return None
        (ta, a, fa), (tb, b, fb) = l, r
        f, op = fa and fb, e[1]
        if op in ("<<", ">>"):
            if b < 0 or b >= bits(ta):
                return None
            if op == "<<":
                if ta[1] and a < 0:
                    return None
                return result(ta, a << b, f)
            return (ta, a >> b, f)
        t = common(ta, tb)
        a2, b2 = conv(t, a), conv(t, b)
        f = f and a2 == a and b2 == b
        if op in ("/", "%"):
            if b2 == 0 or (t[1] and a2 == tmin(t) and b2 == -1):
                return None
            q = quot(a2, b2)
            return result(t, q if op == "/" else a2 - q * b2, f)
        ex = {"+": a2 + b2, "-": a2 - b2, "*": a2 * b2, "&": a2 & b2, "|": a2 | b2, "^": a2 ^ b2}.get(op)
        return None if ex is None else result(t, ex, f)
    return None


# ----------------------------------------------------------------------------- generator

BOUNDARY = [0, 1, 2, 7, 8, 31, 32, 63, 64, 127, 128, 255, 256, 2 ** 15, 2 ** 31 - 1, 2 ** 31, 2 ** 31 + 1, 2 ** 32 - 1,
            2 ** 32, 2 ** 63 - 1, 2 ** 63, 2 ** 64 - 1]
SUFS = ["", "", "", "", "u", "U", "l", "L", "ul", "UL", "lu", "ll", "LL", "ull", "ULL", "llu", "uLL"]
CHARS = ["'a'", "'0'", "' '", "'Z'", "'~'", "'\"'", "'\\n'", "'\\0'", "'\\\\'", "'\\''", "'\\\"'", "'\\?'", "'\\7'", "'\\t'",
         "'\\a'", "'\\r'", "'\\v'", "'\\f'", "'\\b'", "'\\1'", "'*'", "'/'"]
CHARS_REJECTED = ["'\\12'", "'\\x41'", "'\\377'", "'ab'", "'\\8'", "'\\e'"]
OPS = ["+", "-", "*", "/", "%", "<<", ">>", "&", "|", "^"]


def gen_literal(rng):
    k = rng.random()
    if k < 0.12:
        return rng.choice(CHARS)
    if k < 0.14:
        return rng.choice(CHARS_REJECTED)
    if rng.random() < 0.6:
        v = rng.randrange(0, 40)
    else:
        v = max(0, rng.choice(BOUNDARY) + rng.choice([0, 0, -1, 1]))
    r = rng.random()
    if r < 0.45:
        body = "%d" % v
    elif r < 0.7:
        body = rng.choice(["0x%x", "0X%X", "0x%X"]) % v
    elif r < 0.88:
        body = "0%o" % v if v else "0"
    else:
        body = rng.choice(["0b", "0B"]) + bin(v)[2:]
    return body + rng.choice(SUFS)


def gen_expr(rng, depth):
    k = rng.random()
    if depth <= 0 or k < 0.28:
        if rng.random() < 0.07:
            return ["i", rng.choice(sorted(KENV))]
        return ["c", gen_literal(rng)]
    if k < 0.42:
        return ["u", rng.choice(["-", "-", "+"]), gen_expr(rng, depth - 1)]
    op = rng.choice(OPS)
    l = gen_expr(rng, depth - 1)
    if op in ("<<", ">>") and rng.random() < 0.8:
        r = ["c", "%d" % rng.choice([0, 1, 2, 3, 4, 7, 8, 15, 16, 30, 31, 32, 33, 62, 63, 64])]
    else:
        r = gen_expr(rng, depth - 1 if rng.random() < 0.7 else 0)
    return ["b", op, l, r]


class TooBig(Exception):
    pass


def math_eval(e):
    """what an evaluator on mathematical integers computes (None: it raises); TooBig if a left-shift count
    exceeds 128 -- such trees are not generated (cffi would build astronomically large integers)"""
    if e[0] == "i":
        return KENV[e[1]]
    if e[0] == "c":
        r = ref_literal(e[1])
        if r is not None:
            return r[1]
        s = e[1].rstrip("uUlL")
        try:
            return int(s, 8) if s.startswith("0") else int(s, 10)
        except ValueError:
            try:
                return int(s, 0)
            except ValueError:
                return None
    if e[0] == "u":
        v = math_eval(e[2])
        return None if v is None else (-v if e[1] == "-" else v)
    a, b = math_eval(e[2]), math_eval(e[3])
    if a is None or b is None:
        return None
    op = e[1]
    if op == "<<":
        if b > 128:
            raise TooBig()
        return None if b < 0 else a << b
    if op == ">>":
        return None if b < 0 else a >> b
    if op in "/%":
        if b == 0:
            return None
        q = quot(a, b)
        return q if op == "/" else a - q * b
    return {"+": a + b, "-": a - b, "*": a * b, "&": a & b, "|": a | b, "^": a ^ b}[op]


def c_text(e):
    if e[0] in "ci":
        return e[1]
    if e[0] == "u":
        return "(%s %s)" % (e[1], c_text(e[2]))      # blank: never "--" or "++"
    return "(%s %s %s)" % (c_text(e[2]), e[1], c_text(e[3]))


def coq_expr(e):
    if e[0] == "i":
        return "(Id %s)" % cstr(e[1])
    if e[0] == "c":
        return "(Const %s)" % cstr(e[1])
    if e[0] == "u":
        return '(Unary "%s" %s)' % (e[1], coq_expr(e[2]))
    return '(Binary "%s" %s %s)' % (e[1], coq_expr(e[2]), coq_expr(e[3]))


def depth_of(e):
    return 0 if e[0] in "ci" else 1 + max(depth_of(x) for x in e[2:])


def is_literal_like(e):
    """what '#define N x' / 'static const int N = x' accept: a literal, or '-' literal for static const"""
    return e[0] == "c" and not e[1].startswith("'")


WITNESSES = [
    # array lengths around and above 2**31 / 2**32 (third-round seed C09-c: narrowing when the type is realized)
    ["c", "0x100000010"], ["c", "2147483648"], ["c", "4294967296"], ["c", "040000000000"], ["c", "0x7fffffff"],
    ["c", "0xFFFFFFFFu"], ["c", "4294967297L"], ["b", "+", ["b", "*", ["c", "2"], ["c", "0x80000000L"]], ["c", "3"]],
    ["b", "<<", ["c", "1L"], ["c", "32"]], ["b", "|", ["b", "<<", ["c", "1ll"], ["c", "31"]], ["c", "5"]],
    ["b", "-", ["c", "0x100000000"], ["c", "1"]], ["b", "+", ["c", "2147483647"], ["c", "1L"]],
    ["b", "-", ["b", "<<", ["i", "K7"], ["c", "2"]], ["c", "'a'"]], ["b", "/", ["i", "KM"], ["c", "2"]],
    ["b", "+", ["i", "KB"], ["c", "1u"]],   # corpus: fixed defects (must stay fixed) and the witnesses of the open finding
    ["c", "'\\n'"], ["c", "'\\0'"], ["c", "'\\\\'"], ["c", "'a'"],
    ["b", "-", ["c", "0u"], ["c", "1"]],
    ["b", "+", ["c", "0xFFFFFFFF"], ["c", "1"]],
    ["u", "-", ["c", "0x80000000"]],
    ["b", "/", ["u", "-", ["c", "7"]], ["c", "2"]], ["b", "%", ["u", "-", ["c", "7"]], ["c", "2"]],
    ["b", "/", ["c", "7"], ["u", "-", ["c", "2"]]], ["b", "%", ["c", "7"], ["u", "-", ["c", "2"]]],
    ["b", ">>", ["u", "-", ["c", "9"]], ["c", "1"]],
    ["b", "/", ["c", "5"], ["c", "0"]], ["b", "<<", ["c", "1"], ["u", "-", ["c", "1"]]],
    ["c", "017"], ["c", "0x1fUL"], ["c", "0b101"], ["c", "08"],
]


def generate(ctx):
    rng = ctx.rng
    cases = [dict(kind="expr", e=e) for e in WITNESSES]
    while len(cases) < ctx.n(700, 10000):
        e = gen_expr(rng, rng.choice([0, 1, 1, 2, 2, 3, 4, 5, 6]))
        try:
            math_eval(e)
        except TooBig:
            continue
        cases.append(dict(kind="expr", e=e))
    return cases


def finding_key(case):
    """known finding unsigned_arith: the C evaluation is defined but some conversion changed a value or an
    unsigned operation wrapped (the exact flag of Spec.c_eval is false) -- cffi computes on mathematical integers"""
    r = ref_eval(case["e"])
    if r is not None and not r[2]:
        return "unsigned_arith"
    return None


# ----------------------------------------------------------------------------- gcc oracle

GCC_HEAD = r'''#include <stdio.h>
#define TID(e) _Generic((e), int:0, unsigned:1, long:2, unsigned long:3, long long:4, unsigned long long:5, default:9)
#define EMIT(i, e) do { __typeof__(e) v_ = (e); printf("%d %d %llu\n", i, TID(e), (unsigned long long)v_); } while (0)
enum k_ { K7 = 7, K0 = 0, KM = -3, KB = 2147483647 };
int main(void) {
'''


def gcc_values(work, exprs):
    """exprs: list of (index, C text) -> dict index -> (rank, signed, value) | 'rejected'"""
    out, todo, rejected = {}, list(exprs), set()
    for attempt in range(4):
        if not todo:
            break
        src = os.path.join(work, "c09_oracle.c")
        with open(src, "w") as f:
            f.write(GCC_HEAD)
            for i, t in todo:
                f.write("EMIT(%d, %s);\n" % (i, t))
            f.write("return 0; }\n")
        exe = os.path.join(work, "c09_oracle")
        p = subprocess.run(["gcc", "-w", "-O0", "-fmax-errors=0", "-o", exe, src], capture_output=True, text=True)
        if p.returncode == 0:
            q = subprocess.run([exe], capture_output=True, text=True, timeout=120)
            if q.returncode != 0:
                raise RuntimeError("gcc oracle program failed: rc=%d" % q.returncode)
            for line in q.stdout.splitlines():
                i, tid, bits_ = line.split()
                i, tid, u = int(i), int(tid), int(bits_)
                rank, signed = tid // 2, tid % 2 == 0
                w = 32 if rank == 0 else 64
                u &= (1 << w) - 1
                out[i] = (rank, signed, u - (1 << w) if signed and u >> (w - 1) else u)
            return out, rejected
        bad = set()
        nhead = GCC_HEAD.count("\n")
        for line in p.stderr.splitlines():
            parts = line.split(":")
            if len(parts) > 3 and parts[0].endswith("c09_oracle.c") and parts[1].isdigit() and "error" in line:
                k = int(parts[1]) - nhead - 1
                if 0 <= k < len(todo):
                    bad.add(todo[k][0])
        if not bad:
            raise RuntimeError("gcc oracle does not compile: " + p.stderr[-800:])
        rejected |= bad
        todo = [(i, t) for i, t in todo if i not in bad]
    return out, rejected


# ----------------------------------------------------------------------------- evaluation

def opt_lit(r):
    if r is None:
        return "None"
    rank, signed, v = r
    return "(Some (%s, (%s, %s)))" % (cz(rank), "true" if signed else "false", cz(v))


def evaluate(ctx, cases):
    s = ctx.scratch()
    cases = [c for c in cases if c["kind"] == "expr"]
    if not cases:
        return
    refs = [ref_eval(c["e"]) for c in cases]
    # --- gcc on every case whose evaluation the reference says is defined
    gcc, rejected = gcc_values(s.work, [(i, c_text(c["e"])) for i, c in enumerate(cases) if refs[i] is not None])
    # --- Coq Spec vs gcc (and vs the harness mirror on the undefined cases)
    pairs, owner = [], []
    for i, c in enumerate(cases):
        if i in rejected:
            ctx.hist("gcc", "rejected")
            continue
        exp = None if refs[i] is None else gcc[i]
        if refs[i] is not None and (refs[i][0][0], refs[i][0][1], refs[i][1]) != gcc[i]:
            ctx.mismatch(c, "reference C semantics (harness mirror of Spec.v) gives %r, gcc gives %r for %s"
                         % (refs[i], gcc[i], c_text(c["e"])), "C09.Spec.c_eval vs gcc")
        pairs.append((coq_expr(c["e"]), opt_lit(exp)))
        owner.append(i)
        ctx.hist("gcc", "undefined(excluded)" if refs[i] is None else "value")
    # --- the real parser
    payload = dict(cases=[dict(text=c_text(c["e"]), literal=is_literal_like(c["e"]),
                               neg_literal=(c["e"][0] == "u" and c["e"][1] == "-" and is_literal_like(c["e"][2])),
                               # API mode: the C compiler cross-checks; only where C is defined, exact and int-sized
                               api_ok=(refs[i] is not None and refs[i][2] and i not in rejected
                                       and -2 ** 31 <= refs[i][1] < 2 ** 31),
                               # a typedef of an array of that length (no enum): lengths up to 2**40
                               api_arr=(refs[i] is not None and refs[i][2] and i not in rejected
                                        and 0 < refs[i][1] < 2 ** 40))
                          for i, c in enumerate(cases)], api=ctx.thorough, prefix=KDECL)
    out, p = s.run_worker("c09_worker.py", payload, timeout=3000)
    if out is None:
        ctx.violation(cases[0], "worker failed: " + (p.stderr[-1500:] or p.stdout[-500:]))
        return
    codes = {"CDefError": 1, "FFIError": 2, "ZeroDivisionError": 3, "ValueError": 4, "IndexError": 5, "KeyError": 6,
             "MemoryError": 7, "TypeError": 8}
    mpairs, mowner = [], []
    for i, (c, r) in enumerate(zip(cases, out["results"])):
        ctx.count()
        ctx.hist("depth", depth_of(c["e"]))
        key = finding_key(c)
        # the parser's own value: the enumerator position accepts every value
        pv = r["parser"]
        ctx.hist("cffi_outcome", "value" if isinstance(pv, int) else pv)
        mpairs.append((coq_expr(c["e"]), "(%s, %s)" % ((cz(0), cz(pv)) if isinstance(pv, int)
                                                        else (cz(codes.get(pv[4:], 99)), cz(0)))))
        mowner.append(i)
        # all reading paths must report the same value
        for k, v in r["reads"].items():
            if not isinstance(v, int):
                ctx.hist("position_refused", "%s %s" % (k.split(".")[-1], str(v)[:40]))
        vals = {k: v for k, v in r["reads"].items() if isinstance(v, int)}     # a refusal is not a wrong value
        distinct = {repr(v) for v in vals.values()}
        if isinstance(pv, int) and len(distinct) > 1:
            ctx.violation(c, "the reading paths disagree on %s: %r" % (c_text(c["e"]), vals), key=key)
        # property predicate: accepted by cffi and defined in C  =>  same value
        if i in rejected or refs[i] is None:
            continue
        cval = gcc[i][2]
        if isinstance(pv, int):
            if depth_of(c["e"]) > 0 or not c["e"][1].isdigit():   # (identifiers count as non-trivial)
                ctx.nontrivial(("expr", c_text(c["e"])))
            if pv != cval:
                ctx.violation(c, "%s: cffi evaluates to %d, gcc to %d (type %s%s)" % (
                    c_text(c["e"]), pv, cval, "" if gcc[i][1] else "unsigned ", RANKS[gcc[i][0]]), key=key)
            for k, v in vals.items():
                if v != cval and v != pv:
                    ctx.violation(c, "%s read through %s gives %r, gcc %d" % (c_text(c["e"]), k, v, cval), key=key)
    # --- both Coq evaluations in one pass: Spec.c_eval vs gcc, Model.py_eval vs the real parser
    spec_exp = dict(zip(owner, (p_[1] for p_ in pairs)))
    both, bowner = [], []
    for k, i in enumerate(mowner):
        if i in spec_exp:
            both.append((mpairs[k][0], "(%s, %s)" % (spec_exp[i], mpairs[k][1])))
            bowner.append(i)
    eq_spec, eq_model = "opt_eqb (pair_eqb Z.eqb (pair_eqb Bool.eqb Z.eqb))", "pair_eqb Z.eqb Z.eqb"
    imports = ["C09.Prim", "C09.Gen", "C09.Spec", "C09.Model"]
    kenv = "[" + "; ".join("(%s, %s)" % (cstr(k), cz(v)) for k, v in KENV.items()) + "]"
    PRE = ("Open Scope string_scope.\nDefinition kenv : list (text * Z) := %s.\n"
           "Definition kcenv := map (fun p : text * Z => (fst p, (mk_cty RInt true, snd p))) kenv.\n"
           "Definition spec_out e := c_eval_out_env kcenv e.\nDefinition model_out e := res_out (py_eval kenv e).\n" % kenv)
    bad, outs, err = vlib.coq_mismatches(imports, "(fun e => (spec_out e, model_out e))",
                                         "pair_eqb (%s) (%s)" % (eq_spec, eq_model), both, shard=500, prelude=PRE)
    if err:
        ctx.obligation_broken("C09 model/spec evaluation", err)
    if bad:       # attribute each disagreement to the specification or to the model
        sub = [bowner[k] for k in bad]
        inp = {i: mpairs[mowner.index(i)] for i in sub}
        b1, o1, _ = vlib.coq_mismatches(imports, "spec_out", eq_spec, [(inp[i][0], spec_exp[i]) for i in sub], prelude=PRE)
        for k in b1:
            c = cases[sub[k]]
            ctx.mismatch(c, "Spec.c_eval = %s, gcc/reference = %s for %s" % (o1.get(k), spec_exp[sub[k]], c_text(c["e"])),
                         "C09.Spec.c_eval vs gcc")
        b2, o2, _ = vlib.coq_mismatches(imports, "model_out", eq_model, [inp[i] for i in sub], prelude=PRE)
        for k in b2:
            c = cases[sub[k]]
            ctx.mismatch(c, "model py_eval = %s, cffi's parser gives %r for %s" % (
                o2.get(k), out["results"][sub[k]]["parser"], c_text(c["e"])), "C09.Model.py_eval vs cparser._parse_constant")
    for c in cases[:2] + sorted(cases, key=lambda c: -depth_of(c["e"]))[:2]:
        ctx.sample(dict(text=c_text(c["e"])))
    ctx.extra["api_mode"] = out.get("api")


def regen(ctx):
    c09_regen.regen(ctx, vlib.COQ, vlib.REPO)


def run(ctx):
    ctx.cov["rule"] = ("random expression trees of depth 0..6 over decimal/octal/hex/binary literals (small values and the "
                       "boundaries 2^31, 2^32, 2^63, 2^64 +-1, all u/l suffix forms), character constants (plain, simple and "
                       "octal escapes, rejected forms), unary + -, the ten binary operators; shift counts around the widths. "
                       "Each tree: gcc value and type (UB and gcc-rejected excluded), Coq Spec.c_eval, Coq Model.py_eval, the real "
                       "parser (enumerator, array length, bitfield width, #define, static const; in-line and out-of-line ABI). "
                       "Non-trivial = accepted by cffi, defined in C, and not a bare decimal literal; distinct by C text.")
    ctx.assumptions += [
        "C09/Gen.v regenerated from cparser.py by tools/props/c09_regen.py (statement translator + shape-matching driver; "
        "trusted, ~150 lines) and, for length_path, from realize_c_type.c/_cffi_backend.c/parse_c_type.h by c09_lenpath.py; the literal scanner of C09/Model.v is hand-written and tied by this run's differential test",
        "C09/Spec.v (typed C evaluation, LP64, gcc's implementation-defined choices) is validated against gcc 12 on every run",
        "Python's integer operators mean what C09/Prim.v says (validated through the same run: every expression is evaluated "
        "by CPython inside cffi)"]
    evaluate(ctx, generate(ctx))


MANIFEST = dict(
    technique="Coq proof about the evaluator regenerated from cparser.py (py2coq-style translation of _c_div and the operator "
              "dispatch into an exception monad) against an independent typed C semantics + differential test of model, "
              "specification, gcc and the real parser on random expression trees",
    text="Full on the stated sub-class, refuted outside it. Proved: _c_div is C's truncating division and the % branch C's "
         "remainder (C09_c_div_is_quot, C09_rem_law); every expression tree over earlier constants, numeric literals, character "
         "constants of one (possibly escaped) character, unary + - and the ten binary operators whose C evaluation is defined "
         "and involves no value-changing conversion and no unsigned wrap-around is ACCEPTED by cffi and evaluates to the C "
         "value, for every table of earlier constants that agrees with C (C09_accepted_with_C_value_partial); without the "
         "restriction on character constants the only other outcome is a CDefError for multi-digit octal/hex escapes "
         "(C09_agree_partial, C09_literals_strong). The full statement is false (C09_refuted: 0u - 1, 0xFFFFFFFF + 1, "
         "-0x80000000): known finding unsigned_arith. Also proved: C09_c_div_zero, C09_number_literals. #define / static "
         "const path: C09_define_value - _add_integer_constant (hand model, tied by the define/static-const contexts of the "
         "correspondence run) gives every C integer literal of any radix and u/l suffix except gcc's 0b form its C value, and "
         "'-'literal its negation (value only; the C type of the literal is not in the statement). Array-length context, "
         "out-of-line modes: C09_length_path_preserves - the C types of every cast, variable and parameter between the "
         "opcode stream and new_array_type() are REGENERATED (c09_lenpath.py, textual data-flow over realize_c_type.c; "
         "untraceable = width 0) and every length in [0, 2^63) is proved to arrive unchanged; a narrowing anywhere on that "
         "path breaks the obligation. The other contexts (enumerator incl. implicit +1 and references to earlier "
         "enumerators, bitfield width, the three modes) are tested, not modelled.",
    note="Trusted: Coq kernel; translator c09_regen.py; hand model of literal scanning (tied by differential test); Spec.v "
         "validated against gcc; LP64 only; c09_lenpath.py (regular-expression data-flow extraction + LP64 width table, "
         "~200 lines).",
    design_ref="DESIGN.md §4 C09")
