"""C17 worker: builds pairs of real objects (cdata of every kind, Python values), applies the six
comparison operators both ways, hash(), set/dict membership; returns raw outcomes together with
an INDEPENDENT description of each operand (address, Python type, the value a primitive converts
to — computed with struct/int arithmetic, not with cffi) and CPython's own answers on those
converted values."""
import cmath
import math
import operator
import struct
import sys

import cffi
from lib.vlib import worker_main

ffi = cffi.FFI()
ffi.cdef("""
    struct s { int x; short y; };
    union u { int a; char b[6]; };
    enum e1 { EA, EB = 5, EC = -3 };
    enum e2 { FA, FB = 4000000000 };
""")

OPS = [operator.lt, operator.le, operator.eq, operator.ne, operator.gt, operator.ge]

INT_TYPES = {   # name -> (size, signed)
    "signed char": (1, True), "short": (2, True), "int": (4, True), "long": (8, True), "long long": (8, True),
    "unsigned char": (1, False), "unsigned short": (2, False), "unsigned int": (4, False),
    "unsigned long": (8, False), "unsigned long long": (8, False),
    "int8_t": (1, True), "uint8_t": (1, False), "int16_t": (2, True), "uint16_t": (2, False),
    "int32_t": (4, True), "uint32_t": (4, False), "int64_t": (8, True), "uint64_t": (8, False),
    "size_t": (8, False), "ssize_t": (8, True), "intptr_t": (8, True), "uintptr_t": (8, False),
    "ptrdiff_t": (8, True), "enum e1": (4, True), "enum e2": (4, False),
}

keep = []        # everything created stays alive: addresses are never reused within a batch


def wrap(v, size, signed):
    v &= (1 << (8 * size)) - 1
    if signed and v >= 1 << (8 * size - 1):
        v -= 1 << (8 * size)
    return v


def oracle_conv(ctype, src):
    """what the primitive cdata ffi.cast(ctype, src) converts to: ('val', v) | ('cdata',) | ('err',)"""
    if ctype in INT_TYPES:
        size, signed = INT_TYPES[ctype]
        return ("val", wrap(int(src), size, signed))
    if ctype == "_Bool":
        return ("val", bool(src))
    if ctype == "float":
        f = float(src)
        try:
            return ("val", struct.unpack("f", struct.pack("f", f))[0])
        except OverflowError:
            return ("val", math.copysign(math.inf, f))
    if ctype == "double":
        return ("val", float(src))
    if ctype == "long double":
        return ("cdata",)
    if ctype == "char":
        return ("val", bytes([int(src) & 0xFF]))
    if ctype == "char16_t":
        return ("val", chr(int(src) & 0xFFFF))
    if ctype in ("wchar_t", "char32_t"):
        v = int(src) & 0xFFFFFFFF
        if ctype == "wchar_t":
            v = wrap(v, 4, True)
        return ("val", chr(v)) if 0 <= v <= 0x10FFFF else ("err",)
    if ctype == "float _Complex":
        c = complex(src)
        r = [struct.unpack("f", struct.pack("f", p))[0] for p in (c.real, c.imag)]
        return ("val", complex(r[0], r[1]))
    if ctype == "double _Complex":
        return ("val", complex(src))
    raise ValueError(ctype)


def decode_py(v):
    t = v[0]
    if t == "int":
        return int(v[1])
    if t == "float":
        return float.fromhex(v[1]) if v[1] not in ("nan", "inf", "-inf") else float(v[1])
    if t == "bool":
        return bool(v[1])
    if t == "none":
        return None
    if t == "bytes":
        return bytes.fromhex(v[1])
    if t == "str":
        return "".join(chr(c) for c in v[1])
    if t == "complex":
        return complex(float.fromhex(v[1]), float.fromhex(v[2]))
    if t == "list":
        return [decode_py(x) for x in v[1]]
    if t == "tuple":
        return tuple(decode_py(x) for x in v[1])
    raise ValueError(t)


class Pool:
    def __init__(self):
        self.sarr = ffi.new("struct s[8]")
        self.iarr = ffi.new("int[4][3]")
        self.uarr = ffi.new("union u[3]")
        self.sptr = ffi.new("struct s *")
        self.barr = bytearray(64)
        self.frombuf = ffi.from_buffer(self.barr)
        self.cb = ffi.callback("int(int)", lambda x: x)
        self.handle_obj = object()
        self.handle = ffi.new_handle(self.handle_obj)
        self.alloc = ffi.new_allocator(should_clear_after_alloc=True)("int[5]")


POOL = None


def addr_of(x):
    return int(ffi.cast("uintptr_t", x))


def build_ptr(spec):
    """-> (object, address computed by another route)"""
    how = spec["how"]
    P = POOL
    if how == "cast":
        x = ffi.cast(spec["ctype"], spec["addr"])
        return x, spec["addr"]
    base = {"sarr": P.sarr, "iarr": P.iarr, "uarr": P.uarr, "sptr": P.sptr, "frombuf": P.frombuf,
            "cb": P.cb, "handle": P.handle, "alloc": P.alloc}[spec["base"]]
    baddr = addr_of(base)
    i = spec.get("i", 0)
    if how == "base":
        return base, baddr
    if how == "voidp":                       # void* / char* view of the base, plus a byte offset
        x = ffi.cast(spec.get("ctype", "void *"), base)
        off = spec.get("off", 0)
        if off:
            x = ffi.cast("char *", x) + off
        return x, baddr + off
    if how == "elem":                        # struct / union / inner-array cdata inside the base array
        x = base[i]
        return x, baddr + i * ffi.sizeof(ffi.typeof(base).item)
    if how == "addrof":                      # pointer to that element
        x = ffi.addressof(base, i) if spec["base"] != "sptr" else ffi.addressof(base[0])
        return x, baddr + i * (ffi.sizeof(ffi.typeof(base).item))
    if how == "plus":                        # pointer arithmetic on the decayed array
        x = base + i
        return x, baddr + i * ffi.sizeof(ffi.typeof(base).item)
    if how == "gc":
        x = ffi.gc(ffi.cast("char *", base) + i, lambda p: None)
        return x, baddr + i
    if how == "deref":                       # *sptr : the struct itself
        return base[0], baddr
    raise ValueError(how)


PYTYPES = {"_CDataBase": "TBase", "__CDataOwn": "TOwn", "__CDataOwnGC": "TOwnGC",
           "__CDataFromBuf": "TFromBuf", "__CDataGCP": "TGCP"}


def build(spec):
    """-> (object, description for the model / predicates)"""
    k = spec["k"]
    if k == "py":
        v = decode_py(spec["v"])
        return v, dict(k="py", val=v)
    if k == "prim":
        src = decode_py(spec["src"])
        x = ffi.cast(spec["ctype"], src)
        return x, dict(k="prim", conv=oracle_conv(spec["ctype"], src), self=id(x) + 48,
                       pytype=PYTYPES.get(type(x).__name__, type(x).__name__))
    x, addr = build_ptr(spec)
    return x, dict(k="ptr", addr=addr % (1 << 64), pytype=PYTYPES.get(type(x).__name__, type(x).__name__),
                   ckind=ffi.typeof(x).kind)


def outcome(thunk):
    try:
        r = thunk()
    except Exception as e:
        return ["err", type(e).__name__]
    if r is True or r is False:
        return ["bool", r]
    if isinstance(r, int):
        return ["int", r]
    return ["other", type(r).__name__]


def one(case):
    a, da = build(case["a"])
    if case.get("same"):
        b, db = a, da
    else:
        b, db = build(case["b"])
    keep.extend([a, b])
    res = dict(
        ab=[outcome(lambda: op(a, b)) for op in OPS],
        ba=[outcome(lambda: op(b, a)) for op in OPS],
        ha=outcome(lambda: hash(a)), hb=outcome(lambda: hash(b)),
        in_set=outcome(lambda: a in {b}) if True else None,
        in_dict=outcome(lambda: {b: 1}.get(a) == 1),
        in_list=outcome(lambda: a in [b]),
        same=a is b)
    # CPython's own answers on the converted values (indices 0 = a's value, 1 = b's value)
    vals = []
    for d in (da, db):
        if d["k"] == "py":
            vals.append(("v", d["val"]))
        elif d["k"] == "prim" and d["conv"][0] == "val":
            vals.append(("v", d["conv"][1]))
        else:
            vals.append(None)
    tbl = []
    for i in (0, 1):
        for j in (0, 1):
            if vals[i] is None or vals[j] is None:
                tbl.append(None)
            else:
                tbl.append([outcome(lambda: op(vals[i][1], vals[j][1])) for op in OPS])
    def isnan(v):
        return (isinstance(v, float) and v != v) or (isinstance(v, complex) and (v.real != v.real or v.imag != v.imag))
    # hash(nan) depends on the identity of the float object since CPython 3.10: no value to compare with
    hashes = [(["nanhash"] if isnan(v[1]) else outcome(lambda: hash(v[1]))) if v is not None else None for v in vals]
    for d in (da, db):
        d.pop("val", None)
        if d.get("conv") and d["conv"][0] == "val":
            d["conv"] = ["val"]
    return dict(res=res, a=da, b=db, tbl=tbl, hashes=hashes)


def main(payload):
    global POOL
    POOL = Pool()
    return dict(results=[one(c) for c in payload["cases"]])


worker_main(main)
